(** C03: character data with &amp; &lt; &gt; &nbsp; &apos; &quot; decoded -- for EVERY text made of ampersand-free stretches and
    entity tokens, in any number and order, the un-escaping String._convert_str performs (Model/Scalars.string_unescape: the
    sequential str.replace passes of saxutils.unescape over the table REGENERATED from /repo, Gen/ScalarsGen.string_entities)
    yields the text with every token replaced by the character it stands for and nothing else changed.  No bound on the number of
    segments or on their lengths. *)
From OfxV Require Import Base.Prelude Model.PyDecimal Model.Scalars Gen.ScalarsGen.
Local Open Scope N_scope.

(** the passes of saxutils.unescape, in the order they are applied *)
Definition all_ents : list (text * text) := [(T "&lt;", T "<"); (T "&gt;", T ">")] ++ string_entities ++ [(T "&amp;", T "&")].
Definition n_ents : nat := List.length all_ents.

Inductive seg := Plain (a : text) | Ent (i : nat).
Definition noampb (a : text) : bool := forallb (fun c => negb (c =? 38)) a.
Definition seg_ok (s : seg) : bool := match s with Plain a => noampb a | Ent i => Nat.ltb i n_ents end.
Definition segs_ok (l : list seg) : bool := forallb seg_ok l.

Definition tok (i : nat) : text := fst (nth i all_ents ([], [])).
Definition chr (i : nat) : text := snd (nth i all_ents ([], [])).
(** the text as written / the text it denotes *)
Definition written (l : list seg) : text := flat_map (fun s => match s with Plain a => a | Ent i => tok i end) l.
Definition denoted (l : list seg) : text := flat_map (fun s => match s with Plain a => a | Ent i => chr i end) l.

(** after pass k: token k has become its character *)
Definition stage1 (k : nat) (s : seg) : seg := match s with Ent i => if Nat.eqb i k then Plain (chr k) else Ent i | p => p end.
Definition stage (k : nat) (l : list seg) : list seg := map (stage1 k) l.

Lemma replace_go_noamp pat rep a rest :
  noampb a = true -> replace_go (38 :: pat) rep 0 (a ++ rest)%list = (a ++ replace_go (38 :: pat) rep 0 rest)%list.
Proof.
  induction a as [|c a IH]; intros Ha; [reflexivity|].
  cbn [noampb forallb] in Ha. apply andb_true_iff in Ha. destruct Ha as [Hc Ha].
  cbn [app replace_go prefixb]. destruct (38 =? c) eqn:E.
  - apply N.eqb_eq in E. subst c. discriminate Hc.
  - cbn [andb]. f_equal. apply IH. exact Ha.
Qed.

Lemma six : n_ents = 6%nat.
Proof. reflexivity. Qed.

Tactic Notation "six_cases" ident(i) hyp(H) :=
  destruct i as [|i]; [| destruct i as [|i]; [| destruct i as [|i]; [| destruct i as [|i]; [| destruct i as [|i]; [|
  destruct i as [|i]; [| exfalso; cbn in H; discriminate H]]]]]].

Lemma written_cons s l : written (s :: l) = ((match s with Plain a => a | Ent i => tok i end) ++ written l)%list.
Proof. reflexivity. Qed.
Lemma stage_cons k s l : stage k (s :: l) = stage1 k s :: stage k l.
Proof. reflexivity. Qed.

(** one pass over one token, whatever follows *)
Lemma pass_token k i rest :
  Nat.ltb k n_ents = true -> Nat.ltb i n_ents = true ->
  replace_go (tok k) (chr k) 0 (tok i ++ rest)%list =
  ((match stage1 k (Ent i) with Plain a => a | Ent j => tok j end) ++ replace_go (tok k) (chr k) 0 rest)%list.
Proof. intros Hk Hi. six_cases k Hk; six_cases i Hi; reflexivity. Qed.

Lemma pass_plain k a rest :
  Nat.ltb k n_ents = true -> noampb a = true ->
  replace_go (tok k) (chr k) 0 (a ++ rest)%list = (a ++ replace_go (tok k) (chr k) 0 rest)%list.
Proof. intros Hk Ha. six_cases k Hk; apply (replace_go_noamp _ _ a rest Ha). Qed.

(** one pass over the written text *)
Lemma pass_written k l :
  Nat.ltb k n_ents = true -> segs_ok l = true ->
  replace_all (tok k) (chr k) (written l) = written (stage k l).
Proof.
  intros Hk Hl.
  assert (Hgo : replace_all (tok k) (chr k) (written l) = replace_go (tok k) (chr k) 0 (written l)).
  { six_cases k Hk; reflexivity. }
  rewrite Hgo. clear Hgo.
  induction l as [|s l IH]; [six_cases k Hk; reflexivity|].
  cbn [segs_ok forallb] in Hl. apply andb_true_iff in Hl. destruct Hl as [Hs Hl]. specialize (IH Hl).
  rewrite stage_cons, !written_cons, <- IH.
  destruct s as [a|i]; cbn [seg_ok] in Hs.
  - cbn [stage1]. apply pass_plain; assumption.
  - apply pass_token; assumption.
Qed.

Lemma stage_ok k l : Nat.ltb k 5 = true -> segs_ok l = true -> segs_ok (stage k l) = true.
Proof.
  intros Hk. induction l as [|s l IH]; intros Hl; [reflexivity|].
  cbn [segs_ok forallb] in Hl. apply andb_true_iff in Hl. destruct Hl as [Hs Hl].
  cbn [stage map segs_ok forallb]. apply andb_true_iff. split; [|apply IH; exact Hl].
  destruct s as [a|i]; [exact Hs|]. cbn [stage1].
  destruct (Nat.eqb i k) eqn:E; [|exact Hs].
  do 5 (destruct k as [|k]; [reflexivity|]). cbn in Hk. discriminate Hk.
Qed.

Lemma all_stages_denoted l :
  segs_ok l = true -> written (stage 5 (stage 4 (stage 3 (stage 2 (stage 1 (stage 0 l)))))) = denoted l.
Proof.
  induction l as [|s l IH]; intros Hl; [reflexivity|].
  cbn [segs_ok forallb] in Hl. apply andb_true_iff in Hl. destruct Hl as [Hs Hl]. specialize (IH Hl).
  cbn [stage map written flat_map denoted]. fold (denoted l).
  change (map (stage1 5) (map (stage1 4) (map (stage1 3) (map (stage1 2) (map (stage1 1) (map (stage1 0) l))))))
    with (stage 5 (stage 4 (stage 3 (stage 2 (stage 1 (stage 0 l)))))).
  fold (written (stage 5 (stage 4 (stage 3 (stage 2 (stage 1 (stage 0 l))))))). rewrite IH.
  destruct s as [a|i]; [reflexivity|]. cbn [seg_ok] in Hs. six_cases i Hs; reflexivity.
Qed.

Theorem string_unescape_decodes l : segs_ok l = true -> string_unescape (written l) = denoted l.
Proof.
  intros Hl. unfold string_unescape, sax_unescape.
  change ([(T "&lt;", T "<"); (T "&gt;", T ">")] ++ string_entities ++ [(T "&amp;", T "&")])%list with all_ents.
  change (replace_seq all_ents (written l)) with
    (replace_all (tok 5) (chr 5) (replace_all (tok 4) (chr 4) (replace_all (tok 3) (chr 3)
      (replace_all (tok 2) (chr 2) (replace_all (tok 1) (chr 1) (replace_all (tok 0) (chr 0) (written l))))))).
  pose proof (stage_ok 0 l eq_refl Hl) as H0.
  pose proof (stage_ok 1 _ eq_refl H0) as H1.
  pose proof (stage_ok 2 _ eq_refl H1) as H2.
  pose proof (stage_ok 3 _ eq_refl H2) as H3.
  pose proof (stage_ok 4 _ eq_refl H3) as H4.
  rewrite (pass_written 0 l eq_refl Hl), (pass_written 1 _ eq_refl H0), (pass_written 2 _ eq_refl H1),
          (pass_written 3 _ eq_refl H2), (pass_written 4 _ eq_refl H3), (pass_written 5 _ eq_refl H4).
  apply all_stages_denoted. exact Hl.
Qed.

(** the table is the one the property states: the six tokens and their characters (finite; breaks when an entry is dropped or changed) *)
Lemma entity_table_as_stated :
  map (fun kv => (fst kv, snd kv)) all_ents =
  [ (T "&lt;", T "<"); (T "&gt;", T ">"); (T "&nbsp;", T " "); (T "&apos;", T "'"); (T "&quot;", [34]); (T "&amp;", T "&") ].
Proof. reflexivity. Qed.

(** non-vacuity: "a &lt; b &amp;amp; c&apos;s" is such a text; &amp;lt; is decoded once, to "&lt;" *)
Example decodes_example :
  let l := [Plain (T "a "); Ent 0; Plain (T " b "); Ent 5; Plain (T "amp; c"); Ent 3; Plain (T "s")] in
  segs_ok l = true /\ written l = T "a &lt; b &amp;amp; c&apos;s" /\ string_unescape (written l) = T "a < b &amp; c's".
Proof. vm_compute. auto. Qed.

(** the converter of String / NagString elements (Types.String._convert_str): the value held is the denoted text, and the length
    limit is applied to the DECODED text (a token counts as the one character it stands for) *)
Theorem convert_string_decodes len strict required l :
  segs_ok l = true -> written l <> [] ->
  (forall n, len = Some n -> (tlen (denoted l) <= n)%N) ->
  convert_string len strict required (PStr (written l)) = OK (PStr (denoted l), false).
Proof.
  intros Hl Hne Hlen. unfold convert_string.
  destruct (written l) as [|c r] eqn:E; [contradiction Hne; reflexivity|].
  cbn [isnil]. rewrite <- E, (string_unescape_decodes l Hl). unfold enforce_length_str.
  destruct len as [n|]; [|reflexivity].
  specialize (Hlen n eq_refl). destruct (n <? tlen (denoted l))%N eqn:Lt; [apply N.ltb_lt in Lt; lia|reflexivity].
Qed.
