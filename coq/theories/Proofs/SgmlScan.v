(** C02, scanner level: the skip-counter lemma [scan_skip] and, for every token shape of a rendering,
    what the model of TreeBuilder.regex matches at it ([match_at_tok]); hence [scan_render_toks]:
    the scan of a well-formed token chain is the list of expected matches, and [events_render_toks]. *)
From OfxV Require Import Base.Prelude Base.SgmlBase Model.Sgml Model.SgmlSpec.
From Coq Require Import Lia ZifyBool ZifyN.
Local Open Scope N_scope.

(** ---------------------------------------------------------------- generic list scanners *)
Lemma take_while_app p a b : forallb p a = true -> (b = [] \/ exists c b', b = c :: b' /\ p c = false) ->
  take_while p (a ++ b) = (a, b).
Proof.
  intros Ha Hb. induction a as [|x a IH]; cbn [app take_while].
  - destruct Hb as [->|(c & b' & -> & Hc)]; cbn [take_while]; [reflexivity|]. rewrite Hc. reflexivity.
  - cbn [forallb] in Ha. apply andb_true_iff in Ha as [Hx Ha]. rewrite Hx, (IH Ha). reflexivity.
Qed.
Lemma take_while_pass p a b : forallb p a = true ->
  take_while p (a ++ b) = ((a ++ fst (take_while p b))%list, snd (take_while p b)).
Proof.
  intros Ha. induction a as [|x a IH]; cbn [app take_while].
  - destruct (take_while p b); reflexivity.
  - cbn [forallb] in Ha. apply andb_true_iff in Ha as [Hx Ha]. rewrite Hx, (IH Ha). reflexivity.
Qed.
Lemma take_while_all p a : forallb p a = true -> take_while p a = (a, []).
Proof. intro H. rewrite <- (app_nil_r a) at 1. apply take_while_app; auto. Qed.
Lemma take_while_stop p c b : p c = false -> take_while p (c :: b) = ([], c :: b).
Proof. intro H. cbn [take_while]. rewrite H. reflexivity. Qed.
Lemma strip_prefix_app p r : strip_prefix p (p ++ r) = Some r.
Proof. induction p as [|a p IH]; cbn [app strip_prefix]; [reflexivity|]. rewrite N.eqb_refl. exact IH. Qed.
Lemma forallb_app' {A} (p : A -> bool) a b : forallb p (a ++ b) = forallb p a && forallb p b.
Proof. induction a as [|x a IH]; cbn [app forallb]; [reflexivity|]. rewrite IH, andb_assoc. reflexivity. Qed.
Lemma forallb_rev {A} (p : A -> bool) a : forallb p (rev a) = forallb p a.
Proof.
  induction a as [|x a IH]; [reflexivity|]. cbn [rev forallb]. rewrite forallb_app', IH. cbn [forallb].
  rewrite andb_true_r, andb_comm. reflexivity.
Qed.

(** the finditer skip-counter lemma *)
Lemma scan_skip g p r : scan g (List.length p) (p ++ r) = scan g 0 r.
Proof. induction p as [|a p IH]; cbn [List.length app]; [reflexivity|]. cbn [scan]. exact IH. Qed.

(** ---------------------------------------------------------------- character classes *)
Lemma space_cases c : is_space c = true -> In c space_points.
Proof. unfold is_space. rewrite existsb_exists. intros (x & Hin & Heq). apply N.eqb_eq in Heq. subst. exact Hin. Qed.
Lemma space_not_lt c : is_space c = true -> not_lt c = true.
Proof. intro H. apply space_cases in H. cbn in H. repeat (destruct H as [<-|H]; [reflexivity|]). contradiction. Qed.
Lemma space_not_ofxch c : is_space c = true -> is_ofxch c = false.
Proof. intro H. apply space_cases in H. cbn in H. repeat (destruct H as [<-|H]; [reflexivity|]). contradiction. Qed.
Lemma ofxch_tagch c : is_ofxch c = true -> is_tagch c = true.
Proof. unfold is_ofxch, is_tagch. lia. Qed.
Lemma ofxch_neq c : is_ofxch c = true -> c <> 60 /\ c <> 62 /\ c <> 47 /\ c <> 33.
Proof. unfold is_ofxch. lia. Qed.
Lemma ofxch_not_space c : is_ofxch c = true -> is_space c = false.
Proof. intro H. destruct (is_space c) eqn:E; [|reflexivity]. apply space_not_ofxch in E. congruence. Qed.
Lemma blank_not_lt w : blank w = true -> forallb not_lt w = true.
Proof.
  unfold blank. induction w as [|c w IH]; cbn [forallb]; [reflexivity|]. intro H. apply andb_true_iff in H as [Hc Hw].
  rewrite (space_not_lt c Hc), (IH Hw). reflexivity.
Qed.
Lemma wf_tag_inv t : wf_tag t = true -> t <> [] /\ forallb is_ofxch t = true /\ forallb is_tagch t = true.
Proof.
  unfold wf_tag. intro H. apply andb_true_iff in H as [Hn Ho]. repeat split.
  - destruct t; [discriminate|congruence].
  - exact Ho.
  - clear Hn. induction t as [|c t IH]; [reflexivity|]. cbn [forallb] in *. apply andb_true_iff in Ho as [Hc Ho].
    rewrite (ofxch_tagch c Hc), (IH Ho). reflexivity.
Qed.
Lemma wf_tag_head t : wf_tag t = true -> exists c t', t = c :: t' /\ is_ofxch c = true.
Proof.
  intro H. apply wf_tag_inv in H as (Hn & Ho & _). destruct t as [|c t']; [congruence|].
  cbn [forallb] in Ho. apply andb_true_iff in Ho as [Hc _]. eauto.
Qed.

(** ---------------------------------------------------------------- str.strip *)
Lemma strip_blank w : blank w = true -> strip w = [].
Proof. intro H. unfold strip, lstrip. unfold blank in H. rewrite (take_while_all _ _ H). reflexivity. Qed.
Lemma stripped_inv x : stripped x = true ->
  exists c x', x = c :: x' /\ is_space c = false /\ is_space (last x 0) = false.
Proof.
  unfold stripped. destruct x as [|c x']; [discriminate|]. intro H. apply andb_true_iff in H as [H1 H2].
  apply negb_true_iff in H1, H2. eauto.
Qed.
Lemma rev_head_last (x : text) : x <> [] -> rev x = last x 0 :: rev (removelast x).
Proof.
  intro H. rewrite (app_removelast_last 0 H) at 1. rewrite rev_app_distr. reflexivity.
Qed.
Lemma lstrip_pad w s : blank w = true -> lstrip (w ++ s) = lstrip s.
Proof. intro H. unfold lstrip. rewrite (take_while_pass _ _ _ H). reflexivity. Qed.
Lemma lstrip_head c s : is_space c = false -> lstrip (c :: s) = c :: s.
Proof. intro H. unfold lstrip. rewrite (take_while_stop _ _ _ H). reflexivity. Qed.
Lemma strip_pad w1 x w2 : blank w1 = true -> blank w2 = true -> stripped x = true -> strip (w1 ++ x ++ w2) = x.
Proof.
  intros H1 H2 Hx. destruct (stripped_inv x Hx) as (c & x' & -> & Hc & Hl).
  unfold strip, rstrip. rewrite (lstrip_pad _ _ H1). cbn [app]. rewrite (lstrip_head _ _ Hc).
  change (c :: x' ++ w2)%list with ((c :: x') ++ w2)%list. rewrite rev_app_distr.
  rewrite lstrip_pad by (unfold blank; rewrite forallb_rev; exact H2).
  rewrite (rev_head_last (c :: x')) by discriminate. rewrite (lstrip_head _ _ Hl).
  rewrite <- (rev_head_last (c :: x')) by discriminate. apply rev_involutive.
Qed.
Lemma blank_app a b : blank a = true -> blank b = true -> blank (a ++ b) = true.
Proof. unfold blank. intros. rewrite forallb_app'. auto using andb_true_intro. Qed.

(** ---------------------------------------------------------------- the CDATA section body *)
Lemma cdc_no_straddle d x r : strip_prefix CDC (d :: x) = None -> strip_prefix CDC (d :: x ++ CDC ++ r) = None.
Proof.
  unfold CDC. cbn [strip_prefix]. destruct (93 =? d) eqn:E1; [|reflexivity].
  destruct x as [|e x]; cbn [app strip_prefix]; [reflexivity|].
  destruct (93 =? e) eqn:E2; [|reflexivity].
  destruct x as [|f x]; cbn [app strip_prefix]; [reflexivity|].
  destruct (62 =? f); [discriminate|reflexivity].
Qed.
Lemma has_close_cons d x : has_close (d :: x) = false -> strip_prefix CDC (d :: x) = None /\ has_close x = false.
Proof. cbn [has_close]. destruct (strip_prefix CDC (d :: x)); [discriminate|auto]. Qed.
Lemma split_first_close_app x r : has_close x = false -> split_first_close (x ++ CDC ++ r) = Some (x, r).
Proof.
  induction x as [|d x IH]; intro H.
  - cbn [app]. unfold CDC at 1. cbn [app split_first_close]. fold CDC.
    change (93 :: 93 :: 62 :: r) with (CDC ++ r)%list. rewrite strip_prefix_app. reflexivity.
  - apply has_close_cons in H as [H1 H2]. cbn [app split_first_close].
    change (d :: x ++ CDC ++ r)%list with (d :: x ++ CDC ++ r)%list.
    rewrite (cdc_no_straddle d x r H1), (IH H2). reflexivity.
Qed.
Lemma cdata_body_app x r : x <> [] -> has_close x = false -> cdata_body true (x ++ CDC ++ r) = Some (x, r).
Proof.
  intros Hn H. destruct x as [|c x]; [congruence|]. apply has_close_cons in H as [_ H].
  cbn [cdata_body app]. rewrite (split_first_close_app x r H). reflexivity.
Qed.

(** ---------------------------------------------------------------- what may follow a token *)
(** [rest] is empty or begins with '<' *)
Definition starts_lt (rest : text) : Prop := rest = [] \/ exists r, rest = LT :: r.
Lemma starts_lt_stop rest : starts_lt rest -> rest = [] \/ exists c b', rest = c :: b' /\ not_lt c = false.
Proof. intros [->|(r & ->)]; [left; reflexivity|right]. exists LT, r. split; reflexivity. Qed.
Lemma starts_lt_nospace rest : starts_lt rest -> rest = [] \/ exists c b', rest = c :: b' /\ is_space c = false.
Proof. intros [->|(r & ->)]; [left; reflexivity|right]. exists LT, r. split; reflexivity. Qed.
Lemma take_tail_nil rest : starts_lt rest -> take_while not_lt rest = ([], rest).
Proof. intros [->|(r & ->)]; reflexivity. Qed.
Lemma take_text w rest : forallb not_lt w = true -> starts_lt rest -> take_while not_lt (w ++ rest) = (w, rest).
Proof. intros Hw Hr. apply take_while_app; [exact Hw|apply starts_lt_stop; exact Hr]. Qed.
Lemma skip_blank w rest : blank w = true -> starts_lt rest -> take_while is_space (w ++ rest) = (w, rest).
Proof. intros Hw Hr. apply take_while_app; [exact Hw|apply starts_lt_nospace; exact Hr]. Qed.

(** the rest of the text after token [a]: nothing, or a well-formed token [b] that may follow [a] *)
Definition rest_after (a : tok) (rest : text) : Prop :=
  rest = [] \/ exists b rest', rest = (render_tok b ++ rest')%list /\ tok_shape b = true /\ adj a b = true.

Lemma tok_wf_shape b : tok_wf b = true -> tok_shape b = true.
Proof.
  destruct b as [t ws|t w1 w2|t cd w1 x w2 cl w3|t ws]; cbn [tok_wf tok_shape]; intro H; rewrite !andb_true_iff in *;
    try (destruct cl); intuition auto using blank_not_lt.
Qed.
Lemma tok_shape_tag b : tok_shape b = true -> wf_tag (match b with TOpen t _ | TEmpty t _ _ | TLeaf t _ _ _ _ _ _ | TClose t _ => t end) = true.
Proof. destruct b; cbn [tok_shape]; intro H; rewrite !andb_true_iff in H; tauto. Qed.
Lemma tok_wf_tag b : tok_wf b = true -> wf_tag (match b with TOpen t _ | TEmpty t _ _ | TLeaf t _ _ _ _ _ _ | TClose t _ => t end) = true.
Proof. intro H. apply tok_shape_tag, tok_wf_shape, H. Qed.

(** shape of the text of a token: "<" then a tag character, or "</" tag ">" for an end tag *)
Lemma render_tok_shape b rest' : tok_shape b = true ->
  (exists c r, (render_tok b ++ rest')%list = LT :: c :: r /\ is_ofxch c = true) \/
  (exists u ws, b = TClose u ws /\ wf_tag u = true).
Proof.
  intro H. pose proof (tok_shape_tag b H) as Ht. destruct b as [t ws|t w1 w2|t cd w1 x w2 cl w3|t ws].
  1-3: left; destruct (wf_tag_head _ Ht) as (c & t' & -> & Hc); cbn [render_tok app]; eauto.
  right. eauto.
Qed.

Lemma strip_prefix_tag_neq t u r : forallb is_ofxch t = true -> forallb is_ofxch u = true -> t <> u ->
  strip_prefix (t ++ [GT]) (u ++ GT :: r) = None.
Proof.
  revert u. induction t as [|a t IH]; intros u Ht Hu Hne.
  - destruct u as [|c u]; [congruence|]. cbn [app strip_prefix forallb] in *. apply andb_true_iff in Hu as [Hc _].
    apply ofxch_neq in Hc as (_ & Hc & _). destruct (GT =? c) eqn:E; [|reflexivity]. apply N.eqb_eq in E. unfold GT in E. congruence.
  - cbn [forallb] in Ht. apply andb_true_iff in Ht as [Ha Ht]. destruct u as [|c u].
    + cbn [app strip_prefix]. apply ofxch_neq in Ha as (_ & Ha & _).
      destruct (a =? GT) eqn:E; [|reflexivity]. apply N.eqb_eq in E. unfold GT in E. congruence.
    + cbn [forallb] in Hu. apply andb_true_iff in Hu as [Hc Hu]. cbn [app strip_prefix].
      destruct (a =? c) eqn:E; [|reflexivity]. apply N.eqb_eq in E. subst c. apply IH; [assumption|assumption|congruence].
Qed.

Record follow_facts (unclosed : option text) (rest : text) : Prop := {
  ff_lt : starts_lt rest;
  ff_cdo : strip_prefix CDO rest = None;
  ff_end : forall t, unclosed = Some t -> strip_prefix (endtag t) rest = None }.

Definition unclosed_tag (a : tok) : option text :=
  match a with
  | TOpen t _ => Some t
  | TLeaf t _ _ _ _ false _ => Some t
  | TClose t _ => Some (SL :: t)
  | _ => None
  end.

Lemma rest_after_facts a rest : tok_shape a = true -> rest_after a rest -> follow_facts (unclosed_tag a) rest.
Proof.
  intros Ha [->|(b & rest' & -> & Hb & Hadj)].
  - split; [left; reflexivity|reflexivity|]. intros t _. reflexivity.
  - destruct (render_tok_shape b rest' Hb) as [(c & r & E & Hc)|(u & ws & -> & Hu)].
    + rewrite E. pose proof (ofxch_neq c Hc) as (_ & _ & H47 & H33). split.
      * right. eauto.
      * unfold CDO, LT. cbn [strip_prefix]. destruct (33 =? c) eqn:E3; [apply N.eqb_eq in E3; congruence|reflexivity].
      * intros t _. unfold endtag, LT, SL. cbn [strip_prefix app]. rewrite N.eqb_refl.
        destruct (47 =? c) eqn:E4; [apply N.eqb_eq in E4; congruence|reflexivity].
    + assert (E : (render_tok (TClose u ws) ++ rest' = LT :: SL :: u ++ GT :: ws ++ rest')%list).
      { cbn [render_tok]. unfold endtag. cbn [app]. rewrite <- !app_assoc. reflexivity. }
      rewrite E. clear E. split.
      * right. eauto.
      * reflexivity.
      * intros t Et. unfold endtag, LT, SL. cbn [strip_prefix app]. rewrite !N.eqb_refl.
        destruct (wf_tag_inv u Hu) as (Hun & Huo & _).
        destruct a as [t0 ws0|t0 w1 w2|t0 cd w1 x w2 cl w3|t0 ws0]; cbn [unclosed_tag] in Et.
        -- inversion Et; subst t0. cbn [adj] in Hadj. apply negb_true_iff in Hadj.
           pose proof (tok_shape_tag _ Ha) as Ht. cbn in Ht. destruct (wf_tag_inv t Ht) as (_ & Hto & _).
           apply strip_prefix_tag_neq; [assumption|assumption|].
           intro E. subst. rewrite (proj2 (text_eqb_eq u u) eq_refl) in Hadj. discriminate.
        -- discriminate.
        -- destruct cl; [discriminate|]. inversion Et; subst t0. cbn [adj] in Hadj. apply negb_true_iff in Hadj.
           pose proof (tok_shape_tag _ Ha) as Ht. cbn in Ht. destruct (wf_tag_inv t Ht) as (_ & Hto & _).
           apply strip_prefix_tag_neq; [assumption|assumption|].
           intro E. subst. rewrite (proj2 (text_eqb_eq u u) eq_refl) in Hadj. discriminate.
        -- inversion Et; subst t. destruct (wf_tag_head u Hu) as (c & u' & -> & Hc).
           cbn [app strip_prefix]. apply ofxch_neq in Hc as (_ & _ & Hc & _).
           destruct (SL =? c) eqn:E; [apply N.eqb_eq in E; unfold SL in E; congruence|reflexivity].
Qed.

(** ---------------------------------------------------------------- one regex attempt, unfolded *)
Lemma match_at_tag g s tag r1 : s = (LT :: tag ++ GT :: r1)%list -> tag <> [] -> forallb is_tagch tag = true ->
  match_at g s =
    (let '(cd, tx, r2) := body g r1 in
     let (closed, r3) := match strip_prefix (LT :: SL :: tag ++ [GT])%list r2 with
                         | Some r' => (true, r') | None => (false, r2) end in
     let (tail, r4) := take_while not_lt r3 in
     Some ({| m_tag := tag; m_cdata := cd; m_text := tx; m_closed := closed; m_tail := tail |},
           (List.length s - List.length r4)%nat)).
Proof.
  intros -> Hne Htag. unfold match_at. change (LT =? LT) with true. cbv iota.
  rewrite (take_while_app is_tagch tag (GT :: r1)); [|assumption|right; eexists _, _; split; reflexivity].
  destruct tag as [|t0 tag']; [congruence|]. change (GT =? GT) with true. cbv iota. reflexivity.
Qed.

Lemma body_text txt rest : forallb not_lt txt = true -> starts_lt rest ->
  strip_prefix CDO (snd (take_while is_space (txt ++ rest))) = None ->
  body repaired (txt ++ rest) = ([], txt, rest).
Proof.
  intros Ht Hr Hc. unfold body. cbn [cdata_lazy repaired]. rewrite Hc. rewrite (take_text _ _ Ht Hr). reflexivity.
Qed.
Lemma body_blank ws rest : blank ws = true -> starts_lt rest -> strip_prefix CDO rest = None ->
  body repaired (ws ++ rest) = ([], ws, rest).
Proof.
  intros Hw Hr Hc. apply body_text; [apply blank_not_lt; exact Hw|exact Hr|].
  rewrite (skip_blank _ _ Hw Hr). exact Hc.
Qed.
Lemma strip_cdo_head c r : c <> LT -> strip_prefix CDO (c :: r) = None.
Proof. intro H. unfold CDO. cbn [strip_prefix]. destruct (60 =? c) eqn:E; [apply N.eqb_eq in E; unfold LT in H; congruence|reflexivity]. Qed.
Lemma wf_data_inv x : wf_data x = true ->
  stripped x = true /\ forallb not_lt x = true /\ exists c x', x = c :: x' /\ is_space c = false /\ c <> LT.
Proof.
  unfold wf_data. intro H. apply andb_true_iff in H as [Hs Hl]. split; [exact Hs|]. split; [exact Hl|].
  destruct (stripped_inv x Hs) as (c & x' & -> & Hc & _). exists c, x'. split; [reflexivity|]. split; [exact Hc|].
  cbn [forallb] in Hl. apply andb_true_iff in Hl as [Hl _]. unfold not_lt in Hl. apply negb_true_iff in Hl.
  intro E. subst c. rewrite N.eqb_refl in Hl. discriminate.
Qed.
Lemma body_data w1 x w rest : blank w1 = true -> wf_data x = true -> blank w = true -> starts_lt rest ->
  body repaired (w1 ++ x ++ w ++ rest) = ([], (w1 ++ x ++ w)%list, rest).
Proof.
  intros H1 Hx Hw Hr. destruct (wf_data_inv x Hx) as (_ & Hxl & c & x' & -> & Hc & Hne).
  replace (w1 ++ (c :: x') ++ w ++ rest)%list with ((w1 ++ (c :: x') ++ w) ++ rest)%list
    by (rewrite <- !app_assoc; reflexivity).
  apply body_text.
  - rewrite !forallb_app'. rewrite (blank_not_lt _ H1), Hxl, (blank_not_lt _ Hw). reflexivity.
  - exact Hr.
  - rewrite <- !app_assoc. rewrite (take_while_pass _ _ _ H1). cbn [snd app].
    rewrite (take_while_stop _ _ _ Hc). cbn [snd]. apply strip_cdo_head. exact Hne.
Qed.
Lemma body_cdata w1 x w rest : blank w1 = true -> x <> [] -> has_close x = false -> blank w = true -> starts_lt rest ->
  body repaired (w1 ++ CDO ++ x ++ CDC ++ w ++ rest) = (x, [], rest).
Proof.
  intros H1 Hn Hx Hw Hr. unfold body. cbn [cdata_lazy repaired].
  rewrite (take_while_app is_space w1 (CDO ++ _)); [|exact H1|right; eexists _, _; split; reflexivity]. cbn [snd].
  rewrite strip_prefix_app. rewrite (cdata_body_app x _ Hn Hx). rewrite (skip_blank _ _ Hw Hr). reflexivity.
Qed.

Lemma len_app_sub (a b : text) : (List.length (a ++ b) - List.length b)%nat = List.length a.
Proof. rewrite app_length. lia. Qed.

(** right-nested spelling of a token followed by [rest] *)
Ltac norm_app := cbn [render_tok]; unfold endtag; repeat first [rewrite <- app_assoc | progress cbn [app]]; reflexivity.
Lemma norm_open t ws rest : (render_tok (TOpen t ws) ++ rest = LT :: t ++ GT :: ws ++ rest)%list.
Proof. norm_app. Qed.
Lemma norm_close t ws rest : (render_tok (TClose t ws) ++ rest = LT :: (SL :: t) ++ GT :: ws ++ rest)%list.
Proof. norm_app. Qed.
Lemma norm_empty t w1 w2 rest :
  (render_tok (TEmpty t w1 w2) ++ rest = LT :: t ++ GT :: w1 ++ (LT :: SL :: t ++ [GT]) ++ w2 ++ rest)%list.
Proof. norm_app. Qed.
Lemma norm_leaf_pc t w1 x w2 w3 rest :
  (render_tok (TLeaf t false w1 x w2 true w3) ++ rest
   = LT :: t ++ GT :: w1 ++ x ++ w2 ++ (LT :: SL :: t ++ [GT]) ++ w3 ++ rest)%list.
Proof. norm_app. Qed.
Lemma norm_leaf_po t w1 x w2 w3 rest :
  (render_tok (TLeaf t false w1 x w2 false w3) ++ rest = LT :: t ++ GT :: w1 ++ x ++ (w2 ++ w3) ++ rest)%list.
Proof. norm_app. Qed.
Lemma norm_leaf_cc t w1 x w2 w3 rest :
  (render_tok (TLeaf t true w1 x w2 true w3) ++ rest
   = LT :: t ++ GT :: w1 ++ CDO ++ x ++ CDC ++ w2 ++ (LT :: SL :: t ++ [GT]) ++ w3 ++ rest)%list.
Proof. norm_app. Qed.
Lemma norm_leaf_co t w1 x w2 w3 rest :
  (render_tok (TLeaf t true w1 x w2 false w3) ++ rest = LT :: t ++ GT :: w1 ++ CDO ++ x ++ CDC ++ (w2 ++ w3) ++ rest)%list.
Proof. norm_app. Qed.

Lemma starts_lt_endtag t r : starts_lt ((LT :: SL :: t ++ [GT]) ++ r)%list.
Proof. right. cbn [app]. eauto. Qed.

(** ---------------------------------------------------------------- the match at every token shape *)
Lemma cdo_after_text j rest : forallb not_lt j = true -> starts_lt rest -> strip_prefix CDO rest = None ->
  strip_prefix CDO (snd (take_while is_space (j ++ rest))) = None.
Proof.
  intros Hj Hr Hc. induction j as [|c j IH]; cbn [app].
  - destruct Hr as [->|(r & ->)]; [reflexivity|]. rewrite take_while_stop by reflexivity. exact Hc.
  - cbn [forallb] in Hj. apply andb_true_iff in Hj as [Hcl Hj]. cbn [take_while]. destruct (is_space c) eqn:Es.
    + destruct (take_while is_space (j ++ rest)) as [a b] eqn:E. cbn [snd] in *. apply IH. exact Hj.
    + cbn [snd]. apply strip_cdo_head. unfold not_lt in Hcl. apply negb_true_iff in Hcl. intro E. subst c.
      rewrite N.eqb_refl in Hcl. discriminate.
Qed.
Lemma body_junk j rest : forallb not_lt j = true -> starts_lt rest -> strip_prefix CDO rest = None ->
  body repaired (j ++ rest) = ([], j, rest).
Proof. intros Hj Hr Hc. apply body_text; [exact Hj|exact Hr|apply cdo_after_text; assumption]. Qed.

Theorem match_at_tok a rest : tok_shape a = true -> follow_facts (unclosed_tag a) rest ->
  match_at repaired (render_tok a ++ rest) = Some (match_of a, List.length (render_tok a)).
Proof.
  intros Ha [Flt Fcdo Fend]. unfold endtag in Fend.
  pose proof (tok_shape_tag a Ha) as Htag.
  destruct a as [t ws|t w1 w2|t cd w1 x w2 cl w3|t ws]; cbn [tok_shape] in Ha; cbn beta iota in Htag;
    destruct (wf_tag_inv t Htag) as (Hne & Hofx & Htc).
  - (* <t> ws *)
    apply andb_true_iff in Ha as [_ Hws].
    rewrite (match_at_tag repaired _ t (ws ++ rest) (norm_open t ws rest) Hne Htc).
    rewrite (body_blank ws rest Hws Flt Fcdo). cbv beta iota zeta.
    rewrite (Fend t eq_refl). rewrite (take_tail_nil rest Flt). rewrite len_app_sub. reflexivity.
  - (* <t> w1 </t> w2 *)
    apply andb_true_iff in Ha as [Ha Hw2]. apply andb_true_iff in Ha as [_ Hw1].
    rewrite (match_at_tag repaired _ t _ (norm_empty t w1 w2 rest) Hne Htc).
    rewrite (body_blank w1 _ Hw1 (starts_lt_endtag t _)) by reflexivity. cbv beta iota zeta.
    rewrite strip_prefix_app. rewrite (take_text w2 rest Hw2 Flt). rewrite len_app_sub. reflexivity.
  - (* data element *)
    apply andb_true_iff in Ha as [Ha Hcd]. apply andb_true_iff in Ha as [Ha Hw3]. apply andb_true_iff in Ha as [Ha Hw2].
    apply andb_true_iff in Ha as [Ha Hw1]. apply andb_true_iff in Ha as [_ Hx].
    destruct cd, cl.
    + (* CDATA, end tag *)
      apply negb_true_iff in Hcd. destruct (wf_data_inv x Hx) as (_ & _ & c & x' & Ex & _ & _).
      rewrite (match_at_tag repaired _ t _ (norm_leaf_cc t w1 x w2 w3 rest) Hne Htc).
      rewrite (body_cdata w1 x w2 _ Hw1 ltac:(subst x; discriminate) Hcd Hw2 (starts_lt_endtag t _)). cbv beta iota zeta.
      rewrite strip_prefix_app. rewrite (take_text w3 rest Hw3 Flt). rewrite len_app_sub. reflexivity.
    + (* CDATA, no end tag *)
      apply negb_true_iff in Hcd. destruct (wf_data_inv x Hx) as (_ & _ & c & x' & Ex & _ & _).
      rewrite (match_at_tag repaired _ t _ (norm_leaf_co t w1 x w2 w3 rest) Hne Htc).
      rewrite (body_cdata w1 x (w2 ++ w3) rest Hw1 ltac:(subst x; discriminate) Hcd (blank_app _ _ Hw2 Hw3) Flt). cbv beta iota zeta.
      rewrite (Fend t eq_refl). rewrite (take_tail_nil rest Flt). rewrite len_app_sub. reflexivity.
    + (* plain, end tag *)
      rewrite (match_at_tag repaired _ t _ (norm_leaf_pc t w1 x w2 w3 rest) Hne Htc).
      rewrite (body_data w1 x w2 _ Hw1 Hx Hw2 (starts_lt_endtag t _)). cbv beta iota zeta.
      rewrite strip_prefix_app. rewrite (take_text w3 rest Hw3 Flt). rewrite len_app_sub. reflexivity.
    + (* plain, no end tag *)
      rewrite (match_at_tag repaired _ t _ (norm_leaf_po t w1 x w2 w3 rest) Hne Htc).
      rewrite (body_data w1 x (w2 ++ w3) rest Hw1 Hx (blank_app _ _ Hw2 Hw3) Flt). cbv beta iota zeta.
      rewrite (Fend t eq_refl). rewrite (take_tail_nil rest Flt). rewrite len_app_sub.
      reflexivity.
  - (* </t> j *)
    apply andb_true_iff in Ha as [_ Hws].
    assert (Htc' : forallb is_tagch (SL :: t) = true) by (cbn [forallb]; rewrite Htc; reflexivity).
    rewrite (match_at_tag repaired _ (SL :: t) (ws ++ rest) (norm_close t ws rest) ltac:(discriminate) Htc').
    rewrite (body_junk ws rest Hws Flt Fcdo). cbv beta iota zeta.
    rewrite (Fend (SL :: t) eq_refl). rewrite (take_tail_nil rest Flt). rewrite len_app_sub. reflexivity.
Qed.

(** ---------------------------------------------------------------- the scan of a token chain *)
Lemma render_tok_cons a : exists r, render_tok a = LT :: r.
Proof. destruct a; cbn [render_tok]; unfold endtag; cbn [app]; eauto. Qed.

Lemma scan_tok a rest : tok_shape a = true -> follow_facts (unclosed_tag a) rest ->
  scan repaired 0 (render_tok a ++ rest) = match_of a :: scan repaired 0 rest.
Proof.
  intros Ha Hr. pose proof (match_at_tok a rest Ha Hr) as Hm.
  destruct (render_tok_cons a) as (r & E). rewrite E in *. cbn [app] in *. cbn [scan]. rewrite Hm. f_equal.
  cbn [List.length]. replace (S (List.length r) - 1)%nat with (List.length r) by lia. apply scan_skip.
Qed.

(** what follows the LAST token of a chain *)
Definition chain_end (ts : list tok) (rest : text) : Prop :=
  forall pre l, ts = (pre ++ [l])%list -> follow_facts (unclosed_tag l) rest.

Theorem scan_render_toks_rest ts : forall rest, forallb tok_shape ts = true -> chain_ok ts = true -> chain_end ts rest ->
  scan repaired 0 (render_toks ts ++ rest) = (map match_of ts ++ scan repaired 0 rest)%list.
Proof.
  induction ts as [|a ts IH]; intros rest Hwf Hch Hend; [reflexivity|].
  cbn [forallb] in Hwf. apply andb_true_iff in Hwf as [Ha Hts].
  unfold render_toks. cbn [flat_map map]. fold (render_toks ts). rewrite <- app_assoc. rewrite scan_tok.
  - cbn [app]. f_equal. apply IH; [exact Hts| |].
    + destruct ts as [|b ts']; [reflexivity|]. cbn [chain_ok] in Hch. apply andb_true_iff in Hch as [_ Hch]. exact Hch.
    + intros pre l E. apply (Hend (a :: pre) l). rewrite E. reflexivity.
  - exact Ha.
  - destruct ts as [|b ts'].
    + cbn [render_toks flat_map app]. apply (Hend [] a). reflexivity.
    + apply rest_after_facts; [exact Ha|]. right.
      cbn [chain_ok] in Hch. apply andb_true_iff in Hch as [Hab _].
      cbn [forallb] in Hts. apply andb_true_iff in Hts as [Hb _].
      exists b, (render_toks ts' ++ rest)%list. split; [|split; assumption].
      unfold render_toks. cbn [flat_map]. rewrite <- app_assoc. reflexivity.
Qed.

Lemma follow_facts_nil u : follow_facts u [].
Proof. split; [left; reflexivity|reflexivity|]. intros t _. reflexivity. Qed.

Theorem scan_render_toks ts : forallb tok_shape ts = true -> chain_ok ts = true ->
  scan repaired 0 (render_toks ts) = map match_of ts.
Proof.
  intros Hwf Hch. pose proof (scan_render_toks_rest ts [] Hwf Hch) as H. rewrite !app_nil_r in H. apply H.
  intros pre l _. apply follow_facts_nil.
Qed.

Lemma forallb_wf_shape ts : forallb tok_wf ts = true -> forallb tok_shape ts = true.
Proof.
  induction ts as [|a ts IH]; [reflexivity|]. cbn [forallb]. intro H. apply andb_true_iff in H as [Ha Hts].
  rewrite (tok_wf_shape a Ha), (IH Hts). reflexivity.
Qed.

Lemma scan_leading_blank w s : blank w = true -> scan repaired 0 (w ++ s) = scan repaired 0 s.
Proof.
  intro H. induction w as [|c w IH]; [reflexivity|]. cbn [blank forallb] in H. apply andb_true_iff in H as [Hc Hw].
  cbn [app scan]. assert (E : match_at repaired (c :: w ++ s) = None).
  { unfold match_at. destruct (c =? LT) eqn:E; [|reflexivity]. apply N.eqb_eq in E. subst c. discriminate. }
  rewrite E. apply IH. exact Hw.
Qed.

(** ---------------------------------------------------------------- from matches to events *)
Lemma strip_nil : strip [] = [].
Proof. reflexivity. Qed.

Lemma event_of_tok a : tok_wf a = true -> event_of (match_of a) = OK (ev_of_tok a).
Proof.
  intro Ha. pose proof (tok_wf_tag a Ha) as Htag.
  destruct a as [t ws|t w1 w2|t cd w1 x w2 cl w3|t ws]; cbn [tok_wf] in Ha; cbn beta iota in Htag.
  - destruct (wf_tag_head t Htag) as (c0 & t' & -> & Hc0). pose proof (ofxch_neq c0 Hc0) as (_ & _ & H47 & _).
    apply andb_true_iff in Ha as [_ Hws]. unfold event_of. cbn [match_of m_tail m_cdata m_text m_tag m_closed].
    rewrite strip_nil, (strip_blank ws Hws). cbn [nonempty].
    destruct (c0 =? SL) eqn:E; [apply N.eqb_eq in E; unfold SL in E; congruence|reflexivity].
  - destruct (wf_tag_head t Htag) as (c0 & t' & -> & Hc0). pose proof (ofxch_neq c0 Hc0) as (_ & _ & H47 & _).
    apply andb_true_iff in Ha as [Ha Hw2]. apply andb_true_iff in Ha as [_ Hw1].
    unfold event_of. cbn [match_of m_tail m_cdata m_text m_tag m_closed].
    rewrite (strip_blank w2 Hw2), (strip_blank w1 Hw1). cbn [nonempty].
    destruct (c0 =? SL) eqn:E; [apply N.eqb_eq in E; unfold SL in E; congruence|reflexivity].
  - destruct (wf_tag_head t Htag) as (c0 & t' & -> & Hc0). pose proof (ofxch_neq c0 Hc0) as (_ & _ & H47 & _).
    apply andb_true_iff in Ha as [Ha Hcd]. apply andb_true_iff in Ha as [Ha Hw3]. apply andb_true_iff in Ha as [Ha Hw2].
    apply andb_true_iff in Ha as [Ha Hw1]. apply andb_true_iff in Ha as [_ Hx].
    destruct (wf_data_inv x Hx) as (Hsx & _ & c & x' & Ex & _ & _).
    assert (Hnx : nonempty x = true) by (subst x; reflexivity).
    assert (Hsl : (c0 =? SL) = false) by (destruct (c0 =? SL) eqn:E; [apply N.eqb_eq in E; unfold SL in E; congruence|reflexivity]).
    unfold event_of. destruct cd, cl; cbn [match_of m_tail m_cdata m_text m_tag m_closed ev_of_tok].
    + rewrite (strip_blank w3 Hw3), Hnx, Hsl. cbn [nonempty]. rewrite Hnx. reflexivity.
    + rewrite strip_nil, Hnx, Hsl. cbn [nonempty]. rewrite Hnx. reflexivity.
    + rewrite (strip_blank w3 Hw3), (strip_pad w1 x w2 Hw1 Hw2 Hsx), Hsl. cbn [nonempty]. rewrite Hnx. reflexivity.
    + rewrite strip_nil, (strip_pad w1 x (w2 ++ w3) Hw1 (blank_app _ _ Hw2 Hw3) Hsx), Hsl. cbn [nonempty]. rewrite Hnx. reflexivity.
  - apply andb_true_iff in Ha as [_ Hws]. unfold event_of. cbn [match_of m_tail m_cdata m_text m_tag m_closed].
    rewrite strip_nil, (strip_blank ws Hws). cbn [nonempty]. rewrite N.eqb_refl. reflexivity.
Qed.

Lemma events_of_toks ts : forallb tok_wf ts = true -> events_of (map match_of ts) = OK (map ev_of_tok ts).
Proof.
  induction ts as [|a ts IH]; intro H; [reflexivity|]. cbn [forallb] in H. apply andb_true_iff in H as [Ha Hts].
  cbn [map events_of]. rewrite (event_of_tok a Ha). cbn [bind]. rewrite (IH Hts). reflexivity.
Qed.

(** feed = events then run, whenever every match passes the checks of feed() *)
Lemma feed_events g ms : forall b es, events_of ms = OK es -> feed g ms b = run g b es.
Proof.
  induction ms as [|m ms IH]; intros b es H; cbn [events_of] in H.
  - inversion H; subst. reflexivity.
  - destruct (event_of m) as [e|k] eqn:Ee; cbn [bind] in H; [|discriminate].
    destruct (events_of ms) as [es'|k] eqn:Ees; cbn [bind] in H; [|discriminate].
    inversion H; subst. cbn [feed run]. rewrite Ee. cbn [bind].
    destruct (step g b e) as [b1|k]; cbn [bind]; [apply IH; reflexivity|reflexivity].
Qed.
Lemma feed_ok_events g ms : forall b b', feed g ms b = OK b' ->
  exists es, events_of ms = OK es /\ run g b es = OK b'.
Proof.
  induction ms as [|m ms IH]; intros b b' H; cbn [feed] in H.
  - inversion H; subst. exists []. split; reflexivity.
  - destruct (event_of m) as [e|k] eqn:Ee; cbn [bind] in H; [|discriminate].
    destruct (step g b e) as [b1|k] eqn:Es; cbn [bind] in H; [|discriminate].
    destruct (IH b1 b' H) as (es & Hes & Hrun). exists (e :: es). cbn [events_of run]. rewrite Ee, Hes, Es. cbn [bind].
    split; [reflexivity|exact Hrun].
Qed.
