(** Values in the stated domain survive arg2config -> file -> typed getter (Model/OfxgetCfg.v, C18):
    strings (one line, no surrounding blanks), integers, booleans, lists of account ids without , ' \ . *)
From OfxV Require Import Base.Prelude Base.Digits Base.OfxgetBase Gen.OfxgetGen Model.OfxgetCfg.
From OfxV Require Import Proofs.OfxgetCfgMerge Proofs.OfxgetCfgParse Proofs.OfxgetCfgRoundtrip.
From Coq Require Import Lia.
Local Open Scope N_scope.

(* ------------------------------------------------------------------ strip on text without blanks at the ends *)
Lemma strip_clean v : clean_value v = true -> strip v = v.
Proof.
  unfold clean_value. intro H. repeat match goal with X : _ && _ = true |- _ => apply andb_true_iff in X; destruct X end.
  unfold strip. rewrite lstrip_vhead by assumption. apply text_eqb_eq. assumption.
Qed.

Definition nonspace (s : text) : bool := forallb (fun c => negb (is_space c)) s.
Lemma rstrip_nonspace s : nonspace s = true -> rstrip s = s.
Proof.
  unfold nonspace. induction s as [|c s IH]; [reflexivity|]. cbn [forallb rstrip]. intro H. apply andb_true_iff in H. destruct H as [H1 H2].
  rewrite IH by exact H2. apply negb_true_iff in H1. rewrite H1. destruct s; reflexivity.
Qed.
Lemma vhead_nonspace s : nonspace s = true -> vhead_ok s = true.
Proof. destruct s as [|c s]; [reflexivity|]. unfold nonspace. cbn [forallb vhead_ok]. intro H. apply andb_true_iff in H. apply H. Qed.

(* ------------------------------------------------------------------ integers *)
Definition int_char (c : N) : bool := is_digit c || (c =? 45).
Definition int_chars_facts : bool :=
  forallb (fun c => negb (is_space c) && negb ((c =? 10) || (c =? 13))) [45; 48; 49; 50; 51; 52; 53; 54; 55; 56; 57].
Lemma int_chars_facts_true : int_chars_facts = true.
Proof. vm_compute. reflexivity. Qed.

Lemma int_char_cases c : int_char c = true -> In c [45; 48; 49; 50; 51; 52; 53; 54; 55; 56; 57].
Proof.
  unfold int_char, is_digit. intro H. apply orb_true_iff in H. destruct H as [H|H].
  - apply andb_true_iff in H. destruct H as [H1 H2]. apply N.leb_le in H1, H2.
    assert (E : c = 48 \/ c = 49 \/ c = 50 \/ c = 51 \/ c = 52 \/ c = 53 \/ c = 54 \/ c = 55 \/ c = 56 \/ c = 57) by lia.
    cbn [In]. intuition.
  - apply N.eqb_eq in H. cbn [In]. auto.
Qed.

Lemma int_char_ok c : int_char c = true -> is_space c = false /\ ((c =? 10) || (c =? 13)) = false.
Proof.
  intro H. apply int_char_cases in H. pose proof int_chars_facts_true as F. unfold int_chars_facts in F.
  rewrite forallb_forall in F. specialize (F _ H). apply andb_true_iff in F. destruct F as [F1 F2].
  apply negb_true_iff in F1, F2. auto.
Qed.

Lemma int_text_clean t : forallb int_char t = true -> clean_value t = true.
Proof.
  intro H. assert (Hn : nonspace t = true /\ no_nl t = true).
  { unfold nonspace, no_nl. induction t as [|c t IH]; [auto|]. cbn [forallb] in *. apply andb_true_iff in H. destruct H as [H1 H2].
    destruct (int_char_ok _ H1) as [E1 E2]. destruct (IH H2) as [I1 I2]. rewrite E1, E2, I1, I2. auto. }
  destruct Hn as [H1 H2]. unfold clean_value. rewrite (vhead_nonspace _ H1), H2, (rstrip_nonspace _ H1), text_eqb_refl. reflexivity.
Qed.

Lemma digits_int_chars t : forallb is_digit t = true -> forallb int_char t = true.
Proof.
  induction t as [|c t IH]; [reflexivity|]. cbn [forallb]. intro H. apply andb_true_iff in H. destruct H as [H1 H2].
  rewrite IH by exact H2. unfold int_char. rewrite H1. reflexivity.
Qed.

Lemma str_of_Z_chars z : forallb int_char (str_of_Z z) = true.
Proof.
  destruct z as [|p|p]; cbn [str_of_Z]; [reflexivity | |].
  - apply digits_int_chars, dec_of_N_all_digits.
  - cbn [forallb]. rewrite (digits_int_chars _ (dec_of_N_all_digits _)). reflexivity.
Qed.

Lemma strip_underscores_digits : forall ds prev,
  forallb is_digit ds = true -> (ds <> [] \/ prev = true) -> strip_underscores prev ds = Some ds.
Proof.
  induction ds as [|c ds IH]; intros prev Hd Hp.
  - destruct Hp as [Hp|Hp]; [contradiction|]. subst. reflexivity.
  - cbn [forallb] in Hd. apply andb_true_iff in Hd. destruct Hd as [H1 H2]. cbn [strip_underscores].
    assert (E : (c =? 95) = false).
    { unfold is_digit in H1. apply andb_true_iff in H1. destruct H1 as [_ H1]. apply N.leb_le in H1. apply N.eqb_neq. lia. }
    rewrite E, H1, IH; auto.
Qed.

Lemma dec_nonempty n : dec_of_N n <> [].
Proof. intro H. pose proof (N_of_dec_of_N n) as E. rewrite H in E. discriminate. Qed.

Lemma dec_head_digit n : match dec_of_N n with c :: _ => is_digit c = true | [] => False end.
Proof.
  pose proof (dec_of_N_all_digits n) as H. pose proof (dec_nonempty n) as Hn. destruct (dec_of_N n) as [|c r]; [contradiction|].
  cbn [forallb] in H. apply andb_true_iff in H. apply H.
Qed.

(** the 4300-digit limit of int(str) / str(int) *)
Definition int_ok (z : Z) : bool := N.of_nat (List.length (dec_of_N (Z.abs_N z))) <=? 4300.

Lemma strip_int_text t : forallb int_char t = true -> strip t = t.
Proof. intro H. apply strip_clean, int_text_clean. exact H. Qed.

Lemma py_int_str_of_Z z : int_ok z = true -> py_int (str_of_Z z) = OK z.
Proof.
  unfold int_ok. intro Hlen. unfold py_int. rewrite (strip_int_text _ (str_of_Z_chars z)).
  destruct z as [|p|p]; cbn [str_of_Z Z.abs_N Z.abs N.of_nat] in *.
  - reflexivity.
  - pose proof (dec_head_digit (Npos p)) as Hh. destruct (dec_of_N (Npos p)) as [|c r] eqn:E; [contradiction|].
    assert (Hc : (c =? 45) = false /\ (c =? 43) = false).
    { unfold is_digit in Hh. apply andb_true_iff in Hh. destruct Hh as [H1 H2]. apply N.leb_le in H1, H2. split; apply N.eqb_neq; lia. }
    destruct Hc as [H45 H43].
    assert (Em : forall (X : Type) (a b d : X), match c with 45 => b | 43 => a | _ => d end = d).
    { intros X a b d. destruct c as [|q]; [reflexivity|]. apply N.eqb_neq in H45, H43.
      repeat (destruct q as [q|q|]; try reflexivity); contradiction. }
    rewrite Em.
    rewrite <- E in *. rewrite strip_underscores_digits by (auto using dec_of_N_all_digits, dec_nonempty).
    replace (4300 <? N.of_nat (List.length (dec_of_N (N.pos p)))) with false by (symmetry; apply N.ltb_ge; apply N.leb_le; exact Hlen).
    rewrite N_of_dec_of_N. reflexivity.
  - rewrite strip_underscores_digits by (auto using dec_of_N_all_digits, dec_nonempty).
    replace (4300 <? N.of_nat (List.length (dec_of_N (N.pos p)))) with false by (symmetry; apply N.ltb_ge; apply N.leb_le; exact Hlen).
    rewrite N_of_dec_of_N. reflexivity.
Qed.

(* ------------------------------------------------------------------ booleans *)
Lemma bool_words : py_bool (T "true") = OK true /\ py_bool (T "false") = OK false
                   /\ clean_value (T "true") = true /\ clean_value (T "false") = true.
Proof. vm_compute. repeat split; reflexivity. Qed.

(* ------------------------------------------------------------------ account lists *)
Definition safe_char (c : N) : bool :=
  negb (c =? 39) && negb (c =? 92) && negb (c =? 44) && negb (c =? 10) && negb (c =? 13) && negb (c =? 9)
  && negb (nonprintable_low c).
(** an account id that needs no quoting: non-empty, printable, without , ' \ , no blank at either end *)
Definition safe_id (s : text) : bool :=
  negb (is_nil s) && forallb safe_char s && vhead_ok s && text_eqb (rstrip s) s.

Lemma safe_char_parts c : safe_char c = true ->
  (c =? 39) = false /\ (c =? 92) = false /\ (c =? 44) = false /\ (c =? 10) = false /\ (c =? 13) = false /\ (c =? 9) = false
  /\ nonprintable_low c = false.
Proof.
  unfold safe_char. intro H. repeat match goal with X : _ && _ = true |- _ => apply andb_true_iff in X; destruct X end.
  repeat match goal with X : negb _ = true |- _ => apply negb_true_iff in X end. repeat split; assumption.
Qed.

Lemma repr_char_safe c : safe_char c = true -> repr_char 39 c = [c].
Proof.
  intro H. destruct (safe_char_parts _ H) as (H39 & H92 & _ & H10 & H13 & H9 & Hnp). unfold repr_char.
  rewrite H39, H92, H9, H10, H13, Hnp. reflexivity.
Qed.

Lemma concat_map_single {A} (f : A -> list A) l : (forall x, In x l -> f x = [x]) -> List.concat (map f l) = l.
Proof. induction l as [|x l IH]; intro H; [reflexivity|]. cbn [map List.concat]. rewrite H by (left; reflexivity). cbn [app]. rewrite IH; [reflexivity|]. intros y Hy. apply H. right. exact Hy. Qed.

Lemma existsb_false {A} (p : A -> bool) l : (forall x, In x l -> p x = false) -> existsb p l = false.
Proof. induction l as [|x l IH]; intro H; [reflexivity|]. cbn [existsb]. rewrite H by (left; reflexivity). apply IH. intros y Hy. apply H. right. exact Hy. Qed.

Lemma repr_safe s : forallb safe_char s = true -> repr_str s = [39] ++ s ++ [39].
Proof.
  intro H. rewrite forallb_forall in H. unfold repr_str.
  rewrite (existsb_false (N.eqb 39) s).
  2:{ intros c Hc. destruct (safe_char_parts _ (H _ Hc)) as (H39 & _). rewrite N.eqb_sym. exact H39. }
  cbn [andb]. cbv zeta iota. do 2 f_equal. apply concat_map_single. intros c Hc. apply repr_char_safe. apply H. exact Hc.
Qed.

Lemma join_cons2 sep (x y : text) l : join sep (x :: y :: l) = x ++ sep ++ join sep (y :: l).
Proof. reflexivity. Qed.

Lemma filter_id {A} (p : A -> bool) l : forallb p l = true -> filter p l = l.
Proof. induction l as [|x l IH]; [reflexivity|]. cbn [forallb filter]. intro H. apply andb_true_iff in H. destruct H as [H1 H2]. rewrite H1, IH by exact H2. reflexivity. Qed.

Lemma safe_no39 s : forallb safe_char s = true -> forallb (fun c => negb (c =? 39)) s = true.
Proof.
  induction s as [|c s IH]; [reflexivity|]. cbn [forallb]. intro H. apply andb_true_iff in H. destruct H as [H1 H2].
  destruct (safe_char_parts _ H1) as (H39 & _). rewrite H39, IH by exact H2. reflexivity.
Qed.

(** ', '.join of the quoted ids, with the quotes dropped again *)
Lemma filter_join_repr : forall l : list text, forallb (forallb safe_char) l = true ->
  filter (fun c => negb (c =? 39)) (join [44; 32] (map repr_str l)) = join [44; 32] l.
Proof.
  induction l as [|x l IH]; intro H; [reflexivity|]. cbn [forallb] in H. apply andb_true_iff in H. destruct H as [H1 H2].
  assert (Hx : filter (fun c => negb (c =? 39)) (repr_str x) = x).
  { rewrite (repr_safe _ H1). rewrite !filter_app. cbn [filter N.eqb Pos.eqb negb app]. rewrite app_nil_r. apply filter_id, safe_no39, H1. }
  destruct l as [|y l]; [exact Hx|].
  cbn [map] in *. rewrite !join_cons2, !filter_app, Hx, (IH H2). reflexivity.
Qed.

Lemma join_repr_edges (x : text) (l : list text) : forallb (forallb safe_char) (x :: l) = true ->
  exists m, join [44; 32] (map repr_str (x :: l)) = 39 :: m ++ [39].
Proof.
  revert x. induction l as [|y l IH]; intros x H; cbn [forallb] in H; apply andb_true_iff in H; destruct H as [H1 H2].
  - cbn [map join]. rewrite (repr_safe _ H1). exists x. reflexivity.
  - destruct (IH y H2) as (m & Em). cbn [map] in *. rewrite join_cons2, Em, (repr_safe _ H1).
    exists (x ++ [39] ++ [44; 32] ++ 39 :: m). cbn [app]. rewrite <- !app_assoc. reflexivity.
Qed.

Lemma rstrip_b_snoc s c : is_bracket c = true -> rstrip_b (s ++ [c]) = rstrip_b s.
Proof. intro H. induction s as [|x s IH]; cbn [app rstrip_b]; [rewrite H; reflexivity | rewrite IH; reflexivity]. Qed.
Lemma rstrip_b_nonbracket s c : is_bracket c = false -> rstrip_b (s ++ [c]) = s ++ [c].
Proof.
  intro H. induction s as [|x s IH]; cbn [app rstrip_b]; [rewrite H; reflexivity|].
  rewrite IH. destruct (s ++ [c]) eqn:E; [destruct s; discriminate | reflexivity].
Qed.

Lemma write_list_safe (x : text) (l : list text) : forallb (forallb safe_char) (x :: l) = true -> write_list (x :: l) = join [44; 32] (x :: l).
Proof.
  intro H. unfold write_list. destruct (join_repr_edges x l H) as (m & Em). rewrite Em.
  change ([91] ++ (39 :: m ++ [39]) ++ [93]) with (91 :: 39 :: (m ++ [39]) ++ [93]). cbn [lstrip_b is_bracket N.eqb Pos.eqb orb].
  change (39 :: (m ++ [39]) ++ [93]) with ((39 :: m ++ [39]) ++ [93]). rewrite rstrip_b_snoc by reflexivity.
  change (39 :: m ++ [39]) with ((39 :: m) ++ [39]). rewrite rstrip_b_nonbracket by reflexivity.
  change ((39 :: m) ++ [39]) with (39 :: m ++ [39]). rewrite <- Em. apply filter_join_repr. exact H.
Qed.

Lemma split_aux_no44 s : forallb (fun c => negb (c =? 44)) s = true -> split_aux 44 s = (s, []).
Proof.
  induction s as [|c s IH]; [reflexivity|]. cbn [forallb split_aux]. intro H. apply andb_true_iff in H. destruct H as [H1 H2].
  rewrite IH by exact H2. apply negb_true_iff in H1. rewrite H1. reflexivity.
Qed.
Lemma split_aux_44 a rest : forallb (fun c => negb (c =? 44)) a = true ->
  split_aux 44 (a ++ 44 :: rest) = (a, let (p, ps) := split_aux 44 rest in p :: ps).
Proof.
  induction a as [|c a IH]; intro H.
  - cbn [app split_aux N.eqb Pos.eqb]. destruct (split_aux 44 rest). reflexivity.
  - cbn [forallb] in H. apply andb_true_iff in H. destruct H as [H1 H2]. cbn [app split_aux]. rewrite (IH H2).
    apply negb_true_iff in H1. rewrite H1. reflexivity.
Qed.

Lemma safe_no44 s : forallb safe_char s = true -> forallb (fun c => negb (c =? 44)) s = true.
Proof.
  induction s as [|c s IH]; [reflexivity|]. cbn [forallb]. intro H. apply andb_true_iff in H. destruct H as [H1 H2].
  destruct (safe_char_parts _ H1) as (_ & _ & H44 & _). rewrite H44, IH by exact H2. reflexivity.
Qed.

Lemma split_join : forall (l : list text) (x : text), forallb (forallb safe_char) (x :: l) = true ->
  split_on 44 (join [44; 32] (x :: l)) = x :: map (cons 32) l.
Proof.
  unfold split_on. induction l as [|y l IH]; intros x H; cbn [forallb] in H; apply andb_true_iff in H; destruct H as [H1 H2].
  - cbn [join map]. rewrite (split_aux_no44 _ (safe_no44 _ H1)). reflexivity.
  - change (join [44; 32] (x :: y :: l)) with (x ++ 44 :: 32 :: join [44; 32] (y :: l)).
    rewrite (split_aux_44 _ _ (safe_no44 _ H1)). specialize (IH y H2).
    cbn [split_aux]. change (32 =? 44) with false. cbv iota.
    destruct (split_aux 44 (join [44; 32] (y :: l))) as [p ps]. injection IH as -> ->. reflexivity.
Qed.

Lemma safe_id_parts s : safe_id s = true -> s <> [] /\ forallb safe_char s = true /\ vhead_ok s = true /\ rstrip s = s.
Proof.
  unfold safe_id. intro H. repeat match goal with X : _ && _ = true |- _ => apply andb_true_iff in X; destruct X end.
  repeat split; auto.
  - destruct s; [discriminate | discriminate].
  - apply text_eqb_eq. assumption.
Qed.

Lemma strip_safe s : safe_id s = true -> strip s = s /\ strip (32 :: s) = s.
Proof.
  intro H. destruct (safe_id_parts _ H) as (_ & _ & Hv & Hr). unfold strip.
  rewrite (lstrip_cons_space _ _ sp32), (lstrip_vhead _ Hv). auto.
Qed.

Lemma safe_ids_chars (l : list text) : forallb safe_id l = true -> forallb (forallb safe_char) l = true.
Proof.
  induction l as [|x l IH]; [reflexivity|]. cbn [forallb]. intro H. apply andb_true_iff in H. destruct H as [H1 H2].
  destruct (safe_id_parts _ H1) as (_ & Hc & _). rewrite Hc, IH by exact H2. reflexivity.
Qed.

Lemma map_strip32 (l : list text) : forallb safe_id l = true -> map (fun y => strip (32 :: y)) l = l.
Proof.
  induction l as [|y l IH]; [reflexivity|]. cbn [forallb map]. intro H. apply andb_true_iff in H. destruct H as [Hy Hl].
  rewrite (proj2 (strip_safe _ Hy)), IH by exact Hl. reflexivity.
Qed.

(** account lists of any length come back *)
Lemma convert_write_list (l : list text) : l <> [] -> forallb safe_id l = true -> convert_list (write_list l) = l.
Proof.
  intros Hn H. destruct l as [|x l]; [contradiction|]. pose proof (safe_ids_chars _ H) as Hc.
  unfold convert_list. rewrite (write_list_safe _ _ Hc), (split_join _ _ Hc).
  cbn [forallb] in H. apply andb_true_iff in H. destruct H as [H1 H2]. cbn [map].
  rewrite (proj1 (strip_safe _ H1)). f_equal. rewrite map_map. apply map_strip32. exact H2.
Qed.

Lemma safe_char_no_nl c : safe_char c = true -> negb ((c =? 10) || (c =? 13)) = true.
Proof. intro H. destruct (safe_char_parts _ H) as (_ & _ & _ & H10 & H13 & _). rewrite H10, H13. reflexivity. Qed.

Lemma safe_no_nl s : forallb safe_char s = true -> no_nl s = true.
Proof.
  unfold no_nl. induction s as [|c s IH]; cbn [forallb]; [reflexivity|]. intro H. apply andb_true_iff in H. destruct H as [H1 H2].
  rewrite (safe_char_no_nl _ H1), IH by exact H2. reflexivity.
Qed.
Lemma clean_value_intro v : vhead_ok v = true -> no_nl v = true -> rstrip v = v -> clean_value v = true.
Proof. intros H1 H2 H3. unfold clean_value. rewrite H1, H2, H3, text_eqb_refl. reflexivity. Qed.
Lemma clean_value_elim v : clean_value v = true -> vhead_ok v = true /\ no_nl v = true /\ rstrip v = v.
Proof.
  unfold clean_value. intro H. repeat match goal with X : _ && _ = true |- _ => apply andb_true_iff in X; destruct X end.
  repeat split; auto. apply text_eqb_eq. assumption.
Qed.

Lemma join_nonempty (y : text) (l : list text) : y <> [] -> join [44; 32] (y :: l) <> [].
Proof. intro H. destruct l; cbn [join]; [exact H|]. destruct y; [contradiction | discriminate]. Qed.

Lemma join_clean : forall (l : list text) (x : text), forallb safe_id (x :: l) = true -> clean_value (join [44; 32] (x :: l)) = true.
Proof.
  induction l as [|y l IH]; intros x H; cbn [forallb] in H; apply andb_true_iff in H; destruct H as [H1 H2].
  - cbn [join]. destruct (safe_id_parts _ H1) as (_ & Hc & Hv & Hr). apply clean_value_intro; auto using safe_no_nl.
  - destruct (clean_value_elim _ (IH y H2)) as (Jv & Jn & Jr). rewrite join_cons2.
    destruct (safe_id_parts _ H1) as (Hne & Hc & Hv & Hr).
    assert (Hy : y <> []).
    { cbn [forallb] in H2. apply andb_true_iff in H2. destruct H2 as [H2 _]. apply (safe_id_parts _ H2). }
    apply clean_value_intro.
    + destruct x; [contradiction | exact Hv].
    + rewrite !no_nl_app, (safe_no_nl _ Hc), Jn. reflexivity.
    + rewrite app_assoc. apply rstrip_app_r; [exact Jr | apply join_nonempty; exact Hy].
Qed.

(* ------------------------------------------------------------------ the stated domain, per option type *)
Definition clean_val (ty : oty) (v : pyval) : bool :=
  match ty, v with
  | TStr, PStr s => clean_value s
  | TInt, PInt z => int_ok z
  | TBool, PBool _ => true
  | TList, PList l => negb (is_nil l) && forallb safe_id l
  | _, _ => false
  end.

(** what arg2config writes for a value of the domain is a clean file value that the typed getter reads back *)
Lemma arg2config_roundtrip ty v :
  clean_val ty v = true -> exists txt, arg2config ty v = OK txt /\ clean_value txt = true /\ typed ty txt = OK v.
Proof.
  destruct ty, v; cbn [clean_val]; try discriminate; intro H.
  - exists s. repeat split; auto.
  - exists (str_of_Z z). repeat split.
    + apply int_text_clean, str_of_Z_chars.
    + cbn [typed]. rewrite (py_int_str_of_Z _ H). reflexivity.
  - destruct bool_words as (B1 & B2 & B3 & B4). destruct b.
    + exists (T "true"). repeat split; auto; cbn [typed]; rewrite B1; reflexivity.
    + exists (T "false"). repeat split; auto; cbn [typed]; rewrite B2; reflexivity.
  - apply andb_true_iff in H. destruct H as [Hn Hs]. destruct l as [|x l]; [discriminate|].
    exists (write_list (x :: l)). repeat split.
    + rewrite (write_list_safe _ _ (safe_ids_chars _ Hs)). apply join_clean. exact Hs.
    + cbn [typed]. rewrite convert_write_list; [reflexivity | discriminate | exact Hs].
Qed.
