(** DateTimeM, part 2 (reading): every rendering of a valid field tuple in the OFX notations converts to the UTC
    value of the denoted instant ([dt_convert_denotes_l], [tm_convert_denotes_l]); the listed corruptions are
    rejected; naive values are refused.
    The tables are Section variables: [zeros] must contain the ASCII digits ([ascii_zeros], checked by
    evaluation on the generated table in Props/C09). *)
From OfxV Require Import Base.Prelude Base.Digits Model.Calendar Model.DateTimeM Model.DateTimeMCases Proofs.CalendarProofs Proofs.DateTimeMDigits.
From Coq Require Import ZifyBool ZifyN ZifyNat.
Local Open Scope N_scope.
Ltac Zify.zify_post_hook ::= Z.to_euclidean_division_equations.

(** ---- notation, as data ---- *)
Inductive osign := SPlus | SMinus | SNone.
Definition sign_text (sg : osign) : text := match sg with SPlus => [43] | SMinus => [45] | SNone => [] end.
(** offset: sign (or none), hours, optional .MM, optional :name *)
Record offspec := mkoff { o_sign : osign; o_hh : N; o_mm : option N; o_name : option text }.
Definition mm_text (mm : option N) : text := match mm with Some m => 46 :: d2 m | None => [] end.
Definition name_text (nm : option text) : text := match nm with Some n => 58 :: n | None => [] end.
Definition hours_text (o : offspec) : text := (sign_text (o_sign o) ++ dec_of_N (o_hh o))%list.
Definition bracket_inner (o : offspec) : text := (hours_text o ++ mm_text (o_mm o) ++ name_text (o_name o))%list.
Definition bracket_text (o : offspec) : text := (91 :: bracket_inner o ++ [93])%list.
Definition o_mmv (o : offspec) : N := match o_mm o with Some m => m | None => 0 end.
(** seconds east of GMT the offset text denotes: the sign is the one written *)
Definition off_seconds (o : offspec) : Z :=
  let tot := (Z.of_N (o_hh o) * 3600 + Z.of_N (o_mmv o) * 60)%Z in
  match o_sign o with SMinus => (- tot)%Z | _ => tot end.
Definition hms_text (h mi s : N) : text := (d2 h ++ d2 mi ++ d2 s)%list.
Definition ms_text (ms : option N) : text := match ms with Some m => 46 :: d3 m | None => [] end.
Definition br_text (br : option offspec) : text := match br with Some o => bracket_text o | None => [] end.
(** the time part: HHMMSS, HHMMSS.XXX, HHMMSS.XXX[offset], HHMMSS[offset] *)
Definition time_spec := (N * N * N * option N * option offspec)%type.
Definition time_render (t : time_spec) : text :=
  let '(h, mi, s, ms, br) := t in (hms_text h mi s ++ ms_text ms ++ br_text br)%list.
(** YYYYMMDD alone, or followed by one of the four time notations *)
Definition render_dt (y mo d : N) (t : option time_spec) : text :=
  (d4 y ++ d2 mo ++ d2 d ++ match t with Some t => time_render t | None => [] end)%list.
Definition msv (ms : option N) : N := match ms with Some m => m | None => 0 end.
Definition brv (br : option offspec) : Z := match br with Some o => off_seconds o | None => 0%Z end.
(** microseconds after local midnight minus the offset *)
Definition time_denoted (t : time_spec) : Z :=
  let '(h, mi, s, ms, br) := t in
  (Z.of_N h * 3600000000 + Z.of_N mi * 60000000 + Z.of_N s * 1000000 + Z.of_N (msv ms) * 1000 - brv br * 1000000)%Z.
(** the instant (microseconds since 0001-01-01T00:00 UTC), by days-from-civil arithmetic *)
Definition dt_denoted (y mo d : N) (t : option time_spec) : Z :=
  ((civil_ord (Z.of_N y) (Z.of_N mo) (Z.of_N d) - 1) * US_DAY
   + match t with Some t => time_denoted t | None => 0 end)%Z.

Lemma us_of_fields_tod f : us_of_fields f = ((ymd2ord (f_y f) (f_mo f) (f_d f) - 1) * US_DAY + tod_us f)%Z.
Proof. unfold us_of_fields, tod_us, US_DAY. lia. Qed.
Lemma tod_range f : valid_fields f = true -> (0 <= tod_us f < US_DAY)%Z.
Proof. intro V. apply valid_fields_iff in V. unfold tod_us, US_DAY. lia. Qed.

Section Tables.
Variable zeros : list N.
Variable tzs : list (text * Z).
Definition ascii_zeros : bool :=
  forallb (fun c => match nd_val zeros c with Some v => v =? c - 48 | None => false end) [48;49;50;51;52;53;54;55;56;57].
Hypothesis Hz : ascii_zeros = true.

(** a zone name that the recogniser would take for the minutes: two decimal digits, then the end or a colon *)
Definition minutes_like (name : text) : bool :=
  match try_minutes zeros (58 :: name) with Some _ => true | None => false end.
(** what an offset must satisfy to be in the notation: minutes below 60, -12:00 .. +14:00, a newline-free name
    that cannot be mistaken for minutes when no minutes are written *)
Definition off_ok (o : offspec) : Prop :=
  (forall m, o_mm o = Some m -> m < 60)
  /\ (match o_sign o with SMinus => o_hh o * 60 + o_mmv o <= 720 | _ => o_hh o * 60 + o_mmv o <= 840 end)
  /\ (forall n, o_name o = Some n -> no_nl n)
  /\ (o_mm o = None -> forall n, o_name o = Some n -> minutes_like n = false).
Definition time_ok (t : time_spec) : Prop :=
  let '(h, mi, s, ms, br) := t in
  h < 24 /\ mi < 60 /\ s < 60 /\ (forall m, ms = Some m -> m < 1000) /\ (forall o, br = Some o -> off_ok o).

Lemma nd_val_ascii c : is_digit c = true -> nd_val zeros c = Some (c - 48).
Proof.
  intro D. apply is_digit_iff in D. pose proof Hz as H. unfold ascii_zeros in H. rewrite forallb_forall in H.
  specialize (H c). destruct (nd_val zeros c) as [v|] eqn:E.
  - f_equal. apply N.eqb_eq. apply H.
    assert (c = 48 \/ c = 49 \/ c = 50 \/ c = 51 \/ c = 52 \/ c = 53 \/ c = 54 \/ c = 55 \/ c = 56 \/ c = 57) as C by lia.
    cbn [In]. intuition.
  - exfalso. assert (F : false = true); [|discriminate]. apply H.
    assert (c = 48 \/ c = 49 \/ c = 50 \/ c = 51 \/ c = 52 \/ c = 53 \/ c = 54 \/ c = 55 \/ c = 56 \/ c = 57) as C by lia.
    cbn [In]. intuition.
Qed.
Lemma is_nd_ascii c : is_digit c = true -> is_nd zeros c = true.
Proof. intro D. unfold is_nd. rewrite (nd_val_ascii c D). reflexivity. Qed.

(** ---- the bracket ---- *)
Lemma span_app_stop (p : N -> bool) a rest :
  forallb p a = true -> match rest with [] => True | c :: _ => p c = false end -> span p (a ++ rest) = (a, rest).
Proof.
  intros A R. induction a as [|c a IH].
  - destruct rest as [|c r]; [reflexivity|]. cbn [app span]. rewrite R. reflexivity.
  - cbn [forallb] in A. apply andb_true_iff in A as [A1 A2]. cbn [app span]. rewrite A1, (IH A2). reflexivity.
Qed.
Lemma hours_text_hchars o : o_hh o < 24 -> forallb is_hchar (hours_text o) = true.
Proof.
  intro H. destruct (hh_facts _ H) as (D & _). unfold hours_text. rewrite forallb_app. apply andb_true_iff. split.
  - destruct (o_sign o); reflexivity.
  - apply forallb_forall. intros c I. rewrite forallb_forall in D. unfold is_hchar. rewrite (D c I). reflexivity.
Qed.
Lemma hours_text_nonempty o : o_hh o < 24 -> hours_text o <> [].
Proof.
  intro H. destruct (hh_facts _ H) as (_ & NE & _). unfold hours_text. intro E.
  apply app_eq_nil in E as [_ E]. auto.
Qed.
Lemma tail_ok_render (mm : option N) (nm : option text) :
  (forall m, mm = Some m -> m < 100) ->
  (mm = None -> forall n, nm = Some n -> minutes_like n = false) ->
  tail_ok zeros (mm_text mm ++ name_text nm) = Some (option_map d2 mm, nm).
Proof.
  intros M NM. destruct mm as [m|]; cbn [mm_text option_map].
  - specialize (M m eq_refl). unfold tail_ok. cbn [d2 app try_minutes].
    rewrite !is_nd_ascii by (apply is_digit_off; lia). cbn [andb].
    destruct nm as [n|]; cbn [name_text colon_tail]; reflexivity.
  - cbn [app]. destruct nm as [n|]; cbn [name_text]; [|reflexivity].
    specialize (NM eq_refl n eq_refl). unfold minutes_like in NM. unfold tail_ok.
    destruct (try_minutes zeros (58 :: n)); [discriminate|reflexivity].
Qed.
Definition groups_of (o : offspec) : brgroups := mkbr (hours_text o) (option_map d2 (o_mm o)) (o_name o).

Lemma off_ok_hh o : off_ok o -> o_hh o < 24.
Proof. intros (_ & R & _). destruct (o_sign o); lia. Qed.
Lemma no_nl_hours o : o_hh o < 24 -> no_nl (hours_text o).
Proof.
  intro H. destruct (hh_facts _ H) as (D & _). unfold hours_text. apply no_nl_app.
  - destruct (o_sign o); reflexivity.
  - apply no_nl_digits, D.
Qed.
Lemma no_nl_inner o : off_ok o -> no_nl (bracket_inner o).
Proof.
  intro K. pose proof (off_ok_hh o K) as H. destruct K as (M & _ & NN & _). unfold bracket_inner.
  apply no_nl_app; [apply no_nl_hours, H|]. apply no_nl_app.
  - destruct (o_mm o); cbn [mm_text]; [apply no_nl_cons; [lia|apply no_nl_d2]|apply no_nl_nil].
  - destruct (o_name o) as [n|]; cbn [name_text]; [apply no_nl_cons; [lia|apply NN; reflexivity]|apply no_nl_nil].
Qed.
Lemma match_inner_render o : off_ok o -> match_inner zeros (bracket_inner o) = Some (groups_of o).
Proof.
  intro K. pose proof (off_ok_hh o K) as H. destruct K as (M & _ & _ & NM).
  unfold match_inner, bracket_inner, groups_of.
  rewrite span_app_stop; [| apply hours_text_hchars, H |].
  - destruct (hours_text o) eqn:E; [exfalso; exact (hours_text_nonempty o H E)|].
    rewrite tail_ok_render; [reflexivity| |exact NM]. intros m Em. specialize (M m Em). lia.
  - destruct (o_mm o); cbn [mm_text app]; [reflexivity|]. destruct (o_name o); cbn [name_text]; [reflexivity|exact I].
Qed.
Lemma match_bracket_render o : off_ok o -> match_bracket zeros (bracket_text o) = Some (Some (groups_of o)).
Proof.
  intro K. unfold match_bracket, bracket_text. rewrite rev_unit, rev_involutive.
  pose proof (no_nl_inner o K) as NL. unfold no_nl in NL. rewrite NL.
  rewrite (match_inner_render o K). reflexivity.
Qed.
Lemma mins_val_d2 m : m < 100 -> mins_val zeros (Some (d2 m)) = m.
Proof.
  intro H. unfold mins_val, d2. rewrite !nd_val_ascii by (apply is_digit_off; lia). lia.
Qed.
Lemma parse_offset_render o : off_ok o -> parse_gmt_offset true zeros tzs (Some (groups_of o)) = OK (off_seconds o).
Proof.
  intro K. pose proof (off_ok_hh o K) as H. destruct K as (M & R & _ & _).
  destruct (hh_facts _ H) as (_ & _ & P0 & P1 & P2 & SM).
  unfold parse_gmt_offset, groups_of. cbn [g_hours g_mins g_tz].
  assert (MV : mins_val zeros (option_map d2 (o_mm o)) = o_mmv o).
  { unfold o_mmv. destruct (o_mm o) as [m|] eqn:E; cbn [option_map]; [apply mins_val_d2; specialize (M m eq_refl); lia|reflexivity]. }
  rewrite MV. unfold hours_text, off_seconds, gmt_offset.
  destruct (o_sign o); cbn [sign_text app starts_minus andb].
  - rewrite P1. cbn [bind].
    destruct ((-12 <=? Z.of_N (o_hh o))%Z && (Z.of_N (o_hh o) <=? 14)%Z) eqn:E; [|lia]. cbn [bind].
    destruct (Z.of_N (o_hh o) <? 0)%Z eqn:E2; [lia|]. f_equal. lia.
  - rewrite P2. cbn [bind].
    destruct ((-12 <=? - Z.of_N (o_hh o))%Z && (- Z.of_N (o_hh o) <=? 14)%Z) eqn:E; [|lia]. cbn [bind].
    destruct (- Z.of_N (o_hh o) =? 0)%Z eqn:E0; destruct (- Z.of_N (o_hh o) <? 0)%Z eqn:E2; f_equal; lia.
  - rewrite P0, SM. cbn [bind andb].
    destruct ((-12 <=? Z.of_N (o_hh o))%Z && (Z.of_N (o_hh o) <=? 14)%Z) eqn:E; [|lia]. cbn [bind].
    destruct (Z.of_N (o_hh o) <? 0)%Z eqn:E2; [lia|]. f_equal. lia.
Qed.

(** ---- the time part ---- *)
Lemma match_ms_render ms br :
  (forall m, ms = Some m -> m < 1000) -> match_ms (ms_text ms ++ br_text br) = (ms, br_text br).
Proof.
  intro M. destruct ms as [m|]; cbn [ms_text app match_ms].
  - rewrite take3_d3 by (apply M; reflexivity). reflexivity.
  - destruct br as [o|]; reflexivity.
Qed.
Lemma match_hms_render t : time_ok t ->
  let '(h, mi, s, ms, br) := t in
  match_hms zeros (time_render t) = Some (h, mi, s, ms, option_map groups_of br).
Proof.
  destruct t as [[[[h mi] s] ms] br]. intros (H & MI & S & MS & BR).
  unfold time_render, hms_text, match_hms. rewrite <- !app_assoc.
  rewrite take2_d2 by lia. destruct (h <=? 23) eqn:E1; [|lia].
  rewrite take2_d2 by lia. destruct (mi <=? 59) eqn:E2; [|lia].
  rewrite take2_d2 by lia. destruct (s <=? 60) eqn:E3; [|lia].
  rewrite (match_ms_render ms br MS).
  destruct br as [o|]; cbn [br_text option_map]; [|reflexivity].
  rewrite (match_bracket_render o (BR o eq_refl)). reflexivity.
Qed.
Lemma no_nl_time t : time_ok t -> no_nl (time_render t).
Proof.
  destruct t as [[[[h mi] s] ms] br]. intros (_ & _ & _ & _ & BR). unfold time_render, hms_text.
  repeat apply no_nl_app; try apply no_nl_d2.
  - destruct ms; cbn [ms_text]; [apply no_nl_cons; [lia|apply no_nl_d3]|apply no_nl_nil].
  - destruct br as [o|]; cbn [br_text]; [|apply no_nl_nil]. unfold bracket_text.
    apply no_nl_cons; [lia|]. apply no_nl_app; [apply no_nl_inner, BR; reflexivity|]. apply no_nl_cons; [lia|apply no_nl_nil].
Qed.
Lemma parse_offset_br br : (forall o, br = Some o -> off_ok o) ->
  parse_gmt_offset true zeros tzs (option_map groups_of br) = OK (brv br).
Proof.
  intro K. destruct br as [o|]; cbn [option_map brv]; [apply parse_offset_render, K; reflexivity|reflexivity].
Qed.

(** ---- DateTime ---- *)
Definition date_ok (y mo d : N) : Prop :=
  1 <= y <= 9999 /\ 1 <= mo <= 12 /\ 1 <= d /\ (Z.of_N d <= civil_dim (Z.of_N y) (Z.of_N mo))%Z.

Theorem dt_convert_denotes_l y mo d (t : option time_spec) :
  date_ok y mo d -> (forall t', t = Some t' -> time_ok t') ->
  (0 <= dt_denoted y mo d t < MAXORDINAL * US_DAY)%Z ->
  exists f, dt_convert zeros tzs (render_dt y mo d t) = OK f
            /\ us_of_fields f = dt_denoted y mo d t /\ valid_fields f = true.
Proof.
  intros (Y & MO & D1 & D2) T R.
  rewrite civil_dim_is_days_in_month in D2 by lia.
  assert (D31 : d <= 31).
  { assert (days_in_month (Z.of_N y) (Z.of_N mo) <= 31)%Z; [|lia].
    unfold days_in_month. destruct (Z.of_N mo =? 2)%Z; [destruct (is_leap (Z.of_N y))|destruct (_ || _)]; lia. }
  assert (NL : no_nl (render_dt y mo d t)).
  { unfold render_dt. repeat apply no_nl_app; try apply no_nl_d4; try apply no_nl_d2.
    destruct t as [t'|]; [apply no_nl_time, T; reflexivity|apply no_nl_nil]. }
  unfold dt_convert, dt_convert_gen. rewrite (strip_nl_no_nl _ NL).
  unfold render_dt, match_dt.
  rewrite take4_d4 by lia. rewrite take2_d2 by lia.
  destruct ((1 <=? mo) && (mo <=? 12)) eqn:E1; [|lia].
  rewrite take2_d2 by lia.
  destruct ((1 <=? d) && (d <=? 31)) eqn:E2; [|lia].
  destruct t as [t'|].
  - specialize (T t' eq_refl). pose proof (match_hms_render t' T) as MH.
    destruct t' as [[[[h mi] s] ms] br].
    destruct (time_render (h, mi, s, ms, br)) as [|c r] eqn:ER.
    { exfalso. unfold time_render, hms_text, d2 in ER. cbn [app] in ER. discriminate. }
    rewrite MH. cbn [g_br g_y g_mo g_d]. destruct T as (H & MI & S & MS & BR).
    rewrite (parse_offset_br br BR). cbn [bind]. unfold groups_time, groups_ms. cbn [g_time g_ms].
    set (f := mkdtf (Z.of_N y) (Z.of_N mo) (Z.of_N d) (Z.of_N h) (Z.of_N mi) (Z.of_N s) (Z.of_N (1000 * msv ms))).
    assert (MSV : msv ms < 1000) by (destruct ms as [m|]; cbn [msv]; [apply MS; reflexivity|lia]).
    assert (V : valid_fields f = true).
    { apply valid_fields_iff. unfold f. cbn [f_y f_mo f_d f_h f_mi f_s f_us]. lia. }
    unfold mk_datetime. fold (msv ms). fold f. rewrite V. cbn [bind].
    assert (EU : us_of_fields f = (dt_denoted y mo d (@Some time_spec (h, mi, s, ms, br)) + brv br * 1000000)%Z).
    { rewrite us_of_fields_civil by (unfold f; cbn [f_mo]; lia). unfold f, dt_denoted, time_denoted, civil_us.
      cbn [f_y f_mo f_d f_h f_mi f_s f_us]. unfold US_DAY. lia. }
    assert (RR : (0 <= us_of_fields f + - brv br * 1000000 < MAXORDINAL * US_DAY)%Z) by (rewrite EU; lia).
    destruct (dt_add_us_ok f (- brv br * 1000000)%Z V RR) as (g & G1 & G2 & G3).
    exists g. repeat split; [exact G1| lia | exact G3].
  - cbn [g_br g_y g_mo g_d parse_gmt_offset]. unfold gmt_offset. cbn [bind Z.leb Z.compare andb Z.abs Z.mul Z.add Z.of_N Z.ltb].
    unfold groups_time, groups_ms. cbn [g_time g_ms].
    set (f := mkdtf (Z.of_N y) (Z.of_N mo) (Z.of_N d) (Z.of_N 0) (Z.of_N 0) (Z.of_N 0) (Z.of_N (1000 * 0))).
    assert (V : valid_fields f = true).
    { apply valid_fields_iff. unfold f. cbn [f_y f_mo f_d f_h f_mi f_s f_us]. lia. }
    unfold mk_datetime. fold f. rewrite V. cbn [bind].
    assert (EU : us_of_fields f = dt_denoted y mo d None).
    { rewrite us_of_fields_civil by (unfold f; cbn [f_mo]; lia). unfold f, dt_denoted, civil_us.
      cbn [f_y f_mo f_d f_h f_mi f_s f_us]. unfold US_DAY. lia. }
    assert (RR : (0 <= us_of_fields f + - 0 * 1000000 < MAXORDINAL * US_DAY)%Z) by (rewrite EU; lia).
    destruct (dt_add_us_ok f (- 0 * 1000000)%Z V RR) as (g & G1 & G2 & G3).
    exists g. repeat split; [exact G1| lia | exact G3].
Qed.

(** ---- Time ---- *)
Lemma off_seconds_range o : off_ok o -> (-43200 <= off_seconds o <= 50400)%Z.
Proof. intros (_ & R & _). unfold off_seconds. destruct (o_sign o); lia. Qed.

Theorem tm_convert_denotes_l (t : time_spec) : time_ok t ->
  exists f, tm_convert zeros tzs (time_render t) = OK f
            /\ tod_us f = (time_denoted t mod US_DAY)%Z
            /\ (0 <= f_h f < 24 /\ 0 <= f_mi f < 60 /\ 0 <= f_s f < 60 /\ 0 <= f_us f < 1000000)%Z.
Proof.
  intro T. pose proof (match_hms_render t T) as MH. pose proof (no_nl_time t T) as NL.
  unfold tm_convert, tm_convert_gen. rewrite (strip_nl_no_nl _ NL). unfold match_time.
  destruct t as [[[[h mi] s] ms] br]. rewrite MH. cbn [g_br]. destruct T as (H & MI & S & MS & BR).
  rewrite (parse_offset_br br BR). cbn [bind]. unfold groups_time, groups_ms. cbn [g_time g_ms].
  set (v := mkdtf (Z.of_N 1999) (Z.of_N 6) (Z.of_N 8) (Z.of_N h) (Z.of_N mi) (Z.of_N s) (Z.of_N (1000 * msv ms))).
  assert (MSV : msv ms < 1000) by (destruct ms as [m|]; cbn [msv]; [apply MS; reflexivity|lia]).
  assert (V : valid_fields v = true) by (unfold v; apply valid_fields_iff; cbn [f_y f_mo f_d f_h f_mi f_s f_us]; vm_compute days_in_month; lia).
  unfold mk_datetime. fold (msv ms). fold v. rewrite V. cbn [bind].
  assert (BV : (-43200 <= brv br <= 50400)%Z).
  { destruct br as [o|]; cbn [brv]; [apply off_seconds_range, BR; reflexivity|lia]. }
  pose proof (us_of_fields_tod v) as UV. pose proof (tod_range v V) as TV.
  change (ymd2ord (f_y v) (f_mo v) (f_d v)) with 729913%Z in UV.
  assert (RR : (0 <= us_of_fields v + - brv br * 1000000 < MAXORDINAL * US_DAY)%Z).
  { rewrite UV. unfold MAXORDINAL, US_DAY in *. lia. }
  destruct (dt_add_us_ok v (- brv br * 1000000)%Z V RR) as (g & G1 & G2 & G3).
  rewrite G1. cbn [rmap]. eexists. split; [reflexivity|].
  pose proof (us_of_fields_tod g) as UG. pose proof (tod_range g G3) as TG.
  apply valid_fields_iff in G3.
  unfold tod_us at 1. cbn [f_h f_mi f_s f_us]. fold (tod_us g).
  split; [|lia].
  assert (TVE : tod_us v = (time_denoted (h, mi, s, ms, br) + brv br * 1000000)%Z).
  { unfold tod_us, v, time_denoted. cbn [f_h f_mi f_s f_us]. lia. }
  set (o := ymd2ord (f_y g) (f_mo g) (f_d g)) in *.
  unfold US_DAY in *. lia.
Qed.
End Tables.
