(** C03 over the BYTES of a file: the header engine (C05), the tokenizer / tree builder (C02) and the typed placement theorem composed.
    ANY rendering of a well-formed document (not only the library's own writers'), encoded with the codec the header's CHARSET declares
    (version 1) or UTF-8 (version 2) and placed behind any tolerated header layout, is handed to the tree builder as its text, parsed
    to its tree, and converted with every attribute holding what the converter of its declared element type makes of the text of the
    child carrying its tag. *)
From OfxV Require Import Base.Prelude Base.Digits Base.SgmlBase Model.Schema Model.Convert Model.Sgml Model.SgmlSpec Model.Serialize
     Model.Scalars Model.Typed Model.TypedDT Model.Header Model.HeaderLayout Gen.HeaderGen Gen.SgmlGen
     Proofs.SgmlFaithful Proofs.SerializeProofs Proofs.HeaderParse Proofs.HeaderCodec Proofs.HeaderExact Proofs.ConvertSound Proofs.ConvertPlaces
     Proofs.WireRoundTrip Proofs.TypedPlaces Proofs.FileRoundTrip.
Local Open Scope N_scope.

Definition placed table zeros tzs S tag ch cn fs : Prop :=
  exists c dkw,
    lookup_tag S tag = Some c /\ cn = tag
    /\ Convert.map_res (entry_value pyval (from_etree pyval (conv_typed table (conv_dt_m zeros tzs)) S))
         (filter (fun en => negb (is_list_entry en)) (entries c false ch)) = OK (map snd dkw)
    /\ map fst dkw = map entry_name (filter (fun en => negb (is_list_entry en)) (entries c false ch))
    /\ Forall2 (typed_field_ok table zeros tzs dkw) (spec_no_list c) fs.

(** what parse_header keeps of a rendering: everything but the root's trailing white space; it still parses to the document's tree *)
Lemma rendering_splits r d : wf_doc d = true -> ok_rendering [] r d -> ends_tag r = true ->
  exists core, render [] r = (core ++ last_ws r)%list /\ body_ok core = true
               /\ parse repaired core = OK (Some (tree_of d)) /\ parse repaired (render [] r) = OK (Some (tree_of d)).
Proof.
  intros Hd Hr He. exists (render_toks (flatten (drop_ws r))). split; [|split; [|split]].
  - unfold render. cbn [app]. apply render_drop.
  - apply drop_body_ok. exact He.
  - apply (parse_render_faithful_l [] (drop_ws r) d Hd (drop_ok r d Hr)).
  - apply (parse_render_faithful_l [] r d Hd Hr).
Qed.

Theorem file_places_typed_values_v1_l l h cd table zeros tzs S (d : doc) (r : rdoc) tag x ch cn fs ms w encbody :
  valid1 h = true -> lay1_ok l h = true -> spec_codec (h1_charset h) = Some cd ->
  wf_doc d = true -> ok_rendering [] r d -> ends_tag r = true -> all_ws (last_ws r) = true ->
  encode_opt cd (render [] r) = Some encbody ->
  tree_of d = up (Node tag x ch) ->
  from_etree pyval (conv_typed table (conv_dt_m zeros tzs)) S (Node tag x ch) = OK (Inst pyval cn fs ms, w) ->
  exists msg, parse_header (file1 l h encbody) = OK (H1 h, msg)
              /\ parse repaired msg = OK (Some (up (Node tag x ch)))
              /\ placed table zeros tzs S tag ch cn fs.
Proof.
  intros V L SC Hd Hr He Hw EN Ht Hf.
  destruct (rendering_splits r d Hd Hr He) as (core & E & B & P & _).
  exists core. split; [|split].
  - apply (parse_header_exact_v1_c l h cd core (last_ws r) encbody V L B Hw SC). rewrite <- E. exact EN.
  - rewrite P, Ht. reflexivity.
  - exact (from_etree_places_typed_values_l table zeros tzs S tag x ch cn fs ms w Hf).
Qed.

Theorem file_places_typed_values_v2_l l h table zeros tzs S (d : doc) (r : rdoc) tag x ch cn fs ms w encbody :
  valid2 h = true -> lay2_ok l = true ->
  wf_doc d = true -> ok_rendering [] r d -> ends_tag r = true -> all_ws (last_ws r) = true ->
  encode_opt 2 (render [] r) = Some encbody ->
  tree_of d = up (Node tag x ch) ->
  from_etree pyval (conv_typed table (conv_dt_m zeros tzs)) S (Node tag x ch) = OK (Inst pyval cn fs ms, w) ->
  exists msg, parse_header (file2 l h encbody) = OK (H2 h, msg)
              /\ parse repaired msg = OK (Some (up (Node tag x ch)))
              /\ placed table zeros tzs S tag ch cn fs.
Proof.
  intros V L Hd Hr He Hw EN Ht Hf.
  destruct (rendering_splits r d Hd Hr He) as (core & E & B & _ & P).
  exists (render [] r). split; [|split].
  - rewrite E. apply (parse_header_exact_v2_c l h core (last_ws r) encbody V L B Hw). rewrite <- E. exact EN.
  - rewrite P, Ht. reflexivity.
  - exact (from_etree_places_typed_values_l table zeros tzs S tag x ch cn fs ms w Hf).
Qed.

(** * C02 over the bytes of a file (schema-free): any rendering of a well-formed document behind any tolerated header, in the declared
    codec, is split by parse_header and parsed by the tokenizer / tree builder to exactly the document's tree *)
Theorem file_parse_faithful_v1_l l h cd (d : doc) (r : rdoc) encbody :
  valid1 h = true -> lay1_ok l h = true -> spec_codec (h1_charset h) = Some cd ->
  wf_doc d = true -> ok_rendering [] r d -> ends_tag r = true -> all_ws (last_ws r) = true ->
  encode_opt cd (render [] r) = Some encbody ->
  exists msg, parse_header (file1 l h encbody) = OK (H1 h, msg) /\ parse repaired msg = OK (Some (tree_of d)).
Proof.
  intros V L SC Hd Hr He Hw EN.
  destruct (rendering_splits r d Hd Hr He) as (core & E & B & P & _).
  exists core. split; [|exact P].
  apply (parse_header_exact_v1_c l h cd core (last_ws r) encbody V L B Hw SC). rewrite <- E. exact EN.
Qed.

Theorem file_parse_faithful_v2_l l h (d : doc) (r : rdoc) encbody :
  valid2 h = true -> lay2_ok l = true ->
  wf_doc d = true -> ok_rendering [] r d -> ends_tag r = true -> all_ws (last_ws r) = true ->
  encode_opt 2 (render [] r) = Some encbody ->
  exists msg, parse_header (file2 l h encbody) = OK (H2 h, msg) /\ parse repaired msg = OK (Some (tree_of d)).
Proof.
  intros V L Hd Hr He Hw EN.
  destruct (rendering_splits r d Hd Hr He) as (core & E & B & _ & P).
  exists (render [] r). split; [|exact P].
  rewrite E. apply (parse_header_exact_v2_c l h core (last_ws r) encbody V L B Hw). rewrite <- E. exact EN.
Qed.

(** * C04 through the front door: a FILE whose document has a data child violating the declared limit of its attribute is split, parsed to
    its tree, and REFUSED by conversion (header engine + tokenizer + the typed limit clause composed) *)
From OfxV Require Import Proofs.TypedLimits.
Theorem file_limit_violation_rejected_v1_l l h cd table conv_dt S (d : doc) (r : rdoc) encbody tag xx ch c k t req e child rn x pre post :
  valid1 h = true -> lay1_ok l h = true -> spec_codec (h1_charset h) = Some cd ->
  wf_doc d = true -> ok_rendering [] r d -> ends_tag r = true -> all_ws (last_ws r) = true ->
  encode_opt cd (render [] r) = Some encbody ->
  tree_of d = up (Node tag xx ch) ->
  lookup_tag S tag = Some c -> In (k, AElem t req) (spec_no_list c) ->
  filter (fun en => negb (is_list_entry en)) (entries c false ch) = (pre ++ (k, AElem t req, child, rn) :: post)%list ->
  (forall p, In p pre -> entry_name p <> k) ->
  etext child = Some x -> x <> [] ->
  lookup_ety table t = Some (ESty e) -> violates e x ->
  exists msg, parse_header (file1 l h encbody) = OK (H1 h, msg)
              /\ parse repaired msg = OK (Some (up (Node tag xx ch)))
              /\ exists err, from_etree pyval (conv_typed table conv_dt) S (Node tag xx ch) = Err err.
Proof.
  intros V L SC Hd Hr He Hw EN Ht Hc Hin Hf Hpre Hx Hne Hty Hv.
  destruct (file_parse_faithful_v1_l l h cd d r encbody V L SC Hd Hr He Hw EN) as (msg & P1 & P2).
  exists msg. split; [exact P1|]. split; [rewrite P2, Ht; reflexivity|].
  exact (typed_limit_violation_rejected_tree_l table conv_dt S tag xx ch c k t req e child rn x pre post Hc Hin Hf Hpre Hx Hne Hty Hv).
Qed.

Theorem file_limit_violation_rejected_v2_l l h table conv_dt S (d : doc) (r : rdoc) encbody tag xx ch c k t req e child rn x pre post :
  valid2 h = true -> lay2_ok l = true ->
  wf_doc d = true -> ok_rendering [] r d -> ends_tag r = true -> all_ws (last_ws r) = true ->
  encode_opt 2 (render [] r) = Some encbody ->
  tree_of d = up (Node tag xx ch) ->
  lookup_tag S tag = Some c -> In (k, AElem t req) (spec_no_list c) ->
  filter (fun en => negb (is_list_entry en)) (entries c false ch) = (pre ++ (k, AElem t req, child, rn) :: post)%list ->
  (forall p, In p pre -> entry_name p <> k) ->
  etext child = Some x -> x <> [] ->
  lookup_ety table t = Some (ESty e) -> violates e x ->
  exists msg, parse_header (file2 l h encbody) = OK (H2 h, msg)
              /\ parse repaired msg = OK (Some (up (Node tag xx ch)))
              /\ exists err, from_etree pyval (conv_typed table conv_dt) S (Node tag xx ch) = Err err.
Proof.
  intros V L Hd Hr He Hw EN Ht Hc Hin Hf Hpre Hx Hne Hty Hv.
  destruct (file_parse_faithful_v2_l l h d r encbody V L Hd Hr He Hw EN) as (msg & P1 & P2).
  exists msg. split; [exact P1|]. split; [rewrite P2, Ht; reflexivity|].
  exact (typed_limit_violation_rejected_tree_l table conv_dt S tag xx ch c k t req e child rn x pre post Hc Hin Hf Hpre Hx Hne Hty Hv).
Qed.
