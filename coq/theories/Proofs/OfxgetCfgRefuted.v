(** Witnesses, computed on the faithful model, of the three behaviours the persistence theorem excludes by
    hypothesis (known findings of C18), and a computed in-domain example. *)
From OfxV Require Import Base.Prelude Base.Digits Base.OfxgetBase Gen.OfxgetGen Model.OfxgetCfg.
Local Open Scope N_scope.

(** run 1 (which must save the settings), then run 2 on the new file: the value of [o] in effect in each *)
Definition two_runs (lookup : text -> option ohrec) (uuid fi : text) (user : option text) (cli1 cli2 : amap) (o : text)
  : option (option pyval * option pyval) :=
  match run_ofxget lookup uuid fi user cli1 with
  | OK (a1, OK (Some t')) =>
    match read_files empty_cfg [Some fi; Some t'] with
    | OK c2 => match merge_config lookup cli2 c2 with
               | OK a2 => Some (args_get a1 o, args_get a2 o)
               | Err _ => None
               end
    | Err _ => None
    end
  | _ => None
  end.

Definition no_ofxhome : text -> option ohrec := fun _ => None.
Definition nl : text := [10].
Definition fi_plain : text := T "[NAMES]" ++ nl ++ T "1 = x" ++ nl ++ nl ++ T "[srv]" ++ nl ++ T "url = https://fi.example.com/ofx" ++ nl ++ nl.
Definition cli_base : amap := [(T "server", PStr (T "srv")); (T "verbose", PInt 0); (T "request", PStr (T "stmt"))].

(** finding 21: the user's file says version = 102; `--version 203 --write` (the default) is not stored; 102 is back *)
Lemma reset_refuted :
  two_runs no_ofxhome (T "U1") fi_plain (Some (T "[srv]" ++ nl ++ T "version = 102" ++ nl ++ nl))
           (cli_base ++ [(T "version", PInt 203); (T "write", PBool true)]) cli_base (T "version")
  = Some (Some (PInt 203), Some (PInt 102)).
Proof. vm_compute. reflexivity. Qed.

(** list values are written unquoted: the account "3, 4" comes back as two accounts *)
Lemma list_quoting_refuted :
  two_runs no_ofxhome (T "U1") fi_plain None
           (cli_base ++ [(T "savings", PList [T "3, 4"]); (T "write", PBool true)]) cli_base (T "savings")
  = Some (Some (PList [T "3, 4"]), Some (PList [T "3"; T "4"])).
Proof. vm_compute. reflexivity. Qed.

(** an option in the user's [DEFAULT] section is invisible until the nickname's section exists, i.e. until the first --write *)
Lemma default_section_refuted :
  two_runs no_ofxhome (T "U1") (T "[NAMES]" ++ nl ++ T "1 = x" ++ nl ++ nl)
           (Some (T "[DEFAULT]" ++ nl ++ T "user = bob" ++ nl ++ nl))
           (cli_base ++ [(T "url", PStr (T "https://h/")); (T "write", PBool true)]) cli_base (T "user")
  = Some (Some (PStr []), Some (PStr (T "bob"))).
Proof. vm_compute. reflexivity. Qed.

(** in-domain example: a URL with '%', an account list, a version, a flag - every CONFIGURABLE option comes back,
    the generated default CLIENTUID takes effect on the second run *)
Definition ex_cli1 : amap :=
  cli_base ++ [(T "url", PStr (T "https://ofx.example.com/%7Euser/ofx?y=%20")); (T "version", PInt 102); (T "user", PStr (T "porky pig"));
               (T "checking", PList [T "12-34"; T "56.78"; T "a b"]); (T "pretty", PBool true); (T "password", PStr (T "s3cret"));
               (T "write", PBool true)].
Definition ex_same (o : text) : bool :=
  match two_runs no_ofxhome (T "GEN-UUID") fi_plain None ex_cli1 cli_base o with
  | Some (Some v1, Some v2) => pyval_eqb v1 v2 || (text_eqb o (T "clientuid") && pyval_eqb v2 (PStr (T "GEN-UUID")))
  | _ => false
  end.
Lemma persist_example : forallb (fun p => ex_same (fst p)) og_configurable = true.
Proof. vm_compute. reflexivity. Qed.

Definition ex_file : option text :=
  match run_ofxget no_ofxhome (T "GEN-UUID") fi_plain None ex_cli1 with OK (_, OK (Some t)) => Some t | _ => None end.
Lemma persist_example_file :
  ex_file = Some (T "[DEFAULT]" ++ nl ++ T "clientuid = GEN-UUID" ++ nl ++ nl ++ T "[srv]" ++ nl
                  ++ T "url = https://ofx.example.com/%7Euser/ofx?y=%20" ++ nl ++ T "version = 102" ++ nl ++ T "pretty = true" ++ nl
                  ++ T "user = porky pig" ++ nl ++ T "checking = 12-34, 56.78, a b" ++ nl ++ nl).
Proof. vm_compute. reflexivity. Qed.
