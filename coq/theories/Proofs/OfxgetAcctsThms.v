(** The C19 statements, proved from OfxgetAcctsProofs (request lists) and OfxgetAcctsAll (_merge_acctinfo). *)
From OfxV Require Import Base.Prelude Base.Digits Base.OfxgetBase Gen.OfxgetGen Model.OfxgetCfg Model.OfxgetAccts.
From OfxV Require Import Proofs.OfxgetAcctsProofs Proofs.OfxgetAcctsAll.
From Coq Require Import Lia.
Local Open Scope N_scope.

(* ------------------------------------------------------------------ stmt / stmtend *)
Lemma stmt_requests_exact_full conv r a ds :
  request_stmt conv r a = OK ds ->
  exists dt a', convert_datetime conv a = OK dt /\ with_all a r = OK a' /\
                (py_truthy (get_or a (T "all") PNone) = false -> a' = a) /\
                Forall2 (doc_matches a' dt) (expect_stmt a') ds.
Proof.
  intro H. destruct (stmt_requests_exact_l _ _ _ _ H) as (dt & a' & H1 & H2 & H3).
  exists dt, a'. repeat split; auto. intro Hall. rewrite (with_all_off _ _ Hall) in H2. apply OK_inj in H2. auto.
Qed.

Lemma stmtend_requests_exact_full conv r a ds :
  request_stmtend conv r a = OK ds ->
  exists dt a', convert_datetime conv a = OK dt /\ with_all a r = OK a' /\
                (py_truthy (get_or a (T "all") PNone) = false -> a' = a) /\
                Forall2 (doc_matches a' dt) (expect_stmtend a') ds.
Proof.
  intro H. destruct (stmtend_requests_exact_l _ _ _ _ H) as (dt & a' & H1 & H2 & H3).
  exists dt, a'. repeat split; auto. intro Hall. rewrite (with_all_off _ _ Hall) in H2. apply OK_inj in H2. auto.
Qed.

(* ------------------------------------------------------------------ --all *)
Definition acct_opts : list text :=
  [T "checking"; T "savings"; T "moneymrkt"; T "creditline"; T "creditcard"; T "investment"].
(** no account list on the command line ([m0]) and none configured below it ([rest] gives the built-in []) *)
Definition no_account_lists (m0 : amap) (rest : args) : Prop :=
  forall k, In k acct_opts -> assoc k m0 = None /\ args_get rest k = Some (PList []).

Definition bank_types : list bankty := [CHECKING; SAVINGS; MONEYMRKT; CREDITLINE].
(** what the property demands with --all: one request per ACTIVE account, under its own kind and type *)
Definition expect_active (kb kc : rkind) (l : list acctinfo) : list expect :=
  List.concat (map (fun ty => map (fun id => {| e_kind := kb; e_ty := Some (upper (bankty_name ty)); e_id := id |})
                                  (active_bank ty l)) bank_types)
  ++ map (fun id => {| e_kind := kc; e_ty := None; e_id := id |}) (active_cc l).
Definition expect_active_inv (l : list acctinfo) : list expect :=
  map (fun id => {| e_kind := KInvStmt; e_ty := None; e_id := id |}) (active_inv l).

Lemma with_all_on a r a' :
  py_truthy (get_or a (T "all") PNone) = true -> with_all a r = OK a' -> merge_acctinfo a r = OK a'.
Proof.
  unfold with_all. intros -> H. destruct (py_truthy (get_or a (T "dryrun") PNone)).
  - apply bind_ok in H. destruct H as (_ & _ & H). discriminate.
  - apply bind_ok in H. destruct H as (_ & _ & H). exact H.
Qed.

Lemma lists_cc_false l : lists_cc l = false -> active_cc l = [].
Proof.
  unfold lists_cc, active_cc. induction l as [|a l IH]; [reflexivity|].
  destruct a; cbn [existsb orb map List.concat app]; try exact IH. discriminate.
Qed.

Lemma accts_of_plist a k xs : args_get a k = Some (PList xs) -> accts_of a k = xs.
Proof. unfold accts_of, acct_list. intros ->. reflexivity. Qed.

Lemma opt_plist_accts m0 d rest k xs :
  assoc k m0 = None -> assoc k d = opt_plist xs -> args_get rest k = Some (PList []) ->
  accts_of (m0 :: d :: rest) k = xs.
Proof.
  intros H0 Hd Hr. apply accts_of_plist. rewrite merged_lookup, H0, Hd.
  destruct xs; cbn [opt_plist is_nil]; [exact Hr | reflexivity].
Qed.

Lemma In_acct_opts_bank ty : ty <> CD -> In (bankty_name ty) acct_opts.
Proof. destruct ty; intro H; cbn; auto 10; exfalso; apply H; reflexivity. Qed.

Lemma active_accounts m0 rest r a' :
  no_account_lists m0 rest -> merge_acctinfo (m0 :: rest) r = OK a' ->
  exists l, extract_acctinfos r = OK l /\
    (forall ty, ty <> CD -> accts_of a' (bankty_name ty) = active_bank ty l) /\
    accts_of a' (T "creditcard") = active_cc l /\ accts_of a' (T "investment") = active_inv l.
Proof.
  intros Hn H. destruct (merge_acctinfo_shape _ _ _ _ H) as (l & d & Hl & Hd & ->).
  exists l. split; [exact Hl|]. repeat split.
  - intros ty Hty. destruct (Hn _ (In_acct_opts_bank ty Hty)) as [H0 Hr].
    apply opt_plist_accts; auto. apply discovered_bank; exact Hd.
  - destruct (Hn (T "creditcard")) as [H0 Hr]; [cbn; auto 10|].
    apply accts_of_plist. rewrite merged_lookup, H0, (discovered_cc _ _ Hd).
    destruct (lists_cc l) eqn:E; [reflexivity|]. rewrite (lists_cc_false _ E). exact Hr.
  - destruct (Hn (T "investment")) as [H0 Hr]; [cbn; auto 10|].
    apply opt_plist_accts; auto. apply discovered_inv; exact Hd.
Qed.

(** the generated loop tuples are the four bank types, in this order *)
Definition types_ok : bool :=
  list_eqb text_eqb og_stmt_types (map bankty_name bank_types) && list_eqb text_eqb og_stmtend_types (map bankty_name bank_types).
Lemma types_ok_true : types_ok = true.
Proof. vm_compute. reflexivity. Qed.
Lemma stmt_types_eq : og_stmt_types = map bankty_name bank_types.
Proof. pose proof types_ok_true as H. unfold types_ok in H. apply andb_true_iff in H. apply (list_eqb_eq _ text_eqb_eq), H. Qed.
Lemma stmtend_types_eq : og_stmtend_types = map bankty_name bank_types.
Proof. pose proof types_ok_true as H. unfold types_ok in H. apply andb_true_iff in H. apply (list_eqb_eq _ text_eqb_eq), H. Qed.

Lemma expect_bank_active kind a' l :
  (forall ty, ty <> CD -> accts_of a' (bankty_name ty) = active_bank ty l) ->
  expect_bank kind a' (map bankty_name bank_types) =
  List.concat (map (fun ty => map (fun id => {| e_kind := kind; e_ty := Some (upper (bankty_name ty)); e_id := id |})
                                  (active_bank ty l)) bank_types).
Proof.
  intro H. unfold expect_bank, bank_types. cbn [map].
  rewrite !H by discriminate. reflexivity.
Qed.

Lemma all_is_exactly_active_stmt conv r m0 rest ds :
  py_truthy (get_or (m0 :: rest) (T "all") PNone) = true ->
  no_account_lists m0 rest ->
  request_stmt conv r (m0 :: rest) = OK ds ->
  exists l dt a', extract_acctinfos r = OK l /\ convert_datetime conv (m0 :: rest) = OK dt /\
                  merge_acctinfo (m0 :: rest) r = OK a' /\
                  Forall2 (doc_matches a' dt) (expect_active KStmt KCcStmt l ++ expect_active_inv l) ds.
Proof.
  intros Hall Hn H. destruct (stmt_requests_exact_l _ _ _ _ H) as (dt & a' & H1 & H2 & H3).
  apply (with_all_on _ _ _ Hall) in H2.
  destruct (active_accounts _ _ _ _ Hn H2) as (l & Hl & Hb & Hc & Hi).
  exists l, dt, a'. repeat split; auto.
  unfold expect_stmt in H3. rewrite stmt_types_eq, (expect_bank_active _ _ _ Hb) in H3.
  unfold expect_cc, expect_inv in H3. rewrite Hc, Hi in H3.
  unfold expect_active, expect_active_inv. rewrite <- app_assoc. exact H3.
Qed.

Lemma all_is_exactly_active_stmtend conv r m0 rest ds :
  py_truthy (get_or (m0 :: rest) (T "all") PNone) = true ->
  no_account_lists m0 rest ->
  request_stmtend conv r (m0 :: rest) = OK ds ->
  exists l dt a', extract_acctinfos r = OK l /\ convert_datetime conv (m0 :: rest) = OK dt /\
                  merge_acctinfo (m0 :: rest) r = OK a' /\
                  Forall2 (doc_matches a' dt) (expect_active KStmtEnd KCcStmtEnd l) ds.
Proof.
  intros Hall Hn H. destruct (stmtend_requests_exact_l _ _ _ _ H) as (dt & a' & H1 & H2 & H3).
  apply (with_all_on _ _ _ Hall) in H2.
  destruct (active_accounts _ _ _ _ Hn H2) as (l & Hl & Hb & Hc & Hi).
  exists l, dt, a'. repeat split; auto.
  unfold expect_stmtend in H3. rewrite stmtend_types_eq, (expect_bank_active _ _ _ Hb) in H3.
  unfold expect_cc in H3. rewrite Hc in H3. exact H3.
Qed.

Lemma all_is_exactly_active_l conv r m0 rest :
  py_truthy (get_or (m0 :: rest) (T "all") PNone) = true ->
  no_account_lists m0 rest ->
  (forall ds, request_stmt conv r (m0 :: rest) = OK ds ->
     exists l dt a', extract_acctinfos r = OK l /\ convert_datetime conv (m0 :: rest) = OK dt /\
                     merge_acctinfo (m0 :: rest) r = OK a' /\
                     Forall2 (doc_matches a' dt) (expect_active KStmt KCcStmt l ++ expect_active_inv l) ds) /\
  (forall ds, request_stmtend conv r (m0 :: rest) = OK ds ->
     exists l dt a', extract_acctinfos r = OK l /\ convert_datetime conv (m0 :: rest) = OK dt /\
                     merge_acctinfo (m0 :: rest) r = OK a' /\
                     Forall2 (doc_matches a' dt) (expect_active KStmtEnd KCcStmtEnd l) ds).
Proof.
  intros Hall Hn. split; intros ds H.
  - eapply all_is_exactly_active_stmt; eassumption.
  - eapply all_is_exactly_active_stmtend; eassumption.
Qed.

(* ------------------------------------------------------------------ never an inactive account *)
(** the account id [a] contributes to option [k] *)
Definition acct_of_option (k : text) (a : acctinfo) : option text :=
  match a with
  | BankInfo _ id t _ => if text_eqb k (bankty_name t) then Some id else None
  | CcInfo id _ => if text_eqb k (T "creditcard") then Some id else None
  | InvInfo _ id _ => if text_eqb k (T "investment") then Some id else None
  | BpInfo _ => None
  end.
Definition listed_active (k id : text) (l : list acctinfo) : Prop :=
  exists a, In a l /\ is_active a = true /\ acct_of_option k a = Some id.

Lemma In_active_bank ty id l : In id (active_bank ty l) -> listed_active (bankty_name ty) id l.
Proof.
  unfold active_bank. intro H. apply in_concat in H. destruct H as (x & Hx & Hid).
  apply in_map_iff in Hx. destruct Hx as (a & <- & Ha).
  destruct a as [b i t st| | |]; try contradiction. destruct st; try contradiction.
  destruct (bankty_eqb t ty) eqn:E; [|contradiction]. destruct Hid as [<-|[]].
  exists (BankInfo b i t ACTIVE). repeat split; auto. cbn. destruct t, ty; try discriminate; reflexivity.
Qed.
Lemma In_active_cc id l : In id (active_cc l) -> listed_active (T "creditcard") id l.
Proof.
  unfold active_cc. intro H. apply in_concat in H. destruct H as (x & Hx & Hid).
  apply in_map_iff in Hx. destruct Hx as (a & <- & Ha).
  destruct a as [| |i st|]; try contradiction. destruct st; try contradiction. destruct Hid as [<-|[]].
  exists (CcInfo i ACTIVE). repeat split; auto.
Qed.
Lemma In_active_inv id l : In id (active_inv l) -> listed_active (T "investment") id l.
Proof.
  unfold active_inv. intro H. apply in_concat in H. destruct H as (x & Hx & Hid).
  apply in_map_iff in Hx. destruct Hx as (a & <- & Ha).
  destruct a as [| | |b i st]; try contradiction. destruct st; try contradiction. destruct Hid as [<-|[]].
  exists (InvInfo b i ACTIVE). repeat split; auto.
Qed.

Lemma opt_plist_in xs v id : opt_plist xs = Some v -> In id (match v with PList l => l | _ => [] end) -> In id xs.
Proof. destruct xs; cbn; [discriminate|]. intro H. injection H as <-. auto. Qed.

Lemma inactive_never_requested_l m0 rest r a' k id :
  In k acct_opts ->
  merge_acctinfo (m0 :: rest) r = OK a' ->
  In id (accts_of a' k) ->
  In id (accts_of (m0 :: rest) k)                                   (* named by the user: command line or configuration *)
  \/ exists l, extract_acctinfos r = OK l /\ listed_active k id l.  (* or listed ACTIVE by the server, under that option *)
Proof.
  intros Hk H Hin. destruct (merge_acctinfo_shape _ _ _ _ H) as (l & d & Hl & Hd & ->).
  unfold accts_of, acct_list in Hin. rewrite merged_lookup in Hin.
  destruct (assoc k m0) as [v|] eqn:E0.
  - left. unfold accts_of, acct_list. cbn [args_get]. rewrite E0. exact Hin.
  - destruct (assoc k d) as [v|] eqn:Ed.
    + right. exists l. split; [exact Hl|].
      cbn in Hk. destruct Hk as [<-|[<-|[<-|[<-|[<-|[<-|[]]]]]]].
      * change (assoc (bankty_name CHECKING) d = Some v) in Ed. rewrite (discovered_bank _ _ CHECKING Hd) in Ed. apply (In_active_bank CHECKING).
        destruct (active_bank CHECKING l); cbn in Ed; [discriminate|]. injection Ed as <-. exact Hin.
      * change (assoc (bankty_name SAVINGS) d = Some v) in Ed. rewrite (discovered_bank _ _ SAVINGS Hd) in Ed. apply (In_active_bank SAVINGS).
        destruct (active_bank SAVINGS l); cbn in Ed; [discriminate|]. injection Ed as <-. exact Hin.
      * change (assoc (bankty_name MONEYMRKT) d = Some v) in Ed. rewrite (discovered_bank _ _ MONEYMRKT Hd) in Ed. apply (In_active_bank MONEYMRKT).
        destruct (active_bank MONEYMRKT l); cbn in Ed; [discriminate|]. injection Ed as <-. exact Hin.
      * change (assoc (bankty_name CREDITLINE) d = Some v) in Ed. rewrite (discovered_bank _ _ CREDITLINE Hd) in Ed. apply (In_active_bank CREDITLINE).
        destruct (active_bank CREDITLINE l); cbn in Ed; [discriminate|]. injection Ed as <-. exact Hin.
      * change (assoc (T "creditcard") d = Some v) in Ed. rewrite (discovered_cc _ _ Hd) in Ed. apply In_active_cc.
        destruct (lists_cc l); [|discriminate]. injection Ed as <-. exact Hin.
      * change (assoc (T "investment") d = Some v) in Ed. rewrite (discovered_inv _ _ Hd) in Ed. apply In_active_inv.
        destruct (active_inv l); cbn in Ed; [discriminate|]. injection Ed as <-. exact Hin.
    + left. unfold accts_of, acct_list. cbn [args_get]. rewrite E0. exact Hin.
Qed.

(* ------------------------------------------------------------------ who shadows whom *)
Lemma all_overrides_file_not_cli_l m0 rest r a' :
  merge_acctinfo (m0 :: rest) r = OK a' ->
  exists l, extract_acctinfos r = OK l /\
    (* a list given on the command line stays in effect *)
    (forall k v, assoc k m0 = Some v -> args_get a' k = Some v) /\
    (* otherwise the discovered ACTIVE accounts of a bank type replace whatever is configured for it -
       when there is at least one; a configured list survives when the server lists none *)
    (forall ty, assoc (bankty_name ty) m0 = None ->
       args_get a' (bankty_name ty) =
       if is_nil (active_bank ty l) then args_get rest (bankty_name ty) else Some (PList (active_bank ty l))) /\
    (* credit cards: as soon as the server lists any credit-card account, the ACTIVE ones (possibly none) replace the configured list *)
    (assoc (T "creditcard") m0 = None ->
       args_get a' (T "creditcard") = if lists_cc l then Some (PList (active_cc l)) else args_get rest (T "creditcard")) /\
    (* investment accounts: like a bank type *)
    (assoc (T "investment") m0 = None ->
       args_get a' (T "investment") =
       if is_nil (active_inv l) then args_get rest (T "investment") else Some (PList (active_inv l))).
Proof.
  intro H. destruct (merge_acctinfo_shape _ _ _ _ H) as (l & d & Hl & Hd & ->).
  exists l. split; [exact Hl|]. repeat split.
  - intros k v E. rewrite merged_lookup, E. reflexivity.
  - intros ty E. rewrite merged_lookup, E, (discovered_bank _ _ ty Hd). unfold opt_plist. destruct (is_nil _); reflexivity.
  - intros E. rewrite merged_lookup, E, (discovered_cc _ _ Hd). destruct (lists_cc l); reflexivity.
  - intros E. rewrite merged_lookup, E, (discovered_inv _ _ Hd). unfold opt_plist. destruct (is_nil _); reflexivity.
Qed.

(* ------------------------------------------------------------------ the repaired defect 20, and the unrepaired code *)
(** parse_bankacctinfos as /repo has it before fixes/C19-1: BANKIDs collapsed unconditionally *)
Definition parse_bankacctinfos_orig (l : list acctinfo) : result amap :=
  let (ids, m) := bank_scan l [] [] in
  bind (collapse_to_single ids) (fun b => OK (dd_to_amap m ++ [(T "bankid", PStr b)])).
(** a reply with one bank account that is not ACTIVE and one ACTIVE credit card: the unrepaired parser raises,
    the repaired one yields the credit card *)
Definition reply_20 : list acctinfo := [BankInfo (T "111000614") (T "1") CHECKING AVAIL; CcInfo (T "2") ACTIVE].
Lemma all_without_active_refuted :
  parse_bankacctinfos_orig (F 0 reply_20) = Err Reject /\
  discovered reply_20 = OK [(T "creditcard", PList [T "2"])].
Proof. vm_compute. split; reflexivity. Qed.
