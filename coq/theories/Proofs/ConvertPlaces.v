(** C03: from_etree = construct o denote.  What the converter passes to the class constructor is EXACTLY the list of
    values denoted by the children the class defines, in document order - nothing dropped, nothing invented, nothing
    re-ordered; with [construct_ok_iff] / [field_rel] this places every data element in the attribute named by its tag. *)
From OfxV Require Import Base.Prelude Model.Schema Model.SchemaWf Model.Convert Proofs.ConvertSound Proofs.ConvertUnknown.
From Coq Require Import Lia.
Local Open Scope string_scope.

Section Places.
  Variable sval : Type.
  Variable conv : N -> sin sval -> result (option sval).
  Variable S : schema.
  Notation inst := (inst sval).
  Notation kwval := (kwval sval).
  Notation acc := (acc sval).
  Notation from_etree := (from_etree sval conv S).
  Notation step := (step sval).
  Notation construct := (construct sval conv S).

  (** the children a class defines, after groom (first wire-tagged child renamed, vendor tags dropped), in document order:
      (attribute name, its declaration, the child, was it renamed) *)
  Fixpoint entries (c : cinfo) (rn : bool) (ch : list etree) : list (string * attr * etree * bool) :=
    match ch with
    | [] => []
    | e :: r =>
      let (tag, rn') := groomed_tag c rn (etag e) in
      if has_dot tag then entries c rn' r
      else match index_of (lower tag) (map fst (ci_spec c)), assoc (lower tag) (ci_spec c) with
           | Some _, Some a => (lower tag, a, e, negb (String.eqb tag (etag e))) :: entries c rn' r
           | _, _ => entries c rn' r
           end
    end.
  (** the value a defined child denotes: nothing for an Unsupported attribute, its text when it has data,
      otherwise its own conversion *)
  Definition entry_value (fe : etree -> result (inst * list string)) (en : string * attr * etree * bool) : result kwval :=
    match en with
    | (_, a, e, renamed) =>
      if is_unsup a then OK (KNone sval)
      else if text_truthy (etext e) then OK (match etext e with Some s => KText sval s | None => KNone sval end)
      else if renamed then Err Reject
      else match fe e with OK (i, _) => OK (KInst sval i) | Err k => Err k end
    end.
  Definition is_list_entry (en : string * attr * etree * bool) : bool := match en with (_, a, _, _) => is_list_attr a end.
  Definition entry_name (en : string * attr * etree * bool) : string := match en with (k, _, _, _) => k end.

  Lemma map_res_app {A B} (f : A -> result B) l1 l2 r1 r2 :
    Convert.map_res f l1 = OK r1 -> Convert.map_res f l2 = OK r2 -> Convert.map_res f (l1 ++ l2) = OK (r1 ++ r2)%list.
  Proof.
    revert r1. induction l1 as [|x l1 IH]; intros r1 H1 H2; cbn [Convert.map_res app] in *.
    - injection H1 as <-. exact H2.
    - destruct (f x) as [y|e]; cbn [bind] in *; [|discriminate].
      destruct (Convert.map_res f l1) as [r|e] eqn:E; cbn [bind] in *; [|discriminate].
      injection H1 as <-. rewrite (IH r eq_refl H2). reflexivity.
  Qed.

  Lemma fold_err' fe c l k st : fold_left (step fe c) l (Err k) = OK st -> False.
  Proof. induction l as [|x l IH]; cbn [fold_left]; [discriminate|exact IH]. Qed.

  (** one application of update_args that does not fail: what it did to the accumulator *)
  Lemma step_ok_inv fe c args0 kw0 p0 pl0 ws0 rn0 e st1 :
    step fe c (OK (args0, kw0, p0, pl0, ws0, rn0)) e = OK st1 ->
    match groomed_tag c rn0 (etag e) with
    | (tag, rn1) =>
      if has_dot tag then exists ws', st1 = (args0, kw0, p0, pl0, ws', rn1)
      else match index_of (lower tag) (map fst (ci_spec c)), assoc (lower tag) (ci_spec c) with
           | Some idx, Some a =>
             exists v ws', entry_value fe (lower tag, a, e, negb (String.eqb tag (etag e))) = OK v /\
               st1 = (if is_list_attr a then (v :: args0, kw0, Datatypes.S idx, true, ws', rn1)
                      else (args0, (lower tag, v) :: kw0, Datatypes.S idx, false, ws', rn1))
           | _, _ => exists ws', st1 = (args0, kw0, p0, pl0, ws', rn1)
           end
    end.
  Proof.
    unfold Convert.step. destruct (groomed_tag c rn0 (etag e)) as [tag rn1].
    destruct (has_dot tag); [intro H; injection H as <-; eauto|].
    destruct (index_of (lower tag) (map fst (ci_spec c))) as [idx|]; [|intro H; injection H as <-; eauto].
    destruct (assoc (lower tag) (ci_spec c)) as [a|]; [|intro H; injection H as <-; eauto].
    destruct (Nat.ltb idx p0 && negb (is_list_attr a && pl0))%bool; [discriminate|].
    unfold entry_value.
    destruct (is_unsup a).
    { destruct (is_list_attr a); [intro H; injection H as <-; eauto|].
      destruct (kw_has sval kw0 (lower tag)); [discriminate|]. intro H; injection H as <-; eauto. }
    destruct (text_truthy (etext e)).
    { destruct (is_list_attr a); [intro H; injection H as <-; eauto|].
      destruct (kw_has sval kw0 (lower tag)); [discriminate|]. intro H; injection H as <-; eauto. }
    destruct (negb (String.eqb tag (etag e))); [discriminate|].
    destruct (fe e) as [[i w]|k]; [|discriminate].
    destruct (is_list_attr a); [intro H; injection H as <-; eauto|].
    destruct (kw_has sval kw0 (lower tag)); [discriminate|]. intro H; injection H as <-; eauto.
  Qed.

  (** the fold of update_args computes exactly the denoted values, in document order *)
  Lemma fold_denotes fe c : forall ch args0 kw0 p0 pl0 ws0 rn0 args kw p pl ws rn,
    fold_left (step fe c) ch (OK (args0, kw0, p0, pl0, ws0, rn0)) = OK (args, kw, p, pl, ws, rn) ->
    exists dargs dkw,
      args = (rev dargs ++ args0)%list /\ kw = (rev dkw ++ kw0)%list
      /\ Convert.map_res (entry_value fe) (filter is_list_entry (entries c rn0 ch)) = OK dargs
      /\ Convert.map_res (entry_value fe) (filter (fun en => negb (is_list_entry en)) (entries c rn0 ch)) = OK (map snd dkw)
      /\ map fst dkw = map entry_name (filter (fun en => negb (is_list_entry en)) (entries c rn0 ch)).
  Proof.
    induction ch as [|e ch IH]; intros args0 kw0 p0 pl0 ws0 rn0 args kw p pl ws rn H.
    - cbn in H. injection H as <- <- _ _ _ _. exists [], []. cbn. repeat split; reflexivity.
    - cbn [fold_left] in H.
      destruct (step fe c (OK (args0, kw0, p0, pl0, ws0, rn0)) e) as [st1|k] eqn:Es; [|exfalso; exact (fold_err' _ _ _ _ _ H)].
      apply step_ok_inv in Es. cbn [entries]. destruct (groomed_tag c rn0 (etag e)) as [tag rn1].
      destruct (has_dot tag).
      { destruct Es as (ws' & ->). apply (IH _ _ _ _ _ _ _ _ _ _ _ _ H). }
      destruct (index_of (lower tag) (map fst (ci_spec c))) as [idx|].
      2:{ destruct Es as (ws' & ->). apply (IH _ _ _ _ _ _ _ _ _ _ _ _ H). }
      destruct (assoc (lower tag) (ci_spec c)) as [a|].
      2:{ destruct Es as (ws' & ->). apply (IH _ _ _ _ _ _ _ _ _ _ _ _ H). }
      destruct Es as (v & ws' & Ev & ->). cbn [filter is_list_entry].
      destruct (is_list_attr a) eqn:El; cbn [negb].
      + destruct (IH _ _ _ _ _ _ _ _ _ _ _ _ H) as (dargs & dkw & Ha & Hk & Hl & Hn & Hnames).
        exists (v :: dargs), dkw. repeat split.
        * rewrite Ha. cbn [rev]. rewrite <- app_assoc. reflexivity.
        * exact Hk.
        * cbn [Convert.map_res]. rewrite Ev. cbn [bind]. rewrite Hl. reflexivity.
        * exact Hn.
        * exact Hnames.
      + destruct (IH _ _ _ _ _ _ _ _ _ _ _ _ H) as (dargs & dkw & Ha & Hk & Hl & Hn & Hnames).
        exists dargs, ((lower tag, v) :: dkw). repeat split.
        * exact Ha.
        * rewrite Hk. cbn [rev]. rewrite <- app_assoc. reflexivity.
        * exact Hl.
        * cbn [Convert.map_res map snd]. rewrite Ev. cbn [bind]. rewrite Hn. reflexivity.
        * cbn [map fst entry_name]. rewrite Hnames. reflexivity.
  Qed.

  (** C03, structural half: conversion of a document is the class constructor applied to the denoted values *)
  Theorem from_etree_is_construct_of_denoted_l tag x ch i w :
    from_etree (Node tag x ch) = OK (i, w) ->
    exists c dargs dkw,
      lookup_tag S tag = Some c
      /\ Convert.map_res (entry_value from_etree) (filter is_list_entry (entries c false ch)) = OK dargs
      /\ Convert.map_res (entry_value from_etree) (filter (fun en => negb (is_list_entry en)) (entries c false ch)) = OK (map snd dkw)
      /\ map fst dkw = map entry_name (filter (fun en => negb (is_list_entry en)) (entries c false ch))
      /\ construct tag dargs dkw = OK i.
  Proof.
    intro H. cbn [Convert.from_etree] in H. destruct (lookup_tag S tag) as [c|]; [|discriminate].
    destruct (fold_left (step from_etree c) ch (OK (acc0 sval))) as [a|k] eqn:Ef; [|discriminate].
    destruct a as [[[[[args kw] p] pl] ws] rn].
    destruct (construct tag (rev args) (rev kw)) as [j|k] eqn:Ec; [|discriminate]. cbn in H. injection H as <- _.
    unfold acc0 in Ef. destruct (fold_denotes _ _ _ _ _ _ _ _ _ _ _ _ _ _ _ Ef) as (dargs & dkw & Ha & Hk & Hl & Hn & Hnames).
    exists c, dargs, dkw. rewrite app_nil_r in Ha, Hk. subst args kw. rewrite !rev_involutive in Ec. repeat split; assumption.
  Qed.
End Places.

Section Places2.
  Variable sval : Type.
  Variable conv : N -> sin sval -> result (option sval).
  Variable S : schema.

  (** C03: every attribute of the converted instance holds what the converter of its declared type makes of the value
      denoted by the child carrying its tag ([field_rel] spells this out per declaration kind); absent children give
      absent attributes; list members are the denoted values of the repeated children, in document order. *)
  Theorem from_etree_places_values_l tag x ch cn fs ms w :
    from_etree sval conv S (Node tag x ch) = OK (Inst sval cn fs ms, w) ->
    exists c dargs dkw,
      lookup_tag S tag = Some c /\ cn = tag
      /\ Convert.map_res (entry_value sval (from_etree sval conv S)) (filter (is_list_entry) (entries c false ch)) = OK dargs
      /\ Convert.map_res (entry_value sval (from_etree sval conv S)) (filter (fun en => negb (is_list_entry en)) (entries c false ch)) = OK (map snd dkw)
      /\ map fst dkw = map entry_name (filter (fun en => negb (is_list_entry en)) (entries c false ch))
      /\ Forall2 (field_rel sval conv S dkw) (spec_no_list c) fs
      /\ apply_args sval conv c dargs = OK ms.
  Proof.
    intro H. destruct (from_etree_is_construct_of_denoted_l sval conv S _ _ _ _ _ H) as (c & dargs & dkw & Hl & Ha & Hk & Hn & Hc).
    apply construct_ok_iff in Hc. destruct Hc as (c' & fs' & ms' & Hc' & _ & _ & _ & Hf & Hap & _ & Hi).
    injection Hi as -> -> ->.
    assert (c' = c).
    { unfold lookup_tag in Hl. rewrite Hc' in Hl. destruct (ci_export c'); [injection Hl as ->; reflexivity|discriminate]. }
    subst c'. exists c, dargs, dkw. repeat split; try assumption. apply set_fields_rel. exact Hf.
  Qed.
End Places2.
