(** Bridge between the Scalars engine and the Serialize engine (Model/Serialize.v): both model ET._escape_cdata; they agree on every text,
    and the datum either wire form writes ([wire_datum]) is Serialize.escape_cdata of the element text.  Kept apart from ScalarsWire.v so that
    the C10 obligations do not depend on the Serialize engine's files. *)
From OfxV Require Import Base.Prelude Base.Digits Base.SgmlBase Gen.ScalarsGen Model.PyDecimal Model.Scalars Model.ScalarsLex Model.Serialize
  Proofs.ScalarsText.
Local Open Scope N_scope.

Lemma replace1_flat a b s : replace1 a b s = flat_map (sub1 a b) s.
Proof.
  induction s as [|c s IH]; [reflexivity|]. cbn [replace1 flat_map]. unfold sub1 at 1. rewrite IH. destruct (c =? a); reflexivity.
Qed.
Lemma serialize_escape_cdata_flat s : Serialize.escape_cdata s = flat_map esc1 s.
Proof.
  unfold Serialize.escape_cdata. rewrite !replace1_flat, !flat_map_flat_map. apply flat_map_ext. intro x.
  unfold sub1 at 3. destruct (x =? 38) eqn:E1.
  - apply N.eqb_eq in E1. subst x. reflexivity.
  - cbn [flat_map]. rewrite app_nil_r. unfold sub1 at 2. destruct (x =? 60) eqn:E2.
    + apply N.eqb_eq in E2. subst x. reflexivity.
    + cbn [flat_map]. rewrite app_nil_r. unfold sub1, esc1. rewrite E1, E2. destruct (x =? 62) eqn:E3; [|reflexivity].
      apply N.eqb_eq in E3. subst x. reflexivity.
Qed.
(** the two engines' models of ET._escape_cdata agree on every text *)
Lemma escape_cdata_models_agree s : Serialize.escape_cdata s = Scalars.escape_cdata s.
Proof. rewrite serialize_escape_cdata_flat, escape_cdata_flat. reflexivity. Qed.
Lemma wire_datum_is_serialize_escape f s : wire_datum f s = Serialize.escape_cdata s.
Proof. rewrite wire_datum_flat, serialize_escape_cdata_flat. reflexivity. Qed.

