(** C03 for the typed schema model: each attribute of a converted instance holds what the CONCRETE converter of its declared
    element type makes of the text of the child carrying its tag - the Scalars engine's convert for Bool / String / NagString /
    OneOf / Integer / Decimal (whose denotation theorems are C10's), the C09 engine's dt_convert / tm_convert for DateTime / Time,
    as instants (whose denotation theorems are dt_convert_denotes / tm_convert_denotes: corollary below for every rendering of a
    calendar-valid date-time in the OFX notations). *)
From OfxV Require Import Base.Prelude Base.Digits Model.Schema Model.Convert Model.Calendar Model.DateTimeM Model.DateTimeMCases Model.Scalars
     Model.Typed Model.TypedDT Proofs.ConvertSound Proofs.ConvertPlaces Proofs.CalendarProofs Proofs.DateTimeMDigits Proofs.DateTimeMRead.
Local Open Scope Z_scope.

Section TypedPlaces.
  Variable table : list (N * ety).
  Variable zeros : list N.
  Variable tzs : list (text * Z).
  Variable S : schema.
  Let conv := conv_typed table (conv_dt_m zeros tzs).

  (** what element type t assigns to the text s *)
  Definition typed_value_of (t : N) (s : text) (v : option pyval) : Prop :=
    match lookup_ety table t with
    | Some (ESty e) => exists x w, convert e (PStr s) = OK (x, w) /\ v = (match x with PNone => None | _ => Some x end)
    | Some (EDateTime _) => exists f, dt_convert zeros tzs s = OK f /\ v = Some (PDT (us_of_fields f - EPOCH_US))
    | Some (ETime _) => exists f, tm_convert zeros tzs s = OK f /\ v = Some (PTime (tod_us f))
    | _ => False
    end.

  Lemma conv_typed_value t s v : conv t (SText pyval s) = OK v -> typed_value_of t s v.
  Proof.
    unfold conv, conv_typed, typed_value_of. destruct (lookup_ety table t) as [[e|r|r|]|]; try discriminate.
    - destruct (convert e (PStr s)) as [[x w]|k]; [|discriminate]. intro H. exists x, w. split; [reflexivity|].
      destruct x; injection H as <-; reflexivity.
    - unfold conv_dt_m. destruct (dt_convert zeros tzs s) as [f|k]; [|discriminate]. cbn [rmap]. intro H. injection H as <-. eauto.
    - unfold conv_dt_m. destruct (tm_convert zeros tzs s) as [f|k]; [|discriminate]. cbn [rmap]. intro H. injection H as <-. eauto.
  Qed.

  Definition fval_opt (f : fval pyval) : option (option pyval) :=
    match f with FNone _ => Some None | FVal _ v => Some (Some v) | FSub _ _ => None end.
  (** the typed reading of field_rel for data elements given as text *)
  Definition typed_field_ok (kw : list (string * kwval pyval)) (ka : string * attr) (f : string * fval pyval) : Prop :=
    fst f = fst ka /\
    match snd ka with
    | AElem t _ => forall s, kwget pyval kw (fst ka) = KText pyval s -> exists v, fval_opt (snd f) = Some v /\ typed_value_of t s v
    | _ => True
    end.

  Lemma field_rel_typed kw ka f : field_rel pyval conv S kw ka f -> typed_field_ok kw ka f.
  Proof.
    unfold field_rel, typed_field_ok. intros [Hn H]. split; [exact Hn|]. destruct (snd ka) as [t r| | | |]; try exact I.
    intros s Hs. rewrite Hs in H. destruct H as [(x & Hc & Hf)|(Hc & Hf)].
    - exists (Some x). rewrite Hf. split; [reflexivity|]. apply conv_typed_value. exact Hc.
    - exists None. rewrite Hf. split; [reflexivity|]. apply conv_typed_value. exact Hc.
  Qed.

  Theorem from_etree_places_typed_values_l tag x ch cn fs ms w :
    from_etree pyval conv S (Node tag x ch) = OK (Inst pyval cn fs ms, w) ->
    exists c dkw,
      lookup_tag S tag = Some c /\ cn = tag
      /\ Convert.map_res (entry_value pyval (from_etree pyval conv S)) (filter (fun en => negb (is_list_entry en)) (entries c false ch)) = OK (map snd dkw)
      /\ map fst dkw = map entry_name (filter (fun en => negb (is_list_entry en)) (entries c false ch))
      /\ Forall2 (typed_field_ok dkw) (spec_no_list c) fs.
  Proof.
    intro H. destruct (from_etree_places_values_l pyval conv S tag x ch cn fs ms w H) as (c & dargs & dkw & Hl & Hcn & _ & Hk & Hn & Hf & _).
    exists c, dkw. repeat split; try assumption.
    apply (forall2_impl _ _ _ _ (fun a b => field_rel_typed dkw a b) Hf).
  Qed.

  (** date-times: the text of any rendering of a calendar-valid date-time in the OFX notations is assigned the denoted instant *)
  Hypothesis Hz : ascii_zeros zeros = true.
  Corollary rendered_datetime_value t req y mo d (ts : option time_spec) v :
    lookup_ety table t = Some (EDateTime req) -> date_ok y mo d -> (forall t', ts = Some t' -> time_ok zeros t') ->
    0 <= dt_denoted y mo d ts < MAXORDINAL * US_DAY ->
    typed_value_of t (render_dt y mo d ts) v -> v = Some (PDT (dt_denoted y mo d ts - EPOCH_US)).
  Proof.
    intros Ht Hd Hts Hr Hv. unfold typed_value_of in Hv. rewrite Ht in Hv. destruct Hv as (f & Hc & ->).
    destruct (dt_convert_denotes_l zeros tzs Hz y mo d ts Hd Hts Hr) as (f' & Hc' & Hu & _). rewrite Hc in Hc'. injection Hc' as <-.
    rewrite Hu. reflexivity.
  Qed.
End TypedPlaces.
