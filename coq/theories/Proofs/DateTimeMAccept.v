(** DateTimeM, part 5: every text the converters accept is in the notation and denotes the returned value
    ([dt_accepts_only_l], [tm_accepts_only_l]): [convert s = OK f -> denote s = Some (instant of f)], for EVERY text
    whose decimal digits are all ASCII ([plain_digits]).  The reference [denote_dt]/[denote_tm] reads the text by
    position and computes with days-from-civil arithmetic. *)
From OfxV Require Import Base.Prelude Base.Digits Model.Calendar Model.DateTimeM Model.DateTimeMCases
  Proofs.CalendarProofs Proofs.DateTimeMDigits Proofs.DateTimeMRead Proofs.DateTimeMReject.
From Coq Require Import ZifyBool ZifyN ZifyNat.
Local Open Scope N_scope.
Ltac Zify.zify_post_hook ::= Z.to_euclidean_division_equations.

(** ---- numeral patterns of the model, as tests ---- *)
Lemma colon_tail_spec tl :
  colon_tail tl = match tl with [] => Some None | c :: tz => if c =? 58 then Some (Some tz) else None end.
Proof.
  destruct tl as [|c tz]; [reflexivity|]. destruct (N.eqb_spec c 58) as [->|NE]; [reflexivity|].
  unfold colon_tail. destruct c as [|p]; [reflexivity|]. do 6 (destruct p as [p|p|]; try reflexivity).
  exfalso; apply NE; reflexivity.
Qed.
Lemma tail_ok_spec zeros rest :
  tail_ok zeros rest = match rest with
                       | [] => Some (None, None)
                       | c :: tl => match try_minutes zeros rest with
                                    | Some r => Some r
                                    | None => if c =? 58 then Some (None, Some tl) else None
                                    end
                       end.
Proof.
  destruct rest as [|c tl]; [reflexivity|]. unfold tail_ok. destruct (try_minutes zeros (c :: tl)); [reflexivity|].
  destruct (N.eqb_spec c 58) as [->|NE]; [reflexivity|].
  destruct c as [|p]; [reflexivity|]. do 6 (destruct p as [p|p|]; try reflexivity).
  exfalso; apply NE; reflexivity.
Qed.
Lemma pyint_spec hours :
  pyint hours = let '(neg, ds) := ref_sign hours in
                match ds with
                | [] => None
                | _ => if forallb is_digit ds && (N.of_nat (List.length ds) <=? int_max_str_digits)
                       then Some (if neg then (- Z.of_N (horner ds))%Z else Z.of_N (horner ds)) else None
                end.
Proof.
  destruct hours as [|c r]; [reflexivity|]. unfold pyint, ref_sign.
  destruct (N.eqb_spec c 45) as [->|N45]; [reflexivity|]. destruct (N.eqb_spec c 43) as [->|N43]; [reflexivity|].
  destruct c as [|p]; [reflexivity|]. do 6 (destruct p as [p|p|]; try reflexivity).
  all: first [exfalso; apply N45; reflexivity | exfalso; apply N43; reflexivity].
Qed.
Lemma starts_minus_spec hours : starts_minus hours = fst (ref_sign hours).
Proof.
  destruct hours as [|c r]; [reflexivity|]. unfold starts_minus, ref_sign.
  destruct (N.eqb_spec c 45) as [->|N45]; [reflexivity|].
  replace (fst (if c =? 43 then (false, r) else (false, c :: r))) with false by (destruct (c =? 43); reflexivity).
  destruct c as [|p]; [reflexivity|]. do 6 (destruct p as [p|p|]; try reflexivity).
  exfalso; apply N45; reflexivity.
Qed.
Lemma chomp_is_strip_nl s : chomp s = strip_nl s.
Proof.
  rewrite strip_nl_spec. unfold chomp. destruct (rev s) as [|c r] eqn:E.
  - assert (s = []) as -> by (rewrite <- (rev_involutive s), E; reflexivity). reflexivity.
  - assert (S : s = (rev r ++ [c])%list) by (rewrite <- (rev_involutive s), E; reflexivity).
    rewrite S, last_last, removelast_last. reflexivity.
Qed.
Lemma span_spec (p : N -> bool) s :
  let '(a, b) := span p s in
  s = (a ++ b)%list /\ forallb p a = true /\ match b with [] => True | c :: _ => p c = false end.
Proof.
  induction s as [|c s IH]; [cbn; auto|]. cbn [span]. destruct (p c) eqn:E.
  - destruct (span p s) as [a b]. destruct IH as (-> & A & B). cbn [app forallb]. rewrite E. auto.
  - cbn [app forallb]. auto.
Qed.

(** ---- digit fields read by the reference ---- *)
Lemma ref_num_d2 n : n < 100 -> ref_num (d2 n) = Some (Z.of_N n).
Proof.
  intro H. unfold ref_num, d2. cbn [forallb]. rewrite !is_digit_off by lia. cbn [andb]. unfold horner, dval. cbn [fold_left].
  do 2 f_equal. lia.
Qed.
Lemma ref_num_d3 n : n < 1000 -> ref_num (d3 n) = Some (Z.of_N n).
Proof.
  intro H. unfold ref_num, d3. cbn [forallb]. rewrite !is_digit_off by lia. cbn [andb]. unfold horner, dval. cbn [fold_left].
  do 2 f_equal. lia.
Qed.
Lemma ref_num_d4 n : n < 10000 -> ref_num (d4 n) = Some (Z.of_N n).
Proof.
  intro H. unfold ref_num, d4. cbn [forallb]. rewrite !is_digit_off by lia. cbn [andb]. unfold horner, dval. cbn [fold_left].
  do 2 f_equal. lia.
Qed.

Section Tables.
Variable zeros : list N.
Variable tzs : list (text * Z).
Hypothesis Hz : ascii_zeros zeros = true.

Definition plain_char (c : N) : bool := negb (is_nd zeros c) || is_digit c.
Lemma plain_nd c : plain_char c = true -> is_nd zeros c = is_digit c.
Proof.
  unfold plain_char. intro H. destruct (is_digit c) eqn:D; [apply (is_nd_ascii zeros Hz), D|].
  destruct (is_nd zeros c); [discriminate|reflexivity].
Qed.
Lemma plain_app a b : plain_digits zeros (a ++ b) = plain_digits zeros a && plain_digits zeros b.
Proof. apply forallb_app. Qed.
Lemma plain_cons c a : plain_digits zeros (c :: a) = plain_char c && plain_digits zeros a.
Proof. reflexivity. Qed.

(** ---- after the hours ---- *)
Lemma tail_ok_ref rest m tz : plain_digits zeros rest = true ->
  tail_ok zeros rest = Some (m, tz) -> ref_tail rest = Some (Z.of_N (mins_val zeros m), tz).
Proof.
  intros P. rewrite tail_ok_spec. destruct rest as [|c tl]; [intro E; injection E as <- <-; reflexivity|].
  unfold ref_tail.
  assert (K : match try_minutes zeros (c :: tl) with
              | Some (m', tz') => ref_minutes (c :: tl) = Some (Z.of_N (mins_val zeros m'), tz')
              | None => ref_minutes (c :: tl) = None
              end).
  { destruct tl as [|a [|b tl']]; try reflexivity. cbn [try_minutes ref_minutes].
    rewrite !plain_cons in P. apply andb_true_iff in P as [_ P]. apply andb_true_iff in P as [PA P]. apply andb_true_iff in P as [PB _].
    rewrite (plain_nd a PA), (plain_nd b PB).
    destruct (is_digit a) eqn:DA; destruct (is_digit b) eqn:DB; cbn [andb]; try reflexivity.
    destruct (colon_tail tl'); [|reflexivity]. f_equal. f_equal.
    unfold mins_val. rewrite (nd_val_ascii zeros Hz a DA), (nd_val_ascii zeros Hz b DB).
    apply is_digit_iff in DA. apply is_digit_iff in DB. lia. }
  destruct (try_minutes zeros (c :: tl)) as [[m' tz']|].
  - rewrite K. intro E. injection E as <- <-. reflexivity.
  - rewrite K. destruct (c =? 58); [|discriminate]. intro E. injection E as <- <-. reflexivity.
Qed.

(** under [plain_digits] the greedy hours run never backtracks *)
Lemma is_hchar_not_colon c : is_hchar c = true -> (c =? 58) = false.
Proof. unfold is_hchar, is_digit. lia. Qed.
Lemma try_minutes_hprefix X rest : X <> [] -> forallb is_hchar X = true -> plain_digits zeros rest = true ->
  match rest with [] => True | c :: _ => is_hchar c = false end -> tail_ok zeros rest = None ->
  try_minutes zeros (X ++ rest) = None.
Proof.
  intros NE HX P ST TO.
  assert (NDH : forall c, plain_char c = true -> is_hchar c = false -> is_nd zeros c = false).
  { intros c PC HC. rewrite (plain_nd c PC). unfold is_hchar in HC. destruct (is_digit c); [discriminate|reflexivity]. }
  rewrite tail_ok_spec in TO.
  destruct X as [|x1 [|x2 [|x3 [|x4 X']]]]; [congruence| | | |]; cbn [app try_minutes].
  - destruct rest as [|a [|b tl]]; try reflexivity.
    rewrite plain_cons in P. apply andb_true_iff in P as [PA _]. rewrite (NDH a PA ST). reflexivity.
  - destruct rest as [|b tl]; [reflexivity|].
    rewrite plain_cons in P. apply andb_true_iff in P as [PB _]. rewrite (NDH b PB ST), andb_false_r. reflexivity.
  - destruct (is_nd zeros x2 && is_nd zeros x3); [|reflexivity].
    destruct rest as [|c tl]; [discriminate|]. rewrite colon_tail_spec.
    destruct (try_minutes zeros (c :: tl)); [discriminate|]. destruct (c =? 58); [discriminate|reflexivity].
  - destruct (is_nd zeros x2 && is_nd zeros x3); [|reflexivity].
    rewrite colon_tail_spec. cbn [forallb] in HX. repeat (apply andb_true_iff in HX as [? HX]).
    rewrite (is_hchar_not_colon x4) by assumption. reflexivity.
Qed.
Lemma backtrack_none rest : plain_digits zeros rest = true ->
  match rest with [] => True | c :: _ => is_hchar c = false end -> tail_ok zeros rest = None ->
  forall hrev moved, forallb is_hchar hrev = true -> forallb is_hchar moved = true -> backtrack zeros hrev moved rest = None.
Proof.
  intros P ST TO. induction hrev as [|c hrev IH]; intros moved HH HM; [reflexivity|].
  cbn [backtrack]. destruct hrev as [|c2 hrev']; [reflexivity|].
  cbn [forallb] in HH. apply andb_true_iff in HH as [HC HH].
  change (c :: moved ++ rest)%list with ((c :: moved) ++ rest)%list.
  rewrite try_minutes_hprefix; try assumption; [|discriminate|cbn [forallb]; rewrite HC, HM; reflexivity].
  apply IH; [exact HH|cbn [forallb]; rewrite HC, HM; reflexivity].
Qed.

(** ---- the offset bracket ---- *)
Lemma OK_inj {A} (a b : A) : OK a = OK b -> a = b.
Proof. intro H. injection H. auto. Qed.
Lemma gmt_offset_inv h m off : gmt_offset h m = OK off ->
  (-12 <= h <= 14)%Z /\ off = (if (h <? 0)%Z then (60 * h - Z.of_N m) * 60 else (60 * h + Z.of_N m) * 60)%Z.
Proof.
  unfold gmt_offset. destruct ((-12 <=? h)%Z && (h <=? 14)%Z) eqn:RG; [|discriminate].
  cbv zeta. intro E. assert (E2 := f_equal (fun r => match r with OK a => a | Err _ => off end) E). cbv beta iota in E2.
  rewrite <- E2. split; [lia|]. destruct (h <? 0)%Z eqn:HN; lia.
Qed.
Lemma match_inner_denote inner g off : plain_digits zeros inner = true ->
  match_inner zeros inner = Some g -> parse_gmt_offset true zeros tzs (Some g) = OK off ->
  denote_offset tzs inner = Some off.
Proof.
  intros P MI PO. unfold match_inner in MI. unfold denote_offset.
  pose proof (span_spec is_hchar inner) as SP. destruct (span is_hchar inner) as [run rest].
  destruct SP as (-> & HR & ST). rewrite plain_app in P. apply andb_true_iff in P as [_ PR].
  destruct run as [|r0 run']; [discriminate|]. set (run := r0 :: run') in *.
  destruct (tail_ok zeros rest) as [[m tz]|] eqn:TO.
  2:{ exfalso. rewrite (backtrack_none rest PR ST TO) in MI; [discriminate| |reflexivity].
      apply forallb_forall. intros x I. rewrite forallb_forall in HR. apply HR. apply in_rev. exact I. }
  injection MI as <-. rewrite (tail_ok_ref rest m tz PR TO).
  unfold parse_gmt_offset in PO. cbn [g_hours g_mins g_tz] in PO.
  rewrite pyint_spec, starts_minus_spec in PO. destruct (ref_sign run) as [neg ds] eqn:RS. cbn [fst] in PO.
  set (mm := mins_val zeros m) in *.
  unfold ref_num. unfold int_max_str_digits in PO.
  destruct ds as [|d0 ds'].
  - (* no digits: the zone table *)
    replace (if N.of_nat (List.length (@nil N)) <=? 4300 then None else None) with (@None Z) by reflexivity.
    destruct tz as [nm|]; [|discriminate]. destruct (tz_lookup tzs nm) as [zh|]; [|discriminate].
    destruct (gmt_offset zh mm) as [o|] eqn:GO; [|discriminate]. cbn [bind] in PO. apply gmt_offset_inv in GO as [RG ->].
    destruct ((-12 <=? zh)%Z && (zh <=? 14)%Z) eqn:RG'; [|lia].
    destruct neg; cbn [andb] in PO |- *.
    + destruct (zh =? 0)%Z eqn:Z0; destruct (zh <? 0)%Z eqn:ZN; cbn [orb andb]; apply OK_inj in PO; rewrite <- PO; f_equal; lia.
    + rewrite andb_false_r, orb_false_r. destruct (zh <? 0)%Z eqn:ZN; apply OK_inj in PO; rewrite <- PO; f_equal; lia.
  - set (dd := d0 :: ds') in *.
    destruct (forallb is_digit dd && (N.of_nat (List.length dd) <=? 4300)) eqn:OKD.
    + apply andb_true_iff in OKD as [FD LN]. rewrite LN. unfold dd at 1. fold dd. rewrite FD.
      set (hv := horner dd) in *.
      destruct neg; cbn [andb] in PO.
      * destruct (gmt_offset (- Z.of_N hv) mm) as [o|] eqn:GO; [|discriminate]. cbn [bind] in PO. apply gmt_offset_inv in GO as [RG ->].
        destruct (Z.of_N hv <=? 12)%Z eqn:R12; [|lia].
        destruct (- Z.of_N hv =? 0)%Z eqn:Z0; destruct (- Z.of_N hv <? 0)%Z eqn:ZN; apply OK_inj in PO; rewrite <- PO; f_equal; lia.
      * destruct (gmt_offset (Z.of_N hv) mm) as [o|] eqn:GO; [|discriminate]. cbn [bind] in PO. apply gmt_offset_inv in GO as [RG ->].
        destruct (Z.of_N hv <=? 14)%Z eqn:R14; [|lia].
        destruct (Z.of_N hv <? 0)%Z eqn:ZN; apply OK_inj in PO; rewrite <- PO; f_equal; lia.
    + assert (RN : (if N.of_nat (List.length dd) <=? 4300 then (if forallb is_digit dd then Some (Z.of_N (horner dd)) else None) else None) = None).
      { destruct (N.of_nat (List.length dd) <=? 4300); [|reflexivity]. rewrite andb_true_r in OKD. rewrite OKD. reflexivity. }
      unfold dd at 2. fold dd. rewrite RN.
      destruct tz as [nm|]; [|discriminate]. destruct (tz_lookup tzs nm) as [zh|]; [|discriminate].
      destruct (gmt_offset zh mm) as [o|] eqn:GO; [|discriminate]. cbn [bind] in PO. apply gmt_offset_inv in GO as [RG ->].
      destruct ((-12 <=? zh)%Z && (zh <=? 14)%Z) eqn:RG'; [|lia].
      destruct neg; cbn [andb] in PO |- *.
      * destruct (zh =? 0)%Z eqn:Z0; destruct (zh <? 0)%Z eqn:ZN; cbn [orb andb]; apply OK_inj in PO; rewrite <- PO; f_equal; lia.
      * rewrite andb_false_r, orb_false_r. destruct (zh <? 0)%Z eqn:ZN; apply OK_inj in PO; rewrite <- PO; f_equal; lia.
Qed.

Lemma match_bracket_denote r br off : plain_digits zeros r = true ->
  match_bracket zeros r = Some br -> parse_gmt_offset true zeros tzs br = OK off -> denote_bracket tzs r = Some off.
Proof.
  intros P MB PO. destruct (match_bracket_shape _ _ _ MB) as [(-> & ->)|(inner & g & -> & -> & NL & MI)].
  - cbn in PO. injection PO as <-. reflexivity.
  - unfold denote_bracket. rewrite last_last, removelast_last. cbn [N.eqb Pos.eqb andb].
    assert (NB : existsb (N.eqb 10) (inner ++ [93]) = false).
    { rewrite existsb_app. unfold no_nl in NL. rewrite NL. reflexivity. }
    rewrite NB. cbn [negb]. rewrite plain_cons, plain_app in P. apply andb_true_iff in P as [_ P]. apply andb_true_iff in P as [P _].
    apply (match_inner_denote inner g off P MI PO).
Qed.

(** ---- HHMMSS... ---- *)
Lemma take3_none_ref x : take3 x = None -> (3 <=? N.of_nat (List.length x)) = true -> ref_num (firstn 3 x) = None.
Proof.
  destruct x as [|a [|b [|c x]]]; cbn [List.length]; try lia. intros T _. cbn [take3] in T. cbn [firstn]. unfold ref_num.
  destruct (is_digit a && is_digit b && is_digit c) eqn:E; [discriminate|]. cbn [forallb]. rewrite andb_true_r.
  rewrite andb_assoc, E. reflexivity.
Qed.
Lemma match_hms_denote s h mi sec ms br off : plain_digits zeros s = true ->
  match_hms zeros s = Some (h, mi, sec, ms, br) -> sec < 60 -> parse_gmt_offset true zeros tzs br = OK off ->
  denote_hms tzs s = Some (Z.of_N h * 3600000000 + Z.of_N mi * 60000000 + Z.of_N sec * 1000000
                           + Z.of_N (match ms with Some m => m | None => 0 end) * 1000 - off * 1000000)%Z.
Proof.
  intros P MH S60 PO. destruct (match_hms_shape _ _ _ _ _ _ _ MH) as (r & r' & -> & H & MI & _ & MM & MB).
  unfold denote_hms. cbn [d2 app firstn skipn].
  change [48 + h / 10; 48 + h mod 10] with (d2 h). change [48 + mi / 10; 48 + mi mod 10] with (d2 mi).
  change [48 + sec / 10; 48 + sec mod 10] with (d2 sec).
  rewrite !ref_num_d2 by lia. cbn [List.length].
  destruct ((N.of_nat (S (S (S (S (S (S (List.length r))))))) <? 6)
            || negb ((Z.of_N h <? 24)%Z && (Z.of_N mi <? 60)%Z && (Z.of_N sec <? 60)%Z)) eqn:G; [lia|].
  cbn [d2 app] in P. rewrite !plain_cons in P. do 6 (apply andb_true_iff in P as [_ P]).
  destruct (match_ms_shape _ _ _ MM) as [(-> & -> & T3)|(m & -> & M1000 & ->)].
  - destruct r as [|c x].
    + rewrite (match_bracket_denote [] br off P MB PO). f_equal; try lia.
    + destruct (match_bracket_shape _ _ _ MB) as [(E0 & _)|(inner & g0 & E0 & _)]; [discriminate|].
      injection E0 as E0 E1. subst c. cbn [N.eqb Pos.eqb andb].
      rewrite (match_bracket_denote _ br off P MB PO). f_equal; try lia.
  - cbn [N.eqb Pos.eqb andb]. unfold d3. cbn [app List.length firstn skipn].
    change [48 + m / 100; 48 + m / 10 mod 10; 48 + m mod 10] with (d3 m). rewrite ref_num_d3 by lia.
    replace (3 <=? N.of_nat (S (S (S (List.length r'))))) with true by lia.
    rewrite plain_cons, plain_app in P. apply andb_true_iff in P as [_ P]. apply andb_true_iff in P as [_ P].
    rewrite (match_bracket_denote r' br off P MB PO). f_equal.
Qed.

Lemma dt_add_us_inv f delta g : dt_add_us f delta = OK g ->
  (0 <= us_of_fields f + delta < MAXORDINAL * US_DAY)%Z /\ us_of_fields g = (us_of_fields f + delta)%Z.
Proof.
  unfold dt_add_us. destruct ((0 <=? us_of_fields f + delta)%Z && (us_of_fields f + delta <? MAXORDINAL * US_DAY)%Z) eqn:E; [|discriminate].
  intro H. apply OK_inj in H. subst g. split; [lia|]. apply us_of_fields_of_us. lia.
Qed.
Lemma plain_strip s : plain_digits zeros s = true -> plain_digits zeros (strip_nl s) = true.
Proof.
  intro P. destruct (strip_nl_cases s) as [->|E]; [exact P|]. rewrite E, plain_app in P.
  apply andb_true_iff in P as [P _]. exact P.
Qed.

(** ---- inversion of the converters (the binds are rewritten, never converted: the kernel would otherwise unfold
    [dt_add_us] on symbolic fields) ---- *)
Lemma bind_OK {A B} (a : A) (f : A -> result B) : bind (OK a) f = f a.
Proof. reflexivity. Qed.
Definition conv_fields (y mo d : N) (t : N * N * N) (ms : N) : dtf :=
  let '(h, mi, sec) := t in
  mkdtf (Z.of_N y) (Z.of_N mo) (Z.of_N d) (Z.of_N h) (Z.of_N mi) (Z.of_N sec) (Z.of_N (1000 * ms)).
Lemma dt_convert_inv s f : dt_convert zeros tzs s = OK f ->
  exists g off, match_dt zeros (strip_nl s) = Some g /\ parse_gmt_offset true zeros tzs (g_br g) = OK off
    /\ valid_fields (conv_fields (g_y g) (g_mo g) (g_d g) (groups_time g) (groups_ms g)) = true
    /\ dt_add_us (conv_fields (g_y g) (g_mo g) (g_d g) (groups_time g) (groups_ms g)) (- off * 1000000)%Z = OK f.
Proof.
  unfold dt_convert, dt_convert_gen. intro C.
  destruct (match_dt zeros (strip_nl s)) as [g|]; [|discriminate].
  destruct (parse_gmt_offset true zeros tzs (g_br g)) as [off|] eqn:PO; [|discriminate].
  exists g, off. split; [reflexivity|]. split; [exact PO|].
  unfold conv_fields. destruct (groups_time g) as [[h mi] sec]. rewrite bind_OK in C. unfold mk_datetime in C.
  destruct (valid_fields _); [|discriminate]. rewrite bind_OK in C. split; [reflexivity|]. exact C.
Qed.
Lemma tm_convert_inv s f : tm_convert zeros tzs s = OK f ->
  exists h mi sec ms br off g,
    match_hms zeros (strip_nl s) = Some (h, mi, sec, ms, br) /\ parse_gmt_offset true zeros tzs br = OK off
    /\ valid_fields (conv_fields 1999 6 8 (h, mi, sec) (match ms with Some n => n | None => 0 end)) = true
    /\ dt_add_us (conv_fields 1999 6 8 (h, mi, sec) (match ms with Some n => n | None => 0 end)) (- off * 1000000)%Z = OK g
    /\ f = mkdtf 0 0 0 (f_h g) (f_mi g) (f_s g) (f_us g).
Proof.
  unfold tm_convert, tm_convert_gen, match_time. intro C.
  destruct (match_hms zeros (strip_nl s)) as [[[[[h mi] sec] ms] br]|]; [|discriminate]. cbn [g_br] in C.
  destruct (parse_gmt_offset true zeros tzs br) as [off|] eqn:PO; [|discriminate]. rewrite bind_OK in C.
  unfold groups_time, groups_ms in C. cbn [g_time g_ms] in C. unfold mk_datetime in C. unfold conv_fields. cbv beta iota.
  match type of C with context [valid_fields ?x] => destruct (valid_fields x) eqn:V end; [|discriminate]. rewrite bind_OK in C.
  match type of C with context [dt_add_us ?x ?y] => destruct (dt_add_us x y) as [g|] eqn:AD end; [|discriminate].
  unfold rmap in C. apply OK_inj in C.
  exists h, mi, sec, ms, br, off, g. split; [reflexivity|]. split; [exact PO|]. split; [exact V|]. split; [exact AD|].
  symmetry. exact C.
Qed.

(** ---- the two theorems ---- *)
Theorem tm_accepts_only_l s f : plain_digits zeros s = true ->
  tm_convert zeros tzs s = OK f -> denote_tm tzs s = Some (tod_us f).
Proof.
  intros P C. unfold denote_tm. rewrite chomp_is_strip_nl. apply plain_strip in P.
  destruct (tm_convert_inv s f C) as (h & mi & sec & ms & br & off & g & MH & PO & V & AD & ->).
  unfold conv_fields in *.
  set (v := mkdtf (Z.of_N 1999) (Z.of_N 6) (Z.of_N 8) (Z.of_N h) (Z.of_N mi) (Z.of_N sec)
                  (Z.of_N (1000 * match ms with Some n => n | None => 0 end))) in *.
  pose proof V as V'. apply valid_fields_iff in V'. unfold v in V'. cbn [f_y f_mo f_d f_h f_mi f_s f_us] in V'.
  rewrite (match_hms_denote _ h mi sec ms br off P MH ltac:(lia) PO). f_equal.
  destruct (dt_add_us_inv _ _ _ AD) as [RG UG].
  assert (VG : valid_fields g = true).
  { unfold dt_add_us in AD. destruct ((0 <=? us_of_fields v + - off * 1000000)%Z && (us_of_fields v + - off * 1000000 <? MAXORDINAL * US_DAY)%Z); [|discriminate].
    apply OK_inj in AD. subst g. apply us_of_fields_of_us; lia. }
  pose proof (us_of_fields_tod g) as TG. pose proof (tod_range g VG) as RG2.
  pose proof (us_of_fields_tod v) as TV. pose proof (tod_range v V) as RV.
  assert (TVE : tod_us v = (Z.of_N h * 3600000000 + Z.of_N mi * 60000000 + Z.of_N sec * 1000000
                            + Z.of_N (match ms with Some m => m | None => 0 end) * 1000)%Z).
  { unfold tod_us, v. cbn [f_h f_mi f_s f_us]. lia. }
  unfold tod_us at 1. cbn [f_h f_mi f_s f_us]. fold (tod_us g).
  set (og := ymd2ord (f_y g) (f_mo g) (f_d g)) in *. set (ov := ymd2ord (f_y v) (f_mo v) (f_d v)) in *.
  unfold US_DAY in *. lia.
Qed.

Lemma denote_dt_unfold s0 y mo d r : chomp s0 = (d4 y ++ d2 mo ++ d2 d ++ r)%list -> y < 10000 -> mo < 100 -> d < 100 ->
  denote_dt tzs s0 =
  if negb ((1 <=? Z.of_N y)%Z && (1 <=? Z.of_N mo)%Z && (Z.of_N mo <=? 12)%Z
           && (1 <=? Z.of_N d)%Z && (Z.of_N d <=? civil_dim (Z.of_N y) (Z.of_N mo))%Z) then None
  else let day0 := ((civil_ord (Z.of_N y) (Z.of_N mo) (Z.of_N d) - 1) * US_DAY)%Z in
       match r with
       | [] => Some day0
       | _ => match denote_hms tzs r with
              | Some t => let i := (day0 + t)%Z in
                          if ((0 <=? i) && (i <? MAXORDINAL * US_DAY))%Z then Some i else None
              | None => None
              end
       end.
Proof.
  intros E Y MO D. unfold denote_dt. rewrite E.
  replace (firstn 4 (d4 y ++ d2 mo ++ d2 d ++ r)) with (d4 y) by reflexivity.
  replace (skipn 4 (d4 y ++ d2 mo ++ d2 d ++ r)) with (d2 mo ++ d2 d ++ r)%list by reflexivity.
  replace (skipn 6 (d4 y ++ d2 mo ++ d2 d ++ r)) with (d2 d ++ r)%list by reflexivity.
  replace (skipn 8 (d4 y ++ d2 mo ++ d2 d ++ r)) with r by reflexivity.
  replace (firstn 2 (d2 mo ++ d2 d ++ r)) with (d2 mo) by reflexivity.
  replace (firstn 2 (d2 d ++ r)) with (d2 d) by reflexivity.
  rewrite ref_num_d4, !ref_num_d2 by assumption.
  replace (N.of_nat (List.length (d4 y ++ d2 mo ++ d2 d ++ r)) <? 8) with false
    by (rewrite !app_length; unfold d4, d2; cbn [List.length]; lia).
  cbn [orb]. destruct r; reflexivity.
Qed.

Theorem dt_accepts_only_l s f : plain_digits zeros s = true ->
  dt_convert zeros tzs s = OK f -> denote_dt tzs s = Some (us_of_fields f).
Proof.
  intros P C. apply plain_strip in P.
  destruct (dt_convert_inv s f C) as (g & off & MD & PO & V & AD).
  destruct (match_dt_shape zeros _ g MD) as (r & ES & Y & MO & D & TM).
  rewrite (denote_dt_unfold s (g_y g) (g_mo g) (g_d g) r) by (try rewrite chomp_is_strip_nl; try exact ES; lia).
  rewrite ES in P. cbn [d4 d2 app] in P. rewrite !plain_cons in P. do 8 (apply andb_true_iff in P as [_ P]).
  destruct (dt_add_us_inv _ _ _ AD) as [RG UG].
  unfold groups_time, groups_ms, conv_fields in *.
  destruct (g_time g) as [[[h mi] sec]|] eqn:GT.
  - destruct TM as [RNE MH].
    set (v := mkdtf (Z.of_N (g_y g)) (Z.of_N (g_mo g)) (Z.of_N (g_d g)) (Z.of_N h) (Z.of_N mi) (Z.of_N sec)
                    (Z.of_N (1000 * match g_ms g with Some n => n | None => 0 end))) in *.
    pose proof V as V'. apply valid_fields_iff in V'. unfold v in V'. cbn [f_y f_mo f_d f_h f_mi f_s f_us] in V'.
    rewrite <- civil_dim_is_days_in_month in V' by lia.
    match goal with |- (if ?b then _ else _) = _ => destruct b eqn:G end; [lia|]. cbv zeta.
    destruct r as [|c r]; [congruence|].
    rewrite (match_hms_denote (c :: r) h mi sec (g_ms g) (g_br g) off P MH ltac:(lia) PO).
    assert (EU : us_of_fields v = ((civil_ord (Z.of_N (g_y g)) (Z.of_N (g_mo g)) (Z.of_N (g_d g)) - 1) * US_DAY
                 + (Z.of_N h * 3600000000 + Z.of_N mi * 60000000 + Z.of_N sec * 1000000
                    + Z.of_N (match g_ms g with Some m => m | None => 0 end) * 1000))%Z).
    { rewrite us_of_fields_civil by (unfold v; cbn [f_mo]; lia). unfold v, civil_us. cbn [f_y f_mo f_d f_h f_mi f_s f_us]. unfold US_DAY. lia. }
    rewrite UG, EU. clear - RG EU.
    match goal with |- (if ?b then _ else _) = _ => destruct b eqn:RB end.
    + f_equal. lia.
    + exfalso. rewrite EU in RG. lia.
  - destruct TM as (-> & GM & GB). rewrite GM in *. rewrite GB in PO. cbn in PO. apply OK_inj in PO. subst off.
    set (v := mkdtf (Z.of_N (g_y g)) (Z.of_N (g_mo g)) (Z.of_N (g_d g)) (Z.of_N 0) (Z.of_N 0) (Z.of_N 0) (Z.of_N (1000 * 0))) in *.
    pose proof V as V'. apply valid_fields_iff in V'. unfold v in V'. cbn [f_y f_mo f_d f_h f_mi f_s f_us] in V'.
    rewrite <- civil_dim_is_days_in_month in V' by lia.
    match goal with |- (if ?b then _ else _) = _ => destruct b eqn:G end; [lia|]. cbv zeta.
    f_equal. rewrite UG. rewrite us_of_fields_civil by (unfold v; cbn [f_mo]; lia). unfold v, civil_us.
    cbn [f_y f_mo f_d f_h f_mi f_s f_us]. unfold US_DAY. lia.
Qed.
End Tables.
