(** DateTimeM, part 3 (writing): [format_datetime] produces the one written notation
    [YYYYMMDD]HHMMSS.XXX[+-h[.mm][:name]] ([dt_unconvert_shape_l], [tm_unconvert_shape_l]); reading it back gives the
    original instant to within half a millisecond ([dt_roundtrip_half_ms_l], [tm_roundtrip_half_ms_l]), the
    carries of the rounding included; naive values are refused both ways. *)
From OfxV Require Import Base.Prelude Base.Digits Model.Calendar Model.DateTimeM Model.DateTimeMCases
  Proofs.CalendarProofs Proofs.DateTimeMDigits Proofs.DateTimeMRead.
From Coq Require Import ZifyBool ZifyN ZifyNat.
Local Open Scope Z_scope.
Ltac Zify.zify_post_hook ::= Z.to_euclidean_division_equations.

(** ---- ordinals grow with the year ---- *)
Lemma dby_succ y : days_before_year (y + 1) = days_before_year y + 365 + (if is_leap y then 1 else 0).
Proof.
  unfold days_before_year, is_leap.
  destruct (y mod 4 =? 0) eqn:E4; destruct (y mod 100 =? 0) eqn:E100; destruct (y mod 400 =? 0) eqn:E400;
    cbn [andb orb negb]; lia.
Qed.
Lemma dby_mono y1 y2 : y1 <= y2 -> days_before_year y1 <= days_before_year y2.
Proof. unfold days_before_year. lia. Qed.
Lemma ymd2ord_bounds y m d : 1 <= m <= 12 -> 1 <= d <= days_in_month y m ->
  days_before_year y + 1 <= ymd2ord y m d <= days_before_year (y + 1).
Proof.
  intros M D. rewrite dby_succ. unfold ymd2ord, days_before_month.
  assert (m = 1 \/ m = 2 \/ m = 3 \/ m = 4 \/ m = 5 \/ m = 6 \/ m = 7 \/ m = 8 \/ m = 9 \/ m = 10 \/ m = 11 \/ m = 12) as C by lia.
  repeat (destruct C as [-> | C]); try subst m; unfold days_in_month, dbm_table in *;
    cbn [Z.eqb Z.ltb Z.compare Pos.eqb Pos.compare Pos.compare_cont orb andb] in *; destruct (is_leap y); lia.
Qed.
Lemma year_of_us_lower f y0 : valid_fields f = true -> y0 <= f_y f -> days_before_year y0 * US_DAY <= us_of_fields f.
Proof.
  intros V Y. apply valid_fields_iff in V. destruct V as ((_ & M & D) & H & MI & S & U).
  pose proof (ymd2ord_bounds _ _ _ M D) as B. pose proof (dby_mono _ _ Y).
  unfold us_of_fields, US_DAY. lia.
Qed.
Lemma year_of_us_upper f y0 : valid_fields f = true -> f_y f <= y0 -> us_of_fields f < days_before_year (y0 + 1) * US_DAY.
Proof.
  intros V Y. apply valid_fields_iff in V. destruct V as ((_ & M & D) & H & MI & S & U).
  pose proof (ymd2ord_bounds _ _ _ M D) as B. pose proof (dby_mono (f_y f + 1) (y0 + 1) ltac:(lia)).
  unfold us_of_fields, US_DAY. lia.
Qed.

(** ---- the offset the writer produces ---- *)
Definition written_off (off : Z) (name : option text) : offspec :=
  let m := off / 60 in let a := Z.to_N (Z.abs m) in
  mkoff (if m <? 0 then SMinus else SPlus) (a / 60)%N (if (a mod 60 =? 0)%N then None else Some (a mod 60)%N) name.
Lemma offset_text_is off name : offset_text off name = bracket_inner (written_off off name).
Proof.
  unfold offset_text, bracket_inner, hours_text, written_off. cbn [o_sign o_hh o_mm o_name].
  destruct (off / 60 <? 0); cbn [sign_text]; rewrite <- !app_assoc; do 2 f_equal;
    destruct (Z.to_N (Z.abs (off / 60)) mod 60 =? 0)%N; cbn [mm_text]; destruct name; reflexivity.
Qed.
Lemma written_off_seconds offmin name : -1440 < offmin < 1440 -> off_seconds (written_off (offmin * 60) name) = offmin * 60.
Proof.
  intro R. unfold off_seconds, written_off, o_mmv. cbn [o_sign o_hh o_mm].
  replace (offmin * 60 / 60) with offmin by lia.
  destruct (offmin <? 0) eqn:E; destruct (Z.to_N (Z.abs offmin) mod 60 =? 0)%N eqn:E0; lia.
Qed.

Section Tables.
Variable zeros : list N.
Variable tzs : list (text * Z).
Hypothesis Hz : ascii_zeros zeros = true.

(** the zone name of a written value can be read back: newline-free, and not two decimal digits (then end or colon)
    directly after whole hours *)
Definition name_readable (offmin : Z) (name : option text) : Prop :=
  forall n, name = Some n -> no_nl n /\ (offmin mod 60 = 0 -> minutes_like zeros n = false).
Lemma written_off_ok offmin name : -720 <= offmin <= 840 -> name_readable offmin name ->
  off_ok zeros (written_off (offmin * 60) name).
Proof.
  intros R NR. unfold off_ok, written_off, o_mmv. cbn [o_sign o_hh o_mm o_name].
  replace (offmin * 60 / 60) with offmin by lia.
  repeat split.
  - intros m. destruct (Z.to_N (Z.abs offmin) mod 60 =? 0)%N; [discriminate|]. intro E. injection E as <-. lia.
  - destruct (offmin <? 0) eqn:E; destruct (Z.to_N (Z.abs offmin) mod 60 =? 0)%N eqn:E0; lia.
  - intros n E. apply (NR n E).
  - destruct (Z.to_N (Z.abs offmin) mod 60 =? 0)%N eqn:E0; [|discriminate]. intros _ n E. apply (NR n E). lia.
Qed.

(** ---- what the writer produces, as a rendering ---- *)
Definition written_time (b : dtf) (off : Z) (name : option text) : time_spec :=
  (Z.to_N (f_h b), Z.to_N (f_mi b), Z.to_N (f_s b), Some (Z.to_N (f_us b / 1000)), Some (written_off off name)).
Lemma time_text_is b off name :
  (time_text b ++ 91%N :: offset_text off name ++ [93%N])%list = time_render (written_time b off name).
Proof.
  unfold time_text, time_render, written_time, hms_text, ms_text, br_text, bracket_text.
  rewrite offset_text_is. rewrite <- !app_assoc. reflexivity.
Qed.

Lemma dt_unconvert_render v off :
  a_off v = Some off -> valid_fields (a_f v) = true -> 1000 <= f_y (a_f v) <= 9998 ->
  exists b, dt_add_us (a_f v) 500 = OK b /\ us_of_fields b = us_of_fields (a_f v) + 500 /\ valid_fields b = true
    /\ 1000 <= f_y b <= 9999
    /\ dt_unconvert v = OK (render_dt (Z.to_N (f_y b)) (Z.to_N (f_mo b)) (Z.to_N (f_d b))
                                      (Some (written_time b off (a_name v)))).
Proof.
  intros O V Y.
  pose proof (year_of_us_lower _ 1000 V ltac:(lia)) as L. pose proof (year_of_us_upper _ 9998 V ltac:(lia)) as U.
  change (days_before_year 1000) with 364877 in L. change (days_before_year (9998 + 1)) with 3651694 in U.
  assert (RR : 0 <= us_of_fields (a_f v) + 500 < MAXORDINAL * US_DAY) by (unfold MAXORDINAL, US_DAY in *; lia).
  destruct (dt_add_us_ok _ 500 V RR) as (b & B1 & B2 & B3).
  exists b. split; [exact B1|]. split; [exact B2|]. split; [exact B3|].
  assert (YB : 1000 <= f_y b <= 9999).
  { split.
    - destruct (Z_le_gt_dec 1000 (f_y b)) as [|G]; [assumption|exfalso].
      pose proof (year_of_us_upper _ 999 B3 ltac:(lia)) as UB. change (days_before_year (999 + 1)) with 364877 in UB. lia.
    - apply valid_fields_iff in B3. lia. }
  split; [exact YB|].
  unfold dt_unconvert, format_datetime. rewrite O, B1. cbn [bind]. f_equal.
  unfold date_text, render_dt. rewrite year_text by lia. rewrite time_text_is. rewrite <- !app_assoc. reflexivity.
Qed.

(** the written text has the shape YYYYMMDDHHMMSS.XXX[+-h[.mm][:name]] *)
Theorem dt_unconvert_shape_l v off :
  a_off v = Some off -> valid_fields (a_f v) = true -> 1000 <= f_y (a_f v) <= 9998 ->
  exists y mo d h mi s ms hh sg mm,
    dt_unconvert v = OK (render_dt y mo d (Some (h, mi, s, Some ms, Some (mkoff sg hh mm (a_name v)))))
    /\ (1000 <= y <= 9999 /\ 1 <= mo <= 12 /\ 1 <= d <= 31 /\ h < 24 /\ mi < 60 /\ s < 60 /\ ms < 1000)%N
    /\ (sg = SPlus \/ sg = SMinus) /\ (forall m, mm = Some m -> 1 <= m < 60)%N.
Proof.
  intros O V Y. destruct (dt_unconvert_render v off O V Y) as (b & _ & _ & B3 & YB & E).
  apply valid_fields_iff in B3. destruct B3 as ((_ & M & D) & H & MI & S & U).
  assert (D31 : days_in_month (f_y b) (f_mo b) <= 31).
  { unfold days_in_month. destruct (f_mo b =? 2); [destruct (is_leap (f_y b))|destruct (_ || _)]; lia. }
  do 10 eexists. split; [exact E|]. split; [lia|]. split.
  - unfold written_off. cbn [o_sign]. destruct (off / 60 <? 0); auto.
  - intros m. destruct (Z.to_N (Z.abs (off / 60)) mod 60 =? 0)%N eqn:E0; [discriminate|]. intro EE. injection EE as <-. lia.
Qed.

(** write, read: the instant comes back to within half a millisecond, whatever the carry *)
Theorem dt_roundtrip_half_ms_l v offmin :
  a_off v = Some (offmin * 60) -> -720 <= offmin <= 840 -> valid_fields (a_f v) = true -> 1000 <= f_y (a_f v) <= 9998 ->
  name_readable offmin (a_name v) ->
  exists t f, dt_unconvert v = OK t /\ dt_convert zeros tzs t = OK f /\ valid_fields f = true
    /\ Z.abs (us_of_fields f - instant_us v) <= 500 /\ us_of_fields f mod 1000 = 0.
Proof.
  intros O R V Y NR. destruct (dt_unconvert_render v _ O V Y) as (b & _ & B2 & B3 & YB & E).
  pose proof B3 as B3'. apply valid_fields_iff in B3'. destruct B3' as ((_ & M & D) & H & MI & S & U).
  pose proof (written_off_ok offmin (a_name v) R NR) as OK1.
  set (t := written_time b (offmin * 60) (a_name v)) in *.
  assert (TK : time_ok zeros t).
  { unfold t, written_time, time_ok. split; [lia|]. split; [lia|]. split; [lia|]. split.
    - intros m Em. injection Em as <-. lia.
    - intros o Eo. injection Eo as <-. exact OK1. }
  assert (DK : date_ok (Z.to_N (f_y b)) (Z.to_N (f_mo b)) (Z.to_N (f_d b))).
  { unfold date_ok. rewrite !Z2N.id by lia. rewrite civil_dim_is_days_in_month by lia. lia. }
  assert (DEN : dt_denoted (Z.to_N (f_y b)) (Z.to_N (f_mo b)) (Z.to_N (f_d b)) (Some t)
                = us_of_fields b - f_us b mod 1000 - offmin * 60 * 1000000).
  { rewrite (us_of_fields_civil b) by lia. unfold dt_denoted, t, written_time, time_denoted, civil_us, msv, brv.
    rewrite written_off_seconds by lia. rewrite !Z2N.id by lia. unfold US_DAY. lia. }
  pose proof (year_of_us_lower _ 1000 B3 ltac:(lia)) as L. pose proof (year_of_us_upper _ 9998 V ltac:(lia)) as UU.
  change (days_before_year 1000) with 364877 in L. change (days_before_year (9998 + 1)) with 3651694 in UU.
  assert (RR : 0 <= dt_denoted (Z.to_N (f_y b)) (Z.to_N (f_mo b)) (Z.to_N (f_d b)) (Some t) < MAXORDINAL * US_DAY).
  { rewrite DEN. unfold MAXORDINAL, US_DAY in *. lia. }
  destruct (dt_convert_denotes_l zeros tzs Hz _ _ _ (Some t) DK ltac:(intros t' Et; injection Et as <-; exact TK) RR) as (f & F1 & F2 & F3).
  exists (render_dt (Z.to_N (f_y b)) (Z.to_N (f_mo b)) (Z.to_N (f_d b)) (Some t)), f.
  split; [exact E|]. split; [exact F1|]. split; [exact F3|].
  rewrite F2, DEN. unfold instant_us. rewrite O.
  assert (MS : us_of_fields b mod 1000 = f_us b mod 1000) by (unfold us_of_fields; lia).
  split; lia.
Qed.

(** ---- Time ---- *)
Definition tm_fields (v : aware) : dtf := let f := a_f v in mkdtf 1999 6 8 (f_h f) (f_mi f) (f_s f) (f_us f).
Definition time_valid (f : dtf) : Prop := 0 <= f_h f < 24 /\ 0 <= f_mi f < 60 /\ 0 <= f_s f < 60 /\ 0 <= f_us f < 1000000.
(** circular distance on the 24-hour dial at most half a millisecond *)
Definition dial_close (a b : Z) : Prop := (a - b + 500) mod US_DAY <= 1000.

Lemma tm_unconvert_render v off : a_off v = Some off -> time_valid (a_f v) ->
  exists b, dt_add_us (tm_fields v) 500 = OK b /\ us_of_fields b = us_of_fields (tm_fields v) + 500 /\ valid_fields b = true
    /\ tm_unconvert v = OK (time_render (written_time b off (a_name v))).
Proof.
  intros O (H & MI & S & U).
  assert (V : valid_fields (tm_fields v) = true).
  { apply valid_fields_iff. unfold tm_fields. cbn [f_y f_mo f_d f_h f_mi f_s f_us]. vm_compute days_in_month. lia. }
  pose proof (us_of_fields_tod (tm_fields v)) as UV. pose proof (tod_range _ V) as TV.
  change (ymd2ord (f_y (tm_fields v)) (f_mo (tm_fields v)) (f_d (tm_fields v))) with 729913 in UV.
  assert (RR : 0 <= us_of_fields (tm_fields v) + 500 < MAXORDINAL * US_DAY) by (rewrite UV; unfold MAXORDINAL, US_DAY in *; lia).
  destruct (dt_add_us_ok _ 500 V RR) as (b & B1 & B2 & B3).
  exists b. repeat split; try assumption.
  unfold tm_unconvert, format_datetime. cbn [a_off a_f a_name]. fold (tm_fields v). rewrite O, B1. cbn [bind app].
  f_equal. apply time_text_is.
Qed.

Theorem tm_unconvert_shape_l v off : a_off v = Some off -> time_valid (a_f v) ->
  exists h mi s ms hh sg mm,
    tm_unconvert v = OK (time_render (h, mi, s, Some ms, Some (mkoff sg hh mm (a_name v))))
    /\ (h < 24 /\ mi < 60 /\ s < 60 /\ ms < 1000)%N
    /\ (sg = SPlus \/ sg = SMinus) /\ (forall m, mm = Some m -> 1 <= m < 60)%N.
Proof.
  intros O TV. destruct (tm_unconvert_render v off O TV) as (b & _ & _ & B3 & E).
  apply valid_fields_iff in B3. destruct B3 as (_ & H & MI & S & U).
  do 7 eexists. split; [exact E|]. split; [lia|]. split.
  - unfold written_off. cbn [o_sign]. destruct (off / 60 <? 0); auto.
  - intros m. destruct (Z.to_N (Z.abs (off / 60)) mod 60 =? 0)%N eqn:E0; [discriminate|]. intro EE. injection EE as <-. lia.
Qed.

Theorem tm_roundtrip_half_ms_l v offmin :
  a_off v = Some (offmin * 60) -> -720 <= offmin <= 840 -> time_valid (a_f v) -> name_readable offmin (a_name v) ->
  exists t f, tm_unconvert v = OK t /\ tm_convert zeros tzs t = OK f
    /\ dial_close (tod_us f) (tod_us (a_f v) - offmin * 60 * 1000000) /\ tod_us f mod 1000 = 0.
Proof.
  intros O R TV NR. destruct (tm_unconvert_render v _ O TV) as (b & _ & B2 & B3 & E).
  pose proof B3 as B3'. apply valid_fields_iff in B3'. destruct B3' as (_ & H & MI & S & U).
  pose proof (written_off_ok offmin (a_name v) R NR) as OK1.
  set (t := written_time b (offmin * 60) (a_name v)) in *.
  assert (TK : time_ok zeros t).
  { unfold t, written_time, time_ok. split; [lia|]. split; [lia|]. split; [lia|]. split.
    - intros m Em. injection Em as <-. lia.
    - intros o Eo. injection Eo as <-. exact OK1. }
  destruct (tm_convert_denotes_l zeros tzs Hz t TK) as (f & F1 & F2 & F3).
  exists (time_render t), f. split; [exact E|]. split; [exact F1|].
  assert (DEN : time_denoted t = tod_us b - f_us b mod 1000 - offmin * 60 * 1000000).
  { unfold t, written_time, time_denoted, tod_us, msv, brv. rewrite written_off_seconds by lia. rewrite !Z2N.id by lia. lia. }
  pose proof (us_of_fields_tod b) as UB. pose proof (us_of_fields_tod (tm_fields v)) as UV.
  pose proof (tod_range b B3) as TB.
  assert (TVV : tod_us (tm_fields v) = tod_us (a_f v)) by reflexivity.
  assert (TR : 0 <= tod_us (a_f v) < US_DAY) by (destruct TV as (? & ? & ? & ?); unfold tod_us, US_DAY; lia).
  change (ymd2ord (f_y (tm_fields v)) (f_mo (tm_fields v)) (f_d (tm_fields v))) with 729913 in UV.
  assert (MS : tod_us b mod 1000 = f_us b mod 1000) by (unfold tod_us; lia).
  set (ob := ymd2ord (f_y b) (f_mo b) (f_d b)) in *.
  unfold dial_close. rewrite F2, DEN. unfold US_DAY in *. split; lia.
Qed.

(** ---- naive values ---- *)
Lemma dt_naive_refused_l v : a_off v = None ->
  dt_unconvert v = Err Reject /\ tm_unconvert v = Err Reject /\ dt_convert_value v = Err Reject.
Proof.
  intro O. unfold dt_unconvert, tm_unconvert, format_datetime, dt_convert_value. cbn [a_off]. rewrite O. auto.
Qed.
Lemma dt_aware_value_kept v off : a_off v = Some off -> dt_convert_value v = OK v.
Proof. intro O. unfold dt_convert_value. rewrite O. reflexivity. Qed.
End Tables.
