(** C01/C13, part 4: children that are "good" for the reader (tag of a defined attribute, value available) and the fold over them. *)
From OfxV Require Import Base.Prelude Model.Schema Model.SchemaWf Model.Convert Proofs.ConvertSound Proofs.ConvertUnknown Proofs.ConvertPlaces
     Proofs.RoundTrip1 Proofs.RoundTrip2 Proofs.RoundTrip3.
From Coq Require Import Lia.
Local Open Scope string_scope.

Section RT4.
  Variable sval : Type.
  Variable conv : N -> sin sval -> result (option sval).
  Variable S : schema.
  Notation inst := (inst sval).
  Notation kwval := (kwval sval).
  Notation step := (step sval).
  Notation spec3 := (string * attr * kwval)%type.

  (** child [e] carries the tag of attribute [k] declared [a], and denotes [v] *)
  Definition good (fe : etree -> result (inst * list string)) (c : cinfo) (e : etree) (s : spec3) : Prop :=
    match s with
    | (k, a, v) =>
      has_dot (etag e) = false /\ lower (etag e) = k /\ (exists idx, index_of k (map fst (ci_spec c)) = Some idx) /\ assoc k (ci_spec c) = Some a
      /\ entry_value sval fe (k, a, e, false) = OK v /\ quiet sval fe (k, a, e, false)
    end.
  Definition sargs (l : list spec3) : list kwval := flat_map (fun s => match s with (_, a, v) => if is_list_attr a then [v] else [] end) l.
  Definition skw (l : list spec3) : list (string * kwval) := flat_map (fun s => match s with (k, a, v) => if is_list_attr a then [] else [(k, v)] end) l.
  Definition sidx (c : cinfo) (k : string) : nat := match index_of k (map fst (ci_spec c)) with Some i => i | None => 0 end.
  Fixpoint schain (c : cinfo) (p : nat) (pl : bool) (l : list spec3) : Prop :=
    match l with
    | [] => True
    | (k, a, _) :: r => (p <= sidx c k \/ (is_list_attr a = true /\ pl = true))%nat /\ schain c (Datatypes.S (sidx c k)) (is_list_attr a) r
    end.

  Lemma goods_entries fe c : ci_rename c = None -> forall ch specs, Forall2 (good fe c) ch specs ->
    forall rn,
      all_known c rn ch = true
      /\ Convert.map_res (entry_value sval fe) (entries c rn ch) = OK (map (fun s : spec3 => snd s) specs)
      /\ Forall (quiet sval fe) (entries c rn ch)
      /\ zip_args sval (entries c rn ch) (map (fun s : spec3 => snd s) specs) = sargs specs
      /\ zip_kw sval (entries c rn ch) (map (fun s : spec3 => snd s) specs) = skw specs
      /\ (forall p pl, schain c p pl specs -> chain c p pl (entries c rn ch)).
  Proof.
    intros Hr ch specs F. induction F as [|e [[k a] v] ch specs Hg F IH]; intro rn.
    - cbn. repeat split; auto.
    - destruct Hg as (Hd & Hl & (idx & Hi) & Ha & Hv & Hq).
      cbn [all_known entries]. unfold groomed_tag. rewrite Hr, Hd, Hl, Hi, Ha. rewrite String.eqb_refl. cbn [negb andb].
      destruct (IH rn) as (I1 & I2 & I3 & I4 & I5 & I6).
      split; [exact I1|]. split; [|split; [|split; [|split]]].
      + cbn [Convert.map_res map snd]. rewrite Hv. cbn [bind]. rewrite I2. reflexivity.
      + constructor; assumption.
      + cbn [zip_args map snd is_list_entry sargs flat_map]. rewrite I4. destruct (is_list_attr a); reflexivity.
      + cbn [zip_kw map snd is_list_entry skw flat_map entry_name]. rewrite I5. destruct (is_list_attr a); reflexivity.
      + intros p pl [H1 H2]. cbn [chain]. unfold eidx. cbn [entry_name is_list_entry]. unfold sidx in H1, H2. split; [exact H1|apply I6; exact H2].
  Qed.

  (** the reader's fold over good children accumulates exactly their values, without warning *)
  Lemma goods_fold fe c ch specs args0 kw0 p0 pl0 ws0 rn0 :
    ci_rename c = None -> Forall2 (good fe c) ch specs -> schain c p0 pl0 specs ->
    NoDup (map fst (skw specs)) -> (forall k, In k (map fst (skw specs)) -> kw_has sval kw0 k = false) ->
    exists p pl rn,
      fold_left (step fe c) ch (OK (args0, kw0, p0, pl0, ws0, rn0))
      = OK ((rev (sargs specs) ++ args0)%list, (rev (skw specs) ++ kw0)%list, p, pl, ws0, rn).
  Proof.
    intros Hr F Hc Hnd Hfresh. destruct (goods_entries fe c Hr ch specs F rn0) as (I1 & I2 & I3 & I4 & I5 & I6).
    destruct (fold_complete sval fe c ch rn0 args0 kw0 p0 pl0 ws0 _ I1 I2 I3 (I6 _ _ Hc)) as (p & pl & rn & Hf).
    - rewrite I5. exact Hnd.
    - rewrite I5. exact Hfresh.
    - exists p, pl, rn. rewrite Hf, I4, I5. reflexivity.
  Qed.

  Lemma forall2_app {A B} (R : A -> B -> Prop) l1 l1' l2 l2' : Forall2 R l1 l1' -> Forall2 R l2 l2' -> Forall2 R (l1 ++ l2) (l1' ++ l2').
  Proof. intros F1 F2. induction F1; cbn [app]; [exact F2|constructor; assumption]. Qed.

  Lemma schain_app c : forall l1 l2 p pl, schain c p pl l1 ->
    (forall p' pl', (match l1 with [] => p' = p /\ pl' = pl | _ => True end) ->
                    (forall k a v, last l1 (k, a, v) = (k, a, v) -> l1 <> [] -> p' = Datatypes.S (sidx c k) /\ pl' = is_list_attr a) -> schain c p' pl' l2) ->
    schain c p pl (l1 ++ l2).
  Proof.
    induction l1 as [|[[k a] v] l1 IH]; intros l2 p pl H1 H2; cbn [app].
    - apply H2; [split; reflexivity|]. intros k a v _ Hne. exfalso. apply Hne. reflexivity.
    - cbn [schain] in *. destruct H1 as [Ha Hb]. split; [exact Ha|]. apply IH; [exact Hb|].
      intros p' pl' Hm Hlast. apply H2; [exact I|]. intros k0 a0 v0 Hl _.
      destruct l1 as [|x l1'].
      + cbn in Hl. injection Hl as <- <- <-. destruct Hm as [-> ->]. split; reflexivity.
      + apply (Hlast k0 a0 v0); [|discriminate]. cbn [last] in Hl |- *. exact Hl.
  Qed.
End RT4.
