(** C01/C13, part 4: children that are "good" for the reader (tag of a defined attribute, value available) and the fold over them. *)
From OfxV Require Import Base.Prelude Model.Schema Model.SchemaWf Model.Convert Proofs.ConvertSound Proofs.ConvertUnknown Proofs.ConvertPlaces
     Proofs.RoundTrip1 Proofs.RoundTrip2 Proofs.RoundTrip3.
From Coq Require Import Lia.
Local Open Scope string_scope.

Section RT4.
  Variable sval : Type.
  Variable conv : N -> sin sval -> result (option sval).
  Variable S : schema.
  Notation inst := (inst sval).
  Notation kwval := (kwval sval).
  Notation step := (step sval).
  Notation spec3 := (string * attr * kwval)%type.

  (** child [e] carries the tag of attribute [k] declared [a], and denotes [v] *)
  Definition good (fe : etree -> result (inst * list string)) (c : cinfo) (e : etree) (s : spec3) : Prop :=
    match s with
    | (k, a, v) =>
      has_dot (etag e) = false /\ lower (etag e) = k /\ (exists idx, index_of k (map fst (ci_spec c)) = Some idx) /\ assoc k (ci_spec c) = Some a
      /\ entry_value sval fe (k, a, e, false) = OK v /\ quiet sval fe (k, a, e, false)
      /\ match a with AElem _ _ | AListElem _ => text_truthy (etext e) = true | _ => True end
    end.
  Definition sargs (l : list spec3) : list kwval := flat_map (fun s => match s with (_, a, v) => if is_list_attr a then [v] else [] end) l.
  Definition skw (l : list spec3) : list (string * kwval) := flat_map (fun s => match s with (k, a, v) => if is_list_attr a then [] else [(k, v)] end) l.
  Definition sidx (c : cinfo) (k : string) : nat := match index_of k (map fst (ci_spec c)) with Some i => i | None => 0 end.
  Fixpoint schain (c : cinfo) (p : nat) (pl : bool) (l : list spec3) : Prop :=
    match l with
    | [] => True
    | (k, a, _) :: r => (p <= sidx c k \/ (is_list_attr a = true /\ pl = true))%nat /\ schain c (Datatypes.S (sidx c k)) (is_list_attr a) r
    end.

  Lemma goods_entries fe c : ci_rename c = None -> forall ch specs, Forall2 (good fe c) ch specs ->
    forall rn,
      all_known c rn ch = true
      /\ Convert.map_res (entry_value sval fe) (entries c rn ch) = OK (map (fun s : spec3 => snd s) specs)
      /\ Forall (quiet sval fe) (entries c rn ch)
      /\ zip_args sval (entries c rn ch) (map (fun s : spec3 => snd s) specs) = sargs specs
      /\ zip_kw sval (entries c rn ch) (map (fun s : spec3 => snd s) specs) = skw specs
      /\ (forall p pl, schain c p pl specs -> chain c p pl (entries c rn ch)).
  Proof.
    intros Hr ch specs F. induction F as [|e [[k a] v] ch specs Hg F IH]; intro rn.
    - cbn. repeat split; auto.
    - destruct Hg as (Hd & Hl & (idx & Hi) & Ha & Hv & Hq & _).
      cbn [all_known entries]. unfold groomed_tag. rewrite Hr, Hd, Hl, Hi, Ha. rewrite String.eqb_refl. cbn [negb andb].
      destruct (IH rn) as (I1 & I2 & I3 & I4 & I5 & I6).
      split; [exact I1|]. split; [|split; [|split; [|split]]].
      + cbn [Convert.map_res map snd]. rewrite Hv. cbn [bind]. rewrite I2. reflexivity.
      + constructor; assumption.
      + cbn [zip_args map snd is_list_entry sargs flat_map]. rewrite I4. destruct (is_list_attr a); reflexivity.
      + cbn [zip_kw map snd is_list_entry skw flat_map entry_name]. rewrite I5. destruct (is_list_attr a); reflexivity.
      + intros p pl [H1 H2]. cbn [chain]. unfold eidx. cbn [entry_name is_list_entry]. unfold sidx in H1, H2. split; [exact H1|apply I6; exact H2].
  Qed.

  (** the reader's fold over good children accumulates exactly their values, without warning *)
  Lemma goods_fold fe c ch specs args0 kw0 p0 pl0 ws0 rn0 :
    ci_rename c = None -> Forall2 (good fe c) ch specs -> schain c p0 pl0 specs ->
    NoDup (map fst (skw specs)) -> (forall k, In k (map fst (skw specs)) -> kw_has sval kw0 k = false) ->
    exists p pl rn,
      fold_left (step fe c) ch (OK (args0, kw0, p0, pl0, ws0, rn0))
      = OK ((rev (sargs specs) ++ args0)%list, (rev (skw specs) ++ kw0)%list, p, pl, ws0, rn).
  Proof.
    intros Hr F Hc Hnd Hfresh. destruct (goods_entries fe c Hr ch specs F rn0) as (I1 & I2 & I3 & I4 & I5 & I6).
    destruct (fold_complete sval fe c ch rn0 args0 kw0 p0 pl0 ws0 _ I1 I2 I3 (I6 _ _ Hc)) as (p & pl & rn & Hf).
    - rewrite I5. exact Hnd.
    - rewrite I5. exact Hfresh.
    - exists p, pl, rn. rewrite Hf, I4, I5. reflexivity.
  Qed.


  (** the same, for a child list read under a groom rename: the renamed flag is threaded; the first child carrying the wire tag is
      read under the python tag *)
  Inductive goods (fe : etree -> result (inst * list string)) (c : cinfo) : bool -> list etree -> list spec3 -> Prop :=
  | goods_nil rn : goods fe c rn [] []
  | goods_cons rn rn' e ch k a v specs tag idx :
      groomed_tag c rn (etag e) = (tag, rn') -> has_dot tag = false -> lower tag = k ->
      index_of k (map fst (ci_spec c)) = Some idx -> assoc k (ci_spec c) = Some a ->
      entry_value sval fe (k, a, e, negb (String.eqb tag (etag e))) = OK v ->
      quiet sval fe (k, a, e, negb (String.eqb tag (etag e))) ->
      goods fe c rn' ch specs -> goods fe c rn (e :: ch) ((k, a, v) :: specs).

  Lemma goods_entries' fe c : forall rn ch specs, goods fe c rn ch specs ->
      all_known c rn ch = true
      /\ Convert.map_res (entry_value sval fe) (entries c rn ch) = OK (map (fun s : spec3 => snd s) specs)
      /\ Forall (quiet sval fe) (entries c rn ch)
      /\ zip_args sval (entries c rn ch) (map (fun s : spec3 => snd s) specs) = sargs specs
      /\ zip_kw sval (entries c rn ch) (map (fun s : spec3 => snd s) specs) = skw specs
      /\ (forall p pl, schain c p pl specs -> chain c p pl (entries c rn ch)).
  Proof.
    intros rn ch specs G. induction G as [rn|rn rn' e ch k a v specs tag idx Hg Hd Hl Hi Ha Hv Hq G IH].
    - cbn. repeat split; auto.
    - cbn [all_known entries]. rewrite Hg, Hd, Hl, Hi, Ha. cbn [negb andb].
      destruct IH as (I1 & I2 & I3 & I4 & I5 & I6).
      split; [exact I1|]. split; [|split; [|split; [|split]]].
      + cbn [Convert.map_res map snd]. rewrite Hv. cbn [bind]. rewrite I2. reflexivity.
      + constructor; assumption.
      + cbn [zip_args map snd is_list_entry sargs flat_map]. rewrite I4. destruct (is_list_attr a); reflexivity.
      + cbn [zip_kw map snd is_list_entry skw flat_map entry_name]. rewrite I5. destruct (is_list_attr a); reflexivity.
      + intros p pl [H1 H2]. cbn [chain]. unfold eidx. cbn [entry_name is_list_entry]. unfold sidx in H1, H2. split; [exact H1|apply I6; exact H2].
  Qed.

  Lemma goods_fold' fe c ch specs args0 kw0 p0 pl0 ws0 rn0 :
    goods fe c rn0 ch specs -> schain c p0 pl0 specs ->
    NoDup (map fst (skw specs)) -> (forall k, In k (map fst (skw specs)) -> kw_has sval kw0 k = false) ->
    exists p pl rn,
      fold_left (step fe c) ch (OK (args0, kw0, p0, pl0, ws0, rn0))
      = OK ((rev (sargs specs) ++ args0)%list, (rev (skw specs) ++ kw0)%list, p, pl, ws0, rn).
  Proof.
    intros G Hc Hnd Hfresh. destruct (goods_entries' fe c rn0 ch specs G) as (I1 & I2 & I3 & I4 & I5 & I6).
    destruct (fold_complete sval fe c ch rn0 args0 kw0 p0 pl0 ws0 _ I1 I2 I3 (I6 _ _ Hc)) as (p & pl & rn & Hf).
    - rewrite I5. exact Hnd.
    - rewrite I5. exact Hfresh.
    - exists p, pl, rn. rewrite Hf, I4, I5. reflexivity.
  Qed.

  (** children whose tags the (possible) rename leaves alone *)
  Lemma goods_plain fe c rn : forall ch specs, Forall2 (good fe c) ch specs ->
    (forall e, In e ch -> groomed_tag c rn (etag e) = (etag e, rn)) -> goods fe c rn ch specs.
  Proof.
    intros ch specs F. induction F as [|e [[k a] v] ch specs Hg F IH]; intro Hp; [constructor|].
    destruct Hg as (Hd & Hl & (idx & Hi) & Ha & Hv & Hq & _).
    apply (goods_cons fe c rn rn e ch k a v specs (etag e) idx); try assumption.
    - apply Hp. left. reflexivity.
    - rewrite String.eqb_refl. exact Hv.
    - rewrite String.eqb_refl. exact Hq.
    - apply IH. intros e0 Hin. apply Hp. right. exact Hin.
  Qed.

  (** after ungroom: the first child tagged with the python name carries the wire name; the reader takes it back *)
  Lemma goods_renamed fe c wire py : ci_rename c = Some (wire, py) -> wire <> py ->
    forall ch specs, Forall2 (good fe c) ch specs ->
    (forall e, In e ch -> etag e <> wire) ->
    (forall e s, In (e, s) (combine ch specs) -> etag e = py -> match s with (_, a, _) => match a with AElem _ _ | AListElem _ => True | _ => False end end) ->
    goods fe c false (rename_first py wire ch) specs.
  Proof.
    intros Hr Hne ch specs F. induction F as [|e [[k a] v] ch specs Hg F IH]; intros Hnw Hleaf; [constructor|].
    destruct e as [t x cs]. cbn [rename_first]. destruct Hg as (Hd & Hl & (idx & Hi) & Ha & Hv & Hq & Hlf). cbn [etag] in *.
    destruct (String.eqb_spec t py) as [->|Hnp].
    - (* this child is the one renamed *)
      assert (Ha' : match a with AElem _ _ | AListElem _ => True | _ => False end) by (apply (Hleaf (Node py x cs) (k, a, v)); [left; reflexivity|reflexivity]).
      assert (Htx : text_truthy x = true) by (destruct a; try contradiction; exact Hlf).
      apply (goods_cons fe c false true (Node wire x cs) ch k a v specs py idx); try assumption.
      + unfold groomed_tag. rewrite Hr. cbn [negb andb etag]. rewrite String.eqb_refl. reflexivity.
      + cbn [etag]. unfold ConvertPlaces.entry_value in *. cbn [etext] in *. destruct (is_unsup a); [exact Hv|]. rewrite Htx in *. exact Hv.
      + cbn [etag]. unfold quiet. cbn [etext]. intros _ Hf. rewrite Htx in Hf. discriminate.
      + apply goods_plain; [exact F|]. intros e0 Hin. unfold groomed_tag. rewrite Hr.
        destruct (String.eqb_spec (etag e0) wire) as [E|_]; [|reflexivity]. exfalso. apply (Hnw e0); [right; exact Hin|exact E].
    - apply (goods_cons fe c false false (Node t x cs) (rename_first py wire ch) k a v specs t idx); try assumption.
      + unfold groomed_tag. rewrite Hr. cbn [negb andb etag]. destruct (String.eqb_spec t wire) as [E|_]; [|reflexivity].
        exfalso. apply (Hnw (Node t x cs)); [left; reflexivity|exact E].
      + cbn [etag]. rewrite String.eqb_refl. exact Hv.
      + cbn [etag]. rewrite String.eqb_refl. exact Hq.
      + apply IH; [intros e0 Hin; apply Hnw; right; exact Hin|].
        intros e0 s0 Hin. apply Hleaf. right. exact Hin.
  Qed.

  Lemma forall2_app {A B} (R : A -> B -> Prop) l1 l1' l2 l2' : Forall2 R l1 l1' -> Forall2 R l2 l2' -> Forall2 R (l1 ++ l2) (l1' ++ l2').
  Proof. intros F1 F2. induction F1; cbn [app]; [exact F2|constructor; assumption]. Qed.

  Lemma schain_app c : forall l1 l2 p pl, schain c p pl l1 ->
    (forall p' pl', (match l1 with [] => p' = p /\ pl' = pl | _ => True end) ->
                    (forall k a v, last l1 (k, a, v) = (k, a, v) -> l1 <> [] -> p' = Datatypes.S (sidx c k) /\ pl' = is_list_attr a) -> schain c p' pl' l2) ->
    schain c p pl (l1 ++ l2).
  Proof.
    induction l1 as [|[[k a] v] l1 IH]; intros l2 p pl H1 H2; cbn [app].
    - apply H2; [split; reflexivity|]. intros k a v _ Hne. exfalso. apply Hne. reflexivity.
    - cbn [schain] in *. destruct H1 as [Ha Hb]. split; [exact Ha|]. apply IH; [exact Hb|].
      intros p' pl' Hm Hlast. apply H2; [exact I|]. intros k0 a0 v0 Hl _.
      destruct l1 as [|x l1'].
      + cbn in Hl. injection Hl as <- <- <-. destruct Hm as [-> ->]. split; reflexivity.
      + apply (Hlast k0 a0 v0); [|discriminate]. cbn [last] in Hl |- *. exact Hl.
  Qed.
End RT4.
