(** C01/C13, part 1: top-level mirrors of the nested fixpoints of [to_etree] and the shape of what it emits. *)
From OfxV Require Import Base.Prelude Model.Schema Model.SchemaWf Model.Convert.
From Coq Require Import Lia.
Local Open Scope string_scope.

Section RT1.
  Variable sval : Type.
  Variable conv : N -> sin sval -> result (option sval).
  Variable unconv : N -> sval -> result text.
  Variable S : schema.
  Notation inst := (inst sval).
  Notation fval := (fval sval).
  Notation member := (member sval).
  Notation to_etree := (to_etree sval unconv S).
  Notation leaf := (leaf sval unconv).

  Definition item_top (c : cinfo) (p : string * fval) : result (list etree) :=
    match p with
    | (k, FNone _) => OK []
    | (k, FSub _ j) => rmap (fun e => [e]) (to_etree j)
    | (k, FVal _ x) => match assoc k (ci_spec c) with Some (AElem t _) => leaf k t x | _ => Err Crash end
    end.
  Fixpoint items_top (c : cinfo) (l : list (string * fval)) : result (list etree) :=
    match l with [] => OK [] | p :: t => bind (item_top c p) (fun e => bind (items_top c t) (fun r => OK (e ++ r)%list)) end.
  Definition member_top (c : cinfo) (m : member) : result (list etree) :=
    match m with
    | MAgg _ j => if ci_elist c then Err Crash else rmap (fun e => [e]) (to_etree j)
    | MVal _ (Some v) => match (if ci_elist c then the_listelem c else None) with Some (k, t) => leaf k t v | None => Err Crash end
    | _ => Err Crash
    end.
  Fixpoint mems_top (c : cinfo) (l : list member) : result (list etree) :=
    match l with [] => OK [] | m :: t => bind (member_top c m) (fun e => bind (mems_top c t) (fun r => OK (e ++ r)%list)) end.
  Fixpoint emit_top (c : cinfo) (ms : list member) (l : list (string * fval)) (k : option nat) : result (list etree) :=
    match l with
    | [] => match k with Some _ => mems_top c ms | None => OK [] end
    | p :: t =>
      match k with
      | Some O => bind (mems_top c ms) (fun m => bind (item_top c p) (fun e => bind (items_top c t) (fun r => OK (m ++ e ++ r)%list)))
      | Some (Datatypes.S k') => bind (item_top c p) (fun e => bind (emit_top c ms t (Some k')) (fun r => OK (e ++ r)%list))
      | None => bind (item_top c p) (fun e => bind (emit_top c ms t None) (fun r => OK (e ++ r)%list))
      end
    end.

  Lemma to_etree_unfold cn fs ms :
    to_etree (Inst sval cn fs ms) =
    match find_cls S cn with
    | None => Err Crash
    | Some c => rmap (fun ch => Node cn None (ungroom c ch)) (emit_top c ms fs (split_at (ci_spec c)))
    end.
  Proof.
    cbn [Convert.to_etree]. destruct (find_cls S cn) as [c|]; [|reflexivity]. f_equal.
    generalize (split_at (ci_spec c)) as k.
    set (MT := fun m : member => match m with
            | MAgg _ j => if ci_elist c then Err Crash else rmap (fun e => [e]) (to_etree j)
            | MVal _ (Some v) => match (if ci_elist c then the_listelem c else None) with Some (k, t) => leaf k t v | None => Err Crash end
            | _ => Err Crash end).
    assert (Hmem : forall l, (fix mems (l : list member) : result (list etree) :=
                match l with [] => OK [] | m :: t => bind (MT m) (fun e => bind (mems t) (fun r => OK (e ++ r)%list)) end) l = mems_top c l).
    { induction l as [|m t IH]; [reflexivity|]. cbn [mems_top]. rewrite <- IH. reflexivity. }
    set (IT := fun p : string * fval => match p with
            | (k, FNone _) => OK []
            | (k, FSub _ j) => rmap (fun e => [e]) (to_etree j)
            | (k, FVal _ x) => match assoc k (ci_spec c) with Some (AElem t _) => leaf k t x | _ => Err Crash end end).
    assert (Hrest : forall l, (fix rest (l : list (string * fval)) : result (list etree) :=
                match l with [] => OK [] | p :: t => bind (IT p) (fun e => bind (rest t) (fun r => OK (e ++ r)%list)) end) l = items_top c l).
    { induction l as [|p t IH]; [reflexivity|]. cbn [items_top]. rewrite <- IH. reflexivity. }
    induction fs as [|p t IH]; intro k.
    - cbn [emit_top]. destruct k; [apply Hmem|reflexivity].
    - destruct k as [[|k']|]; cbn [emit_top].
      + rewrite <- Hmem, <- Hrest. reflexivity.
      + rewrite <- IH. reflexivity.
      + rewrite <- IH. reflexivity.
  Qed.

  Lemma items_top_app c l1 l2 a b : items_top c l1 = OK a -> items_top c l2 = OK b -> items_top c (l1 ++ l2) = OK (a ++ b)%list.
  Proof.
    revert a. induction l1 as [|p l1 IH]; intros a H1 H2; cbn [items_top app] in *.
    - injection H1 as <-. exact H2.
    - destruct (item_top c p) as [e|k]; cbn [bind] in *; [|discriminate].
      destruct (items_top c l1) as [r|k] eqn:E; cbn [bind] in *; [|discriminate].
      injection H1 as <-. rewrite (IH r eq_refl H2). cbn [bind]. rewrite app_assoc. reflexivity.
  Qed.

  (** what [emit] produces: items of the fields before the split, then all members, then items of the fields after it *)
  Lemma emit_top_split c ms : forall l k ch,
    emit_top c ms l k = OK ch ->
    match k with
    | Some n => exists a m b, items_top c (firstn n l) = OK a /\ mems_top c ms = OK m /\ items_top c (skipn n l) = OK b /\ ch = (a ++ m ++ b)%list
    | None => items_top c l = OK ch
    end.
  Proof.
    induction l as [|p t IH]; intros k ch H.
    - destruct k as [n|]; cbn [emit_top] in H.
      + exists [], ch, []. destruct n; cbn [firstn skipn items_top]; rewrite app_nil_r; repeat split; assumption.
      + exact H.
    - destruct k as [[|k']|]; cbn [emit_top] in H.
      + destruct (mems_top c ms) as [m|e] eqn:Em; cbn [bind] in H; [|discriminate].
        destruct (item_top c p) as [x|e] eqn:Ex; cbn [bind] in H; [|discriminate].
        destruct (items_top c t) as [r|e] eqn:Er; cbn [bind] in H; [|discriminate].
        injection H as <-. exists [], m, (x ++ r)%list. cbn [firstn skipn items_top]. rewrite Ex, Er. cbn [bind]. repeat split; reflexivity.
      + destruct (item_top c p) as [x|e] eqn:Ex; cbn [bind] in H; [|discriminate].
        destruct (emit_top c ms t (Some k')) as [r|e] eqn:Er; cbn [bind] in H; [|discriminate].
        injection H as <-. destruct (IH (Some k') r Er) as (a & m & b & Ha & Hm & Hb & ->).
        exists (x ++ a)%list, m, b. cbn [firstn skipn items_top]. rewrite Ex, Ha. cbn [bind]. rewrite <- app_assoc. repeat split; assumption.
      + destruct (item_top c p) as [x|e] eqn:Ex; cbn [bind] in H; [|discriminate].
        destruct (emit_top c ms t None) as [r|e] eqn:Er; cbn [bind] in H; [|discriminate].
        injection H as <-. cbn [items_top]. rewrite Ex, (IH None r Er). reflexivity.
  Qed.
End RT1.
