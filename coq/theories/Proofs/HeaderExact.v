(** C05: the closed statements - the codec hypotheses of Proofs/HeaderParse.v discharged for the three executable
    codecs (Proofs/HeaderCodec.v). *)
From OfxV Require Import Base.Prelude Base.Digits Gen.HeaderGen Model.Header Model.HeaderLayout
  Proofs.HeaderChars Proofs.HeaderMatch Proofs.HeaderV1 Proofs.HeaderInit Proofs.HeaderV2 Proofs.HeaderSound Proofs.HeaderParse Proofs.HeaderCodec.
From Coq Require Import ZifyBool ZifyN ZifyNat.
Local Open Scope N_scope.

Theorem parse_header_exact_v1_c l h cd body trail encbody :
  valid1 h = true -> lay1_ok l h = true -> body_ok body = true -> all_ws trail = true ->
  spec_codec (h1_charset h) = Some cd -> encode_opt cd (body ++ trail) = Some encbody ->
  parse_header (file1 l h encbody) = OK (H1 h, body).
Proof.
  intros V L B Tr SC EN. destruct (lay1_inv l h L) as [_ _ _ _ _ _ _ _ _ _ _ _ _ _ _ _ _ _ _ _ Gg _].
  destruct (body_ok_inv body B) as [[b' EB] _].
  apply (parse_header_exact_v1_l l h cd encbody body trail V L B Tr SC).
  - apply codec_ok; [apply ascii_ws; exact Gg|exact EN].
  - rewrite EB in EN. cbn [app] in EN. apply (codec_first cd _ _ EN).
Qed.

Lemma ascii_head2 l h : valid2 h = true -> lay2_ok l = true -> ascii (head2 l h) = true.
Proof.
  intros V L. destruct (valid2_inv h V) as [Foh Fve Fse Fol Fne]. destruct (v2_version_range _ Fve) as [R _].
  unfold lay2_ok in L. rewrite !andb_true_iff in L. destruct L as [[[[[[Ln Lb] Qv] Qe] Qs] La] Lbb].
  destruct (xml_decl_facts _ _ _ Qv Qe Qs) as [_ [XA _]].
  pose proof (uid_ok_inv _ Fol) as [Uol _]. pose proof (uid_ok_inv _ Fne) as [Une _].
  unfold head2, ofx_decl. rewrite Foh.
  repeat (rewrite ascii_app). rewrite XA, (ascii_ws _ La), (ascii_ws _ Lbb), (ascii_ws _ (lead_text_ws _ Lb)).
  rewrite (ascii_dec (h2_version h)) by exact (proj1 R). rewrite (ascii_token _ _ Fse) by reflexivity.
  rewrite (ascii_uid _ Uol), (ascii_uid _ Une). reflexivity.
Qed.
Theorem parse_header_exact_v2_c l h body trail encbody :
  valid2 h = true -> lay2_ok l = true -> body_ok body = true -> all_ws trail = true ->
  encode_opt 2 (body ++ trail) = Some encbody ->
  parse_header (file2 l h encbody) = OK (H2 h, body ++ trail) /\ strip (body ++ trail) = body.
Proof.
  intros V L B Tr EN. destruct (body_ok_inv body B) as [[b' EB] _]. split.
  - apply parse_header_exact_v2_l; [exact V|exact L|rewrite EB; eexists; reflexivity|].
    apply codec_ok; [apply ascii_head2; assumption|exact EN].
  - change (body ++ trail) with ([] ++ body ++ trail). apply strip_body; [reflexivity|apply all_ws_space; exact Tr|exact B].
Qed.

(** the codec is the one the header declares: ISO-8859-1 -> latin_1, 1252 -> cp1252, NONE -> utf_8; version 2 -> utf_8;
    and every header object the constructor can return has a codec (no KeyError). *)
Theorem codec_is_declared_one_l :
  (forall h, valid1 h = true -> exists cd, spec_codec (h1_charset h) = Some cd /\ codec_of h = OK cd)
  /\ v2_codec = 2
  /\ (forall v oh da se en ch co ol ne a, init_v1 v oh da se en ch co ol ne = OK a ->
        exists cd, spec_codec (h1_charset a) = Some cd /\ codec_of a = OK cd)
  /\ spec_codec (T "ISO-8859-1") = Some 0 /\ spec_codec (T "1252") = Some 1 /\ spec_codec (T "NONE") = Some 2.
Proof.
  split; [exact codec_declared|]. split; [reflexivity|]. split; [|repeat split; reflexivity].
  intros v oh da se en ch co ol ne a I. destruct (init_v1_sound _ _ _ _ _ _ _ _ _ _ I) as [_ _ _ _ _ [_ Ich] _ _ _].
  destruct gen_domains_within_spec as [_ [_ [_ [_ [_ [G6 _]]]]]].
  pose proof (mem_within _ _ _ Ich G6) as M. apply mem_text_in in M. unfold codec_of.
  cbn [spec_charset In] in M. destruct M as [E|[E|[E|[]]]]; rewrite <- E; eexists; split; vm_compute; reflexivity.
Qed.
