(** C08 at the level of texts: [parse_ok_implies_nested_l] for EVERY text, and the fault corollaries for
    renderings: a valid rendering is a token chain; each fault class yields a text that is refused. *)
From OfxV Require Import Base.Prelude Base.SgmlBase Model.Sgml Model.SgmlSpec Proofs.SgmlNest Proofs.SgmlScan Proofs.SgmlFaithful.
From Coq Require Import Lia.
Local Open Scope N_scope.

(** no hypothesis on [s] *)
Theorem parse_ok_implies_nested_l s t :
  parse repaired s = OK (Some t) -> exists es, toks repaired s = OK es /\ nested es t.
Proof.
  unfold parse, toks. intro H.
  destruct (feed repaired (scan repaired 0 s) b0) as [b|k] eqn:Hf; cbn [bind] in H; [|discriminate].
  destruct (feed_ok_events _ _ _ _ Hf) as (es & Hes & Hrun). exists es. split; [exact Hes|].
  apply run_ok_forest. unfold accept. rewrite Hrun. exact H.
Qed.

(** the parse of any token chain is the builder run on its events *)
Lemma parse_toks ws0 ts : blank ws0 = true -> forallb tok_wf ts = true -> chain_ok ts = true ->
  parse repaired (ws0 ++ render_toks ts) = accept (map ev_of_tok ts).
Proof.
  intros H0 Hwf Hch. unfold parse, accept. rewrite (scan_leading_blank _ _ H0).
  rewrite (scan_render_toks _ (forallb_wf_shape _ Hwf) Hch).
  rewrite (feed_events repaired _ b0 _ (events_of_toks _ Hwf)). reflexivity.
Qed.

Lemma valid_accept ws0 r d : wf_doc d = true -> ok_rendering ws0 r d ->
  accept (map ev_of_tok (flatten r)) = OK (Some (tree_of d)) /\ forallb tok_wf (flatten r) = true
  /\ chain_ok (flatten r) = true /\ blank ws0 = true.
Proof.
  intros Hd (<- & Hr & H0). repeat split; [|apply flatten_wf; assumption|apply flatten_chain; assumption|assumption].
  rewrite events_flatten. apply run_forest, forest_events_doc.
Qed.

Lemma chain_ok_prefix p q : chain_ok (p ++ q) = true -> chain_ok p = true.
Proof.
  induction p as [|x p IH]; [reflexivity|]. destruct p as [|y p']; [reflexivity|].
  cbn [app chain_ok]. intro H. apply andb_true_iff in H as [Hxy H]. rewrite Hxy. apply IH. exact H.
Qed.
Lemma forallb_app_l {A} (f : A -> bool) p q : forallb f (p ++ q) = true -> forallb f p = true /\ forallb f q = true.
Proof. rewrite forallb_app'. apply andb_true_iff. Qed.
Lemma chain_ok_dup p k q : adj k k = true -> chain_ok (p ++ k :: q) = true -> chain_ok (p ++ k :: k :: q) = true.
Proof.
  intros Hk. induction p as [|x p IH]; intro H.
  - cbn [app chain_ok] in *. rewrite Hk. exact H.
  - destruct p as [|y p'].
    + cbn [app chain_ok] in *. apply andb_true_iff in H as [Hxk H]. rewrite Hxk, Hk. exact H.
    + cbn [app chain_ok] in *. apply andb_true_iff in H as [Hxy H]. rewrite Hxy. apply IH. exact H.
Qed.

Section Faults.
  Variables (ws0 : text) (r : rdoc) (d : doc).
  Hypothesis Hd : wf_doc d = true.
  Hypothesis Hr : ok_rendering ws0 r d.

  (** a document cut off at a token boundary (the empty prefix returns no tree either) *)
  Theorem truncation_rejected_l p k q : flatten r = (p ++ k :: q)%list ->
    forall t', parse repaired (ws0 ++ render_toks p) <> OK (Some t').
  Proof.
    intros E t'. destruct (valid_accept _ _ _ Hd Hr) as (Hacc & Hwf & Hch & H0). rewrite E in *.
    rewrite parse_toks; [|exact H0|apply (forallb_app_l _ _ _ Hwf)|apply (chain_ok_prefix _ _ Hch)].
    rewrite map_app in Hacc. cbn [map] in Hacc. eapply accept_proper_prefix; [exact Hacc|reflexivity].
  Qed.

  (** an aggregate end tag is missing *)
  Theorem endtag_deletion_rejected_l p u ws q : flatten r = (p ++ TClose u ws :: q)%list ->
    chain_ok (p ++ q) = true -> forall t', parse repaired (ws0 ++ render_toks (p ++ q)) <> OK (Some t').
  Proof.
    intros E Hch' t'. destruct (valid_accept _ _ _ Hd Hr) as (Hacc & Hwf & Hch & H0). rewrite E in *.
    apply forallb_app_l in Hwf as [Hp Hq]. cbn [forallb] in Hq. apply andb_true_iff in Hq as [Hk Hq].
    rewrite parse_toks; [|exact H0|rewrite forallb_app', Hp, Hq; reflexivity|exact Hch'].
    rewrite map_app in *. cbn [map ev_of_tok] in Hacc. eapply accept_delete_close. exact Hacc.
  Qed.
  Theorem endtag_deletion_empty_rejected_l p u w1 w2 q : flatten r = (p ++ TEmpty u w1 w2 :: q)%list ->
    chain_ok (p ++ TOpen u (w1 ++ w2) :: q) = true ->
    forall t', parse repaired (ws0 ++ render_toks (p ++ TOpen u (w1 ++ w2) :: q)) <> OK (Some t').
  Proof.
    intros E Hch' t'. destruct (valid_accept _ _ _ Hd Hr) as (Hacc & Hwf & Hch & H0). rewrite E in *.
    apply forallb_app_l in Hwf as [Hp Hq]. cbn [forallb] in Hq. apply andb_true_iff in Hq as [Hk Hq].
    cbn [tok_wf] in Hk. rewrite !andb_true_iff in Hk. destruct Hk as [[Hu H1] H2].
    rewrite parse_toks; [|exact H0| |exact Hch'].
    - rewrite map_app in *. cbn [map ev_of_tok] in *. eapply accept_unclose_empty. exact Hacc.
    - rewrite forallb_app', Hp. cbn [forallb tok_wf]. rewrite Hu, Hq, (blank_app _ _ H1 H2). reflexivity.
  Qed.

  (** an end tag is misspelled or belongs to a different element *)
  Theorem endtag_rename_rejected_l p u ws q v : flatten r = (p ++ TClose u ws :: q)%list -> u <> v -> wf_tag v = true ->
    chain_ok (p ++ TClose v ws :: q) = true ->
    forall t', parse repaired (ws0 ++ render_toks (p ++ TClose v ws :: q)) <> OK (Some t').
  Proof.
    intros E Huv Hv Hch' t'. destruct (valid_accept _ _ _ Hd Hr) as (Hacc & Hwf & Hch & H0). rewrite E in *.
    apply forallb_app_l in Hwf as [Hp Hq]. cbn [forallb] in Hq. apply andb_true_iff in Hq as [Hk Hq].
    cbn [tok_wf] in Hk. apply andb_true_iff in Hk as [_ Hws].
    rewrite parse_toks; [|exact H0| |exact Hch'].
    - rewrite map_app in *. cbn [map ev_of_tok] in *. eapply accept_rename_close; [exact Huv|exact Hacc].
    - rewrite forallb_app', Hp. cbn [forallb tok_wf]. rewrite Hv, Hws, Hq. reflexivity.
  Qed.

  (** two end tags of different elements are exchanged *)
  Theorem endtag_transposition_rejected_l p u w m v w' q :
    flatten r = (p ++ TClose u w :: m ++ TClose v w' :: q)%list -> u <> v ->
    chain_ok (p ++ TClose v w' :: m ++ TClose u w :: q) = true ->
    forall t', parse repaired (ws0 ++ render_toks (p ++ TClose v w' :: m ++ TClose u w :: q)) <> OK (Some t').
  Proof.
    intros E Huv Hch' t'. destruct (valid_accept _ _ _ Hd Hr) as (Hacc & Hwf & Hch & H0). rewrite E in *.
    apply forallb_app_l in Hwf as [Hp Hq]. cbn [forallb] in Hq. apply andb_true_iff in Hq as [Hk1 Hq].
    apply forallb_app_l in Hq as [Hm Hq]. cbn [forallb] in Hq. apply andb_true_iff in Hq as [Hk2 Hq].
    rewrite parse_toks; [|exact H0| |exact Hch'].
    - rewrite !map_app in *. cbn [map ev_of_tok] in *. rewrite !map_app in *. cbn [map ev_of_tok] in *.
      eapply accept_transpose_close; [exact Huv|exact Hacc].
    - rewrite forallb_app', Hp. cbn [forallb]. rewrite Hk2, forallb_app', Hm. cbn [forallb]. rewrite Hk1, Hq. reflexivity.
  Qed.

  (** an end tag is written twice *)
  Theorem endtag_duplication_rejected_l p u ws q : flatten r = (p ++ TClose u ws :: q)%list ->
    forall t', parse repaired (ws0 ++ render_toks (p ++ TClose u ws :: TClose u ws :: q)) <> OK (Some t').
  Proof.
    intros E t'. destruct (valid_accept _ _ _ Hd Hr) as (Hacc & Hwf & Hch & H0). rewrite E in *.
    apply forallb_app_l in Hwf as [Hp Hq]. cbn [forallb] in Hq. apply andb_true_iff in Hq as [Hk Hq].
    rewrite parse_toks; [|exact H0| |apply chain_ok_dup; [reflexivity|exact Hch]].
    - rewrite map_app in *. cbn [map ev_of_tok] in *.
      change (map ev_of_tok p ++ EClose u :: EClose u :: map ev_of_tok q)%list
        with (map ev_of_tok p ++ EClose u :: (EClose u :: map ev_of_tok q))%list.
      eapply accept_insert_close. exact Hacc.
    - rewrite forallb_app', Hp. cbn [forallb]. rewrite Hk, Hq. reflexivity.
  Qed.

  (** a stray end tag anywhere between two tokens *)
  Theorem stray_endtag_rejected_l p q v ws : flatten r = (p ++ q)%list -> wf_tag v = true -> blank ws = true ->
    chain_ok (p ++ TClose v ws :: q) = true ->
    forall t', parse repaired (ws0 ++ render_toks (p ++ TClose v ws :: q)) <> OK (Some t').
  Proof.
    intros E Hv Hws Hch' t'. destruct (valid_accept _ _ _ Hd Hr) as (Hacc & Hwf & Hch & H0). rewrite E in *.
    apply forallb_app_l in Hwf as [Hp Hq].
    rewrite parse_toks; [|exact H0| |exact Hch'].
    - rewrite map_app in *. cbn [map ev_of_tok] in *. eapply accept_insert_close. exact Hacc.
    - rewrite forallb_app', Hp. cbn [forallb tok_wf]. rewrite Hv, Hws, Hq. reflexivity.
  Qed.

  (** a second top-level element (or any further tokens) after the document *)
  Theorem second_root_rejected_l k ts' : forallb tok_wf (k :: ts') = true -> chain_ok (flatten r ++ k :: ts') = true ->
    forall t', parse repaired (ws0 ++ render_toks (flatten r ++ k :: ts')) <> OK (Some t').
  Proof.
    intros Hwf' Hch' t'. destruct (valid_accept _ _ _ Hd Hr) as (Hacc & Hwf & Hch & H0).
    rewrite parse_toks; [|exact H0|rewrite forallb_app', Hwf, Hwf'; reflexivity|exact Hch'].
    rewrite map_app. cbn [map]. eapply accept_extension. exact Hacc.
  Qed.
End Faults.

(** ---------------------------------------------------------------- text after an end tag *)
Lemma lstrip_nonblank s : blank s = false -> blank (lstrip s) = false /\ lstrip s <> [].
Proof.
  induction s as [|c s IH]; [discriminate|]. unfold blank, lstrip. cbn [forallb take_while]. destruct (is_space c) eqn:E.
  - cbn [andb]. intro H. destruct (take_while is_space s) as [a b] eqn:Et. cbn [snd].
    specialize (IH H). unfold lstrip in IH. rewrite Et in IH. exact IH.
  - intros _. cbn [snd forallb]. rewrite E. split; [reflexivity|discriminate].
Qed.
Lemma strip_nonblank s : blank s = false -> nonempty (strip s) = true.
Proof.
  intro H. unfold strip, rstrip. destruct (lstrip_nonblank s H) as [H1 _].
  assert (H2 : blank (rev (lstrip s)) = false) by (unfold blank in *; rewrite forallb_rev; exact H1).
  destruct (lstrip_nonblank _ H2) as [_ H3]. destruct (lstrip (rev (lstrip s))) as [|c l] eqn:E; [congruence|].
  cbn [rev]. destruct (rev l); reflexivity.
Qed.

Lemma stray_text_event k : tok_shape k = true -> stray_text k = true -> event_of (match_of k) = Err Reject.
Proof.
  intros Hs Hj. pose proof (tok_shape_tag k Hs) as Htag.
  destruct k as [t ws|t w1 w2|t cd w1 x w2 cl w3|t ws]; cbn [stray_text] in Hj; try discriminate; cbn beta iota in Htag.
  - apply negb_true_iff in Hj. unfold event_of. cbn [match_of m_tail]. rewrite (strip_nonblank _ Hj). reflexivity.
  - destruct cl; [|discriminate]. apply negb_true_iff in Hj. unfold event_of.
    destruct cd; cbn [match_of m_tail]; rewrite (strip_nonblank _ Hj); reflexivity.
  - apply negb_true_iff in Hj. unfold event_of. cbn [match_of m_tail m_cdata m_text m_tag]. rewrite strip_nil. cbn [nonempty].
    rewrite (strip_nonblank _ Hj). rewrite N.eqb_refl. reflexivity.
Qed.

Lemma feed_stops g ms : (exists m, In m ms /\ exists k, event_of m = Err k) -> forall b, exists k, feed g ms b = Err k.
Proof.
  induction ms as [|m ms IH]; intros (m0 & Hin & k0 & Hk) b; [destruct Hin|]. cbn [feed].
  destruct (event_of m) as [e|k] eqn:Ee; cbn [bind]; [|eauto].
  destruct (step g b e) as [b1|k]; cbn [bind]; [|eauto].
  apply IH. destruct Hin as [->|Hin]; [congruence|]. eauto.
Qed.

(** any token chain in which non-blank text follows an end tag is refused (whatever else it contains) *)
Theorem stray_text_rejected_l ws0 ts : blank ws0 = true -> forallb tok_shape ts = true -> chain_ok ts = true ->
  existsb stray_text ts = true -> forall o, parse repaired (ws0 ++ render_toks ts) <> OK o.
Proof.
  intros H0 Hs Hch Hex o. unfold parse. rewrite (scan_leading_blank _ _ H0), (scan_render_toks _ Hs Hch).
  apply existsb_exists in Hex as (k & Hin & Hk).
  destruct (feed_stops repaired (map match_of ts)) with (b := b0) as (e & He).
  - exists (match_of k). split; [apply in_map; exact Hin|]. exists Reject. apply stray_text_event; [|exact Hk].
    rewrite forallb_forall in Hs. apply Hs. exact Hin.
  - rewrite He. discriminate.
Qed.
