(** C07: the hypotheses are inhabited on the regenerated class table: STATUS accepts <FOO>, <INTU.BID> and a whole
    foreign <STATUS> subtree under SONRS-unknown positions; the contaminated and clean documents convert alike. *)
From OfxV Require Import Base.Prelude Model.Schema Model.Convert Model.ConvertCases Proofs.ConvertUnknown Gen.SchemaGen Gen.SchemaS.
Local Open Scope string_scope.
Local Open Scope N_scope.
Definition tb : conv_table := [].
Definition status_e : etree := Node "STATUS" None [Node "CODE" (Some [48]) []; Node "SEVERITY" (Some [73;78;70;79]) []].
Definition foo : etree := Node "FOO" None [Node "CODE" (Some [49]) []].
Definition vendor : etree := Node "INTU.BID" (Some [49]) [].
Theorem examples_nonvacuous :
  (exists e', insert_at [] 1 foo status_e = Some e' /\ receiver_unknown S [] foo status_e) /\
  (exists e', insert_at [] 0 vendor status_e = Some e' /\ receiver_unknown S [] vendor status_e) /\
  (exists c, lookup_tag S "STATUS" = Some c).
Proof.
  split; [|split].
  - eexists. split; [reflexivity|]. intros c Hc. vm_compute in Hc. injection Hc as <-. split; [exact I|]. right. vm_compute. reflexivity.
  - eexists. split; [reflexivity|]. intros c Hc. vm_compute in Hc. injection Hc as <-. split; [exact I|]. left. reflexivity.
  - eexists. vm_compute. reflexivity.
Qed.
Print Assumptions examples_nonvacuous.
