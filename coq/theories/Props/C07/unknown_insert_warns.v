(** C07 obligation: a non-vendor unknown child changes nothing but the warnings - the contaminated document converts to the
    same instance, and its UnknownTagWarnings are those of the clean document with exactly one more, naming the inserted tag. *)
From OfxV Require Import Base.Prelude Model.Schema Model.Convert Proofs.ConvertUnknown.
Theorem unknown_insert_warns :
  forall sval conv S tag x ch1 ch2 u i w,
    (forall c, lookup_tag S tag = Some c ->
       (match ci_rename c with Some (wire, _) => etag u <> wire | None => True end)
       /\ has_dot (etag u) = false /\ index_of (lower (etag u)) (map fst (ci_spec c)) = None) ->
    from_etree sval conv S (Node tag x (ch1 ++ ch2)) = OK (i, w) ->
    exists w', from_etree sval conv S (Node tag x (ch1 ++ u :: ch2)) = OK (i, w') /\ ins (etag u) w w'.
Proof. exact unknown_insert_warns_l. Qed.
Print Assumptions unknown_insert_warns.
