(** C07 obligation (the congruence that carries insertions at any depth): the conversion of an aggregate depends on
    each child only through the child's tag, text and own conversion - never on what else the child contains. *)
From OfxV Require Import Base.Prelude Model.Schema Model.Convert Proofs.ConvertUnknown.
Theorem child_only_through_tag_text_conversion :
  forall (sval : Type) (conv : N -> sin sval -> result (option sval)) (S : schema) tag x ch1 ch2 e e',
    etag e = etag e' -> etext e = etext e' ->
    rmap fst (from_etree sval conv S e) = rmap fst (from_etree sval conv S e') ->
    rmap fst (from_etree sval conv S (Node tag x (ch1 ++ e :: ch2))) = rmap fst (from_etree sval conv S (Node tag x (ch1 ++ e' :: ch2))).
Proof. exact replace_child. Qed.
Print Assumptions child_only_through_tag_text_conversion.
