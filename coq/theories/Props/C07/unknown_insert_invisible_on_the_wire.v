(** C07 obligation, wire level: composition with the Sgml engine's parse_render_faithful (C02).  For every class table and
    converter oracle, every well-formed document d (with tree e) and the document d' obtained by inserting, anywhere in an
    aggregate of it, a subtree whose tag the receiving class does not define (tree e'): whatever renderings the two documents are
    given in - XML with all end tags, SGML without end tags of data elements, any mixture, arbitrary white space and line breaks,
    CDATA-wrapped data - the tokenizer and tree builder return exactly e and e', and converting e' gives what converting e gives:
    the same model, or the same rejection. *)
From OfxV Require Import Base.Prelude Base.SgmlBase Model.Schema Model.Convert Model.Sgml Model.SgmlSpec
     Proofs.ConvertUnknown Proofs.WireRoundTrip Proofs.ConvertUnknownWire.
Theorem unknown_insert_invisible_on_the_wire :
  forall (sval : Type) (conv : N -> sin sval -> result (option sval)) (S : schema)
         (path : list nat) (pos : nat) (u e e' : Convert.etree) (d d' : doc) (ws0 : text) (r : rdoc) (ws0' : text) (r' : rdoc),
    insert_at path pos u e = Some e' -> receiver_unknown S path u e ->
    wf_doc d = true -> wf_doc d' = true -> tree_of d = up e -> tree_of d' = up e' ->
    ok_rendering ws0 r d -> ok_rendering ws0' r' d' ->
    parse repaired (render ws0 r) = OK (Some (up e))
    /\ parse repaired (render ws0' r') = OK (Some (up e'))
    /\ rmap fst (from_etree sval conv S e') = rmap fst (from_etree sval conv S e).
Proof. exact unknown_insert_invisible_on_the_wire_l. Qed.
Print Assumptions unknown_insert_invisible_on_the_wire.
