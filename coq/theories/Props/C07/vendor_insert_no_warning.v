(** C07 obligation: a vendor-prefixed subtree (tag containing '.') is dropped without even a warning:
    the complete result (model AND warnings) is unchanged. *)
From OfxV Require Import Base.Prelude Model.Schema Model.Convert Proofs.ConvertUnknown.
Theorem vendor_insert_no_warning :
  forall (sval : Type) (conv : N -> sin sval -> result (option sval)) (S : schema) tag x ch1 ch2 u,
    (forall c, lookup_tag S tag = Some c -> match ci_rename c with Some (wire, _) => etag u <> wire | None => True end) ->
    has_dot (etag u) = true ->
    from_etree sval conv S (Node tag x (ch1 ++ u :: ch2)) = from_etree sval conv S (Node tag x (ch1 ++ ch2)).
Proof. exact insert_here_vendor. Qed.
Print Assumptions vendor_insert_no_warning.
