(** C07 obligation.  For EVERY class table S, EVERY element-converter oracle, every document e, every path to an
    aggregate of e, every position among its children and EVERY subtree u (data element, empty element, aggregate
    with arbitrary - even otherwise known - content) whose tag the receiving class does not define (vendor-prefixed,
    or not an attribute of it, and not the wire spelling that groom renames): converting the contaminated document
    gives exactly what converting the clean document gives - same model, or the same rejection. *)
From OfxV Require Import Base.Prelude Model.Schema Model.Convert Proofs.ConvertUnknown.
Theorem unknown_insert_invisible :
  forall (sval : Type) (conv : N -> sin sval -> result (option sval)) (S : schema)
         (path : list nat) (pos : nat) (u e e' : etree),
    insert_at path pos u e = Some e' -> receiver_unknown S path u e ->
    rmap fst (from_etree sval conv S e') = rmap fst (from_etree sval conv S e).
Proof. exact unknown_insert_invisible_l. Qed.
Print Assumptions unknown_insert_invisible.
