(** C01 obligation (the scalar hypothesis of the round trip discharged for DateTime and Time elements, through the C09 engine):
    for any element-type table, the reader Types.DateTime/Time.convert as modelled by the C09 engine over the regenerated
    digit and time-zone tables, and ANY writer whose text for an instant is the engine's unconvert of some aware value
    standing for that instant (whole-minute offset -12:00..+14:00, zone name readable and free of markup - what
    Types.DateTime.unconvert does whatever the value's tzinfo) - every held date-time value with millisecond precision
    (years 1000..9998; OFX text carries milliseconds, so finer values cannot come back) is written to a non-empty text which,
    entity-escaped by the serializer, the reader converts back into the very same instant.  Values are instants: [PDT x] is
    microseconds since 1970-01-01T00:00Z (how Python compares aware datetimes), [PTime x] microseconds after midnight UTC. *)
From OfxV Require Import Base.Prelude Model.Schema Model.Convert Model.Calendar Model.Scalars Model.Typed Model.TypedDT
     Proofs.WireRoundTrip Proofs.TypedDTRoundTrip Proofs.TypedDTHeld Gen.DateTimeGen.
Theorem held_datetime_reads_back :
  forall table u, writes_instants nd_zeros u -> writes_times nd_zeros u ->
  forall t req v,
    (lookup_ety table t = Some (EDateTime req) /\ held_dt u v) \/ (lookup_ety table t = Some (ETime req) /\ held_tm u v) ->
    exists s, unconv_w pyval (unconv_typed table u) t v = OK s /\ s <> []
              /\ conv_typed table (conv_dt_m nd_zeros tzs) t (SText pyval s) = OK (Some v).
Proof. exact held_datetime_reads_back_l. Qed.
Print Assumptions held_datetime_reads_back.
