(** C01 obligation, complete statement for version-2 files with the concrete converters: a typed-valid instance (structure +
    holdable values, no converter hypothesis), written by to_etree and the html writer (plain or pretty) as utf_8 behind ANY
    tolerated layout of any valid version-2 header, is recovered from the bytes by parse_header, the tokenizer / tree builder and
    from_etree: the same header, the very same instance, no warning. *)
From OfxV Require Import Base.Prelude Base.SgmlBase Model.Schema Model.Convert Model.Sgml Model.SgmlSpec Model.Serialize
     Model.Scalars Model.Typed Model.TypedDT Model.Header Model.HeaderLayout Gen.SgmlGen Gen.DateTimeGen
     Proofs.SerializeProofs Proofs.WireRoundTrip Proofs.TypedDTRoundTrip Proofs.FileRoundTrip Proofs.TypedValid.
Theorem typed_file_roundtrip_v2 :
  forall table u S, writes_instants nd_zeros u -> writes_times nd_zeros u ->
  forall l h i e (pretty : bool),
    valid2 h = true -> lay2_ok l = true -> typed_valid table u S i ->
    to_etree pyval (unconv_typed table u) S i = OK e -> ser_ok html_empty (up e) = true ->
    let it := if pretty then indent 0%nat (embed (up e)) else embed (up e) in
    scalar_text (html_text html_empty it) = true ->
    exists msg e', parse_header (file2 l h (tostring_html html_empty it)) = OK (H2 h, msg)
                   /\ parse repaired msg = OK (Some (up e'))
                   /\ from_etree pyval (conv_typed table (conv_dt_m nd_zeros tzs)) S e' = OK (i, []).
Proof. exact typed_file_roundtrip_v2_l. Qed.
Print Assumptions typed_file_roundtrip_v2.
