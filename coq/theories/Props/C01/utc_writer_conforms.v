(** C01 obligation (non-vacuity of held_datetime_reads_back's writer hypothesis): the writer for values whose tzinfo is UTC -
    what every converted instance holds - is such a writer, and it writes every instant of the range. *)
From OfxV Require Import Base.Prelude Model.Calendar Model.Scalars Model.TypedDT Proofs.TypedDTRoundTrip Proofs.TypedDTHeld Gen.DateTimeGen.
Theorem utc_writer_conforms :
  writes_instants nd_zeros unconv_dt_utc /\ writes_times nd_zeros unconv_dt_utc
  /\ (forall x, dt_range x -> exists t, unconv_dt_utc false (PDT x) = OK t).
Proof. exact (conj utc_writes_instants (conj utc_writes_times utc_writer_total)). Qed.
Print Assumptions utc_writer_conforms.
