(** C01 obligation over the BYTES of a version-1 (SGML) file: for EVERY class table and converter pair, every valid instance,
    every well-formed version-1 header h, every tolerated layout l of its nine lines, the codec cd that header declares
    (CHARSET ISO-8859-1 -> latin_1, 1252 -> cp1252, NONE -> utf_8) and either body form - element end tags written
    (ET.tostring method="html") or not (utils.tostring_unclosed_elements; then under [sgml_ok], the recorded finding and the
    inherent ambiguity excluded, with an aggregate at the root), plain or after utils.indent - whenever the body text is
    encodable in cd, parse_header splits  header ++ encoded body  into exactly that header and the body without the root's
    trailing white space (it strips the message), which the tokenizer and tree builder turn into a tree that from_etree
    converts back into the very same instance with no warning. *)
From OfxV Require Import Base.Prelude Base.SgmlBase Model.Schema Model.Convert Model.Sgml Model.SgmlSpec Model.Serialize
     Model.Header Model.HeaderLayout Gen.SgmlGen Proofs.HeaderParse Proofs.SerializeProofs Proofs.RoundTrip3 Proofs.WireRoundTrip Proofs.FileRoundTrip.
Theorem file_roundtrip_v1 :
  forall sval conv unconv S l h cd (i : inst sval) e (pretty closed : bool) encbody,
    valid1 h = true -> lay1_ok l h = true -> spec_codec (h1_charset h) = Some cd ->
    valid sval conv (unconv_w sval unconv) S i -> to_etree sval unconv S i = OK e -> ser_ok html_empty (up e) = true ->
    (closed = false -> sgml_ok (wire_doc (up e)) = true /\ is_agg (wire_doc (up e)) = true) ->
    let it := if pretty then indent 0%nat (embed (up e)) else embed (up e) in
    encode_opt cd (if closed then html_text html_empty it else unclosed_text true it) = Some encbody ->
    exists msg e', parse_header (file1 l h encbody) = OK (H1 h, msg)
                   /\ parse repaired msg = OK (Some (up e'))
                   /\ from_etree sval conv S e' = OK (i, []).
Proof. exact file_roundtrip_v1_l. Qed.
Print Assumptions file_roundtrip_v1.
