(** C01 obligation: the decidable class condition implies the class-table hypothesis of the round-trip theorem. *)
From OfxV Require Import Base.Prelude Model.Schema Proofs.RoundTrip3 Proofs.RoundTrip6.
Theorem rt_class_okb_sound : forall c, rt_class_okb c = true -> rt_class_ok c (class_lb c) (class_ub c).
Proof. exact rt_class_okb_sound_l. Qed.
Print Assumptions rt_class_okb_sound.
