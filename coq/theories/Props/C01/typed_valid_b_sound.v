(** C01 obligation: the boolean the correspondence run evaluates on REAL instances with the engines' converters alone (TValidM
    cases: no converter table; UTC writer followed by the serializer's escaping) decides membership in the domain of the round-trip
    theorems for the concrete converters. *)
From OfxV Require Import Base.Prelude Model.Schema Model.Convert Model.Scalars Model.Typed Model.TypedDT Model.ValidB Model.TypedCases
     Gen.DateTimeGen Proofs.RoundTrip3 Proofs.WireRoundTrip Proofs.TypedValid.
Theorem typed_valid_b_sound :
  forall table S i,
    valid_b pyval pyval_eqb (conv_typed table (conv_dt_m nd_zeros tzs)) (unconv_esc table) S i = true ->
    valid pyval (conv_typed table (conv_dt_m nd_zeros tzs)) (unconv_w pyval (unconv_typed table unconv_dt_utc)) S i.
Proof. exact typed_valid_b_sound_l. Qed.
Print Assumptions typed_valid_b_sound.
