(** C01 obligation over the element-type table REGENERATED from /repo (finite, kernel-evaluated): no declared enumeration token
    contains & < or > (OneOf does not un-escape, so such a token could not be read back from the wire) - the hypothesis
    [tokens_plain] of the theorem above holds for every element type the class table uses - and every type is known. *)
From OfxV Require Import Base.Prelude Model.Scalars Model.Typed Proofs.ScalarsWire Gen.TypedGen.
Theorem tokens_plain_generated :
  forallb (fun te => match snd te with ESty e => tokens_plain (elem_sty e) | EUnknown => false | _ => true end) ety_table = true.
Proof. vm_compute. reflexivity. Qed.
Print Assumptions tokens_plain_generated.
