(** C01 obligation: the bytes OFXClient.serialize returns for a version < 200 - str(header) followed by the body with or
    without element end tags, plain or after utils.indent - read back (file_roundtrip_v1 at the layout str(header) has).
    serialize always writes utf_8 while the reader decodes with the codec cd the header declares: the statement covers the
    bodies whose bytes are their encoding in cd (every body when cd is utf_8, i.e. CHARSET NONE; the ASCII ones otherwise). *)
From OfxV Require Import Base.Prelude Base.SgmlBase Model.Schema Model.Convert Model.Sgml Model.SgmlSpec Model.Serialize
     Model.Header Model.HeaderLayout Gen.SgmlGen Proofs.HeaderParse Proofs.SerializeProofs Proofs.RoundTrip3 Proofs.WireRoundTrip Proofs.FileRoundTrip.
Theorem client_bytes_roundtrip_v1 :
  forall sval conv unconv S h cd (i : inst sval) e (pretty closed : bool) encbody,
    valid1 h = true -> spec_codec (h1_charset h) = Some cd ->
    valid sval conv (unconv_w sval unconv) S i -> to_etree sval unconv S i = OK e -> ser_ok html_empty (up e) = true ->
    (closed = false -> sgml_ok (wire_doc (up e)) = true /\ is_agg (wire_doc (up e)) = true) ->
    let it := if pretty then indent 0%nat (embed (up e)) else embed (up e) in
    encode_opt cd (if closed then html_text html_empty it else unclosed_text true it) = Some encbody ->
    exists msg e', parse_header (str_v1 h ++ encbody) = OK (H1 h, msg)
                   /\ parse repaired msg = OK (Some (up e'))
                   /\ from_etree sval conv S e' = OK (i, []).
Proof. exact client_bytes_roundtrip_v1_l. Qed.
Print Assumptions client_bytes_roundtrip_v1.
