(** C01 obligation (tree level), for EVERY class table S and EVERY pair of element converters: a valid instance - of an
    exported class whose table entry passes the decidable class condition, fields in spec order, every value writable to a
    non-empty text that its converter reads back to it, children carrying their declared tag, members of the repeated kinds,
    accepted by its own constructor on canonical arguments, all of this at every depth - written by to_etree is read back by
    from_etree as the very same instance, with no warning: same classes and nesting, same members in the same order, equal values. *)
From OfxV Require Import Base.Prelude Model.Schema Model.Convert Proofs.RoundTrip3 Proofs.RoundTrip5.
Theorem roundtrip_tree :
  forall sval (conv : N -> sin sval -> result (option sval)) (unconv : N -> sval -> result text) (S : schema) (i : inst sval),
    valid sval conv unconv S i -> forall e, to_etree sval unconv S i = OK e -> from_etree sval conv S e = OK (i, []).
Proof. exact roundtrip_tree_l. Qed.
Print Assumptions roundtrip_tree.
