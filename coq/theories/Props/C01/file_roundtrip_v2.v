(** C01 obligation over the BYTES of a version-2 (XML) file: four engines composed.  For EVERY class table and converter pair,
    every valid instance (validity as in wire_roundtrip_closed), every well-formed version-2 header h and every tolerated
    layout l of it (XML declaration with any of its pseudo-attributes present or absent and either quote, leading blank lines,
    white space between the parts): the bytes  header ++ ET.tostring(to_etree(i), encoding="utf_8", method="html")  - plain or
    after utils.indent - are split by parse_header into exactly that header and the message text, the tokenizer and tree builder
    turn the message into a tree, and from_etree turns that tree back into the very same instance with no warning.
    [scalar_text]: the text holds Unicode scalar values (no lone surrogates, which ET writes as character references and the
    strict decoder on the reading side is the C05 engine's own subject). *)
From OfxV Require Import Base.Prelude Base.SgmlBase Model.Schema Model.Convert Model.Sgml Model.SgmlSpec Model.Serialize
     Model.Header Model.HeaderLayout Gen.SgmlGen Proofs.SerializeProofs Proofs.RoundTrip3 Proofs.WireRoundTrip Proofs.FileRoundTrip.
Theorem file_roundtrip_v2 :
  forall sval conv unconv S l h (i : inst sval) e (pretty : bool),
    valid2 h = true -> lay2_ok l = true ->
    valid sval conv (unconv_w sval unconv) S i -> to_etree sval unconv S i = OK e -> ser_ok html_empty (up e) = true ->
    let it := if pretty then indent 0%nat (embed (up e)) else embed (up e) in
    scalar_text (html_text html_empty it) = true ->
    exists msg e', parse_header (file2 l h (tostring_html html_empty it)) = OK (H2 h, msg)
                   /\ parse repaired msg = OK (Some (up e'))
                   /\ from_etree sval conv S e' = OK (i, []).
Proof. exact file_roundtrip_v2_l. Qed.
Print Assumptions file_roundtrip_v2.
