(** C01 obligation: NO hypothesis is left on the element converters.  For any class table, element-type table and date-time writer
    conforming to writes_instants / writes_times (utc_writer_conforms: the UTC writer is one), an instance that is structurally
    valid (exported class with a well-formed table entry, fields in spec order, children and members of the declared kinds,
    accepted by its own constructor) and in which every value is one an instance can hold under its declared element type
    ([typed_held]: C10's [held] for Bool / String / NagString / OneOf / Integer / Decimal; a millisecond-precision instant of the
    years 1000..9998 for DateTime / Time) is [valid] for the concrete converters - the domain of roundtrip_tree,
    wire_roundtrip_closed / _unclosed and file_roundtrip_v2 / _v1. *)
From OfxV Require Import Base.Prelude Model.Schema Model.Convert Model.Scalars Model.Typed Model.TypedDT Gen.DateTimeGen
     Proofs.RoundTrip3 Proofs.WireRoundTrip Proofs.TypedDTRoundTrip Proofs.TypedValid.
Theorem typed_valid_is_valid :
  forall table u S, writes_instants nd_zeros u -> writes_times nd_zeros u ->
  forall i, typed_valid table u S i ->
            valid pyval (conv_typed table (conv_dt_m nd_zeros tzs)) (unconv_w pyval (unconv_typed table u)) S i.
Proof. exact typed_valid_is_valid. Qed.
Print Assumptions typed_valid_is_valid.
