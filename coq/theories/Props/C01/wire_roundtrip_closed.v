(** C01 obligation over the message body, XML and SGML-with-end-tags forms (ET.tostring method="html"), plain or pretty-printed.
    For EVERY class table and converter pair, every valid instance (validity taken with the writer as seen from the wire: the
    converter's text entity-escaped, which the reading converter must undo - C10's unescape_escape for strings; other types write
    no markup): to_etree, then the serializer, then the tokenizer and tree builder give a tree that from_etree turns back into the
    very same instance, with no warning.  [ser_ok]: tags over the OFX alphabet and not HTML void elements, data trimmed. *)
From OfxV Require Import Base.Prelude Base.SgmlBase Model.Schema Model.Convert Model.Sgml Model.SgmlSpec Model.Serialize
     Proofs.SerializeProofs Proofs.RoundTrip3 Proofs.WireRoundTrip Gen.SgmlGen.
Theorem wire_roundtrip_closed :
  forall sval conv unconv S (i : inst sval) e (pretty : bool),
    valid sval conv (unconv_w sval unconv) S i -> to_etree sval unconv S i = OK e -> ser_ok html_empty (up e) = true ->
    exists e', parse repaired (html_text html_empty (if pretty then indent 0%nat (embed (up e)) else embed (up e))) = OK (Some (up e'))
               /\ from_etree sval conv S e' = OK (i, []).
Proof. exact wire_roundtrip_closed_l. Qed.
Print Assumptions wire_roundtrip_closed.
