(** C01 obligation, complete statement for version-1 files with the concrete converters: a typed-valid instance (structure +
    holdable values, no converter hypothesis), written with or without element end tags (the latter under [sgml_ok] with an
    aggregate at the root), plain or pretty, encoded in the codec the header declares, behind ANY tolerated layout of any valid
    version-1 header, is recovered from the bytes: the same header, the very same instance, no warning. *)
From OfxV Require Import Base.Prelude Base.SgmlBase Model.Schema Model.Convert Model.Sgml Model.SgmlSpec Model.Serialize
     Model.Scalars Model.Typed Model.TypedDT Model.Header Model.HeaderLayout Gen.SgmlGen Gen.DateTimeGen
     Proofs.HeaderParse Proofs.SerializeProofs Proofs.WireRoundTrip Proofs.TypedDTRoundTrip Proofs.FileRoundTrip Proofs.TypedValid.
Theorem typed_file_roundtrip_v1 :
  forall table u S, writes_instants nd_zeros u -> writes_times nd_zeros u ->
  forall l h cd i e (pretty closed : bool) encbody,
    valid1 h = true -> lay1_ok l h = true -> spec_codec (h1_charset h) = Some cd ->
    typed_valid table u S i -> to_etree pyval (unconv_typed table u) S i = OK e -> ser_ok html_empty (up e) = true ->
    (closed = false -> sgml_ok (wire_doc (up e)) = true /\ is_agg (wire_doc (up e)) = true) ->
    let it := if pretty then indent 0%nat (embed (up e)) else embed (up e) in
    encode_opt cd (if closed then html_text html_empty it else unclosed_text true it) = Some encbody ->
    exists msg e', parse_header (file1 l h encbody) = OK (H1 h, msg)
                   /\ parse repaired msg = OK (Some (up e'))
                   /\ from_etree pyval (conv_typed table (conv_dt_m nd_zeros tzs)) S e' = OK (i, []).
Proof. exact typed_file_roundtrip_v1_l. Qed.
Print Assumptions typed_file_roundtrip_v1.
