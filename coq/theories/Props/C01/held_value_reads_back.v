(** C01 obligation (discharging the scalar hypothesis of the wire round trip for the concrete types): for the element-type table
    regenerated from /repo or any other, and whatever the date-time converters are - for every element of type Bool, String,
    NagString, OneOf, Integer or Decimal (any parameters, ListElement nesting) and every value an instance can hold under it
    ([held]: delivered unchanged by the converter, writable to a non-empty text, not None; decimals representable; declared
    tokens free of markup), the text the writer produces, entity-escaped by the serializer, is read back by the converter as
    that very value.  This is exactly the scalar clause of [valid] for the typed converters. *)
From OfxV Require Import Base.Prelude Model.Schema Model.Convert Model.Scalars Model.Typed Proofs.WireRoundTrip Proofs.TypedRoundTrip.
Theorem held_value_reads_back :
  forall table conv_dt unconv_dt t e v,
    lookup_ety table t = Some (ESty e) -> held e v ->
    exists s, unconv_w pyval (unconv_typed table unconv_dt) t v = OK s /\ s <> []
              /\ conv_typed table conv_dt t (SText pyval s) = OK (Some v).
Proof. exact held_value_reads_back_l. Qed.
Print Assumptions held_value_reads_back.
