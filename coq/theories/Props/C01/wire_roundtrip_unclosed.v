(** C01 obligation over the message body, SGML form without element end tags (tostring_unclosed_elements, data escaped), plain
    or pretty-printed - for trees in which no aggregate is empty (recorded finding: an empty aggregate is written as a bare start
    tag) and no data element is the last child of an aggregate of its own name (inherent ambiguity of the syntax): [sgml_ok]. *)
From OfxV Require Import Base.Prelude Base.SgmlBase Model.Schema Model.Convert Model.Sgml Model.SgmlSpec Model.Serialize
     Proofs.SerializeProofs Proofs.RoundTrip3 Proofs.WireRoundTrip Gen.SgmlGen.
Theorem wire_roundtrip_unclosed :
  forall sval conv unconv S (i : inst sval) e (pretty : bool),
    valid sval conv (unconv_w sval unconv) S i -> to_etree sval unconv S i = OK e -> ser_ok html_empty (up e) = true ->
    sgml_ok (wire_doc (up e)) = true ->
    exists e', parse repaired (unclosed_text true (if pretty then indent 0%nat (embed (up e)) else embed (up e))) = OK (Some (up e'))
               /\ from_etree sval conv S e' = OK (i, []).
Proof. exact wire_roundtrip_unclosed_l. Qed.
Print Assumptions wire_roundtrip_unclosed.
