(** C01 obligation: the bytes OFXClient.serialize returns for a version >= 200 - bytes(str(header), "utf_8") followed by
    ET.tostring(to_etree(i), encoding="utf_8", method="html"), plain or after utils.indent - read by parse_header, the
    tokenizer / tree builder and from_etree give back that header and the very same instance (file_roundtrip_v2 at the layout
    str(header) has, which is proved to be a tolerated one). *)
From OfxV Require Import Base.Prelude Base.SgmlBase Model.Schema Model.Convert Model.Sgml Model.SgmlSpec Model.Serialize
     Model.Header Model.HeaderLayout Gen.SgmlGen Proofs.SerializeProofs Proofs.RoundTrip3 Proofs.WireRoundTrip Proofs.FileRoundTrip.
Theorem client_bytes_roundtrip_v2 :
  forall sval conv unconv S h (i : inst sval) e (pretty : bool),
    valid2 h = true ->
    valid sval conv (unconv_w sval unconv) S i -> to_etree sval unconv S i = OK e -> ser_ok html_empty (up e) = true ->
    let it := if pretty then indent 0%nat (embed (up e)) else embed (up e) in
    scalar_text (html_text html_empty it) = true ->
    exists msg e', parse_header (str_v2 h ++ tostring_html html_empty it) = OK (H2 h, msg)
                   /\ parse repaired msg = OK (Some (up e'))
                   /\ from_etree sval conv S e' = OK (i, []).
Proof. exact client_bytes_roundtrip_v2_l. Qed.
Print Assumptions client_bytes_roundtrip_v2.
