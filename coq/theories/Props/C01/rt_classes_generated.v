(** C01 obligation over the class table REGENERATED from /repo (finite, kernel-evaluated): every concrete class satisfies the
    class condition of the round-trip theorem, (including MAIL / MFINFO / STOCKINFO, whose groom-ungroom rename the theorem covers),
    except TAX1099INT_V100 (recorded finding of C13: repeated children not adjacent). *)
From OfxV Require Import Base.Prelude Model.Schema Model.SchemaWf Proofs.RoundTrip6 Gen.SchemaGen Gen.SchemaS.
Local Open Scope string_scope.
Theorem rt_classes_generated :
  map ci_name (filter (fun c => concrete c && negb (rt_class_okb c)) S) = ["TAX1099INT_V100"].
Proof. vm_compute. reflexivity. Qed.
Print Assumptions rt_classes_generated.
