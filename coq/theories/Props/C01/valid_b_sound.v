(** C01 obligation: the boolean evaluated on real instances by the correspondence run decides membership in the theorem's domain. *)
From OfxV Require Import Base.Prelude Model.Schema Model.Convert Model.ConvertCases Model.ValidB Proofs.RoundTrip3 Proofs.ValidBSound.
Theorem valid_b_sound : forall sval sval_eqb, (forall a b, sval_eqb a b = true -> a = b) ->
  forall conv unconv S i, valid_b sval sval_eqb conv unconv S i = true -> valid sval conv unconv S i.
Proof. exact valid_b_sound_l. Qed.
Print Assumptions valid_b_sound.
