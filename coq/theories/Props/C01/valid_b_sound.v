(** C01 obligation: the boolean evaluated on real instances by the correspondence run decides membership in the theorem's domain. *)
From OfxV Require Import Base.Prelude Model.Schema Model.Convert Model.ConvertCases Model.ValidB Proofs.RoundTrip3 Proofs.ValidBSound.
Theorem valid_b_sound : forall tb utb S i, valid_b tb utb S i = true -> valid hval (tconv tb) (tunconv utb) S i.
Proof. exact valid_b_sound_l. Qed.
Print Assumptions valid_b_sound.
