(** C19 obligation: inactive_never_requested.  After _merge_acctinfo every account id under an account option is either one
    the user named for that option (command line or configuration) or one the server lists as ACTIVE under that option. *)
From OfxV Require Import Base.Prelude Base.Digits Base.OfxgetBase Gen.OfxgetGen Model.OfxgetCfg Model.OfxgetAccts.
From OfxV Require Import Proofs.OfxgetAcctsProofs Proofs.OfxgetAcctsAll Proofs.OfxgetAcctsThms.
Local Open Scope N_scope.
Theorem inactive_never_requested : forall m0 rest r a' k id,
  In k acct_opts ->
  merge_acctinfo (m0 :: rest) r = OK a' ->
  In id (accts_of a' k) ->
  In id (accts_of (m0 :: rest) k) \/ exists l, extract_acctinfos r = OK l /\ listed_active k id l.
Proof. exact inactive_never_requested_l. Qed.
Print Assumptions inactive_never_requested.
