(** C19 obligation: all_is_exactly_active.  With --all, no account list on the command line (m0) and none configured
    (rest yields the built-in empty lists): the requests are exactly, kind by kind and in the server's order, the accounts the
    ACCTINFORS lists as ACTIVE - checking, savings, money-market, credit-line, then credit cards, then (stmt only)
    investment accounts.  The four bank types are those of the loops regenerated from the source (types_ok). *)
From OfxV Require Import Base.Prelude Base.Digits Base.OfxgetBase Gen.OfxgetGen Model.OfxgetCfg Model.OfxgetAccts.
From OfxV Require Import Proofs.OfxgetAcctsProofs Proofs.OfxgetAcctsAll Proofs.OfxgetAcctsThms.
Local Open Scope N_scope.
Theorem all_is_exactly_active : forall conv r m0 rest,
  py_truthy (get_or (m0 :: rest) (T "all") PNone) = true ->
  no_account_lists m0 rest ->
  (forall ds, request_stmt conv r (m0 :: rest) = OK ds ->
     exists l dt a', extract_acctinfos r = OK l /\ convert_datetime conv (m0 :: rest) = OK dt /\
                     merge_acctinfo (m0 :: rest) r = OK a' /\
                     Forall2 (doc_matches a' dt) (expect_active KStmt KCcStmt l ++ expect_active_inv l) ds) /\
  (forall ds, request_stmtend conv r (m0 :: rest) = OK ds ->
     exists l dt a', extract_acctinfos r = OK l /\ convert_datetime conv (m0 :: rest) = OK dt /\
                     merge_acctinfo (m0 :: rest) r = OK a' /\
                     Forall2 (doc_matches a' dt) (expect_active KStmtEnd KCcStmtEnd l) ds).
Proof. exact all_is_exactly_active_l. Qed.
Print Assumptions all_is_exactly_active.
