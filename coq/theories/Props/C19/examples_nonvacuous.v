(** C19: the hypotheses of the obligations are inhabited: a stmt run with accounts of every type, a closing-statement run, and an
    --all run against a reply mixing ACTIVE and other accounts (vm_compute on the model). *)
From OfxV Require Import Base.Prelude Base.Digits Base.OfxgetBase Gen.OfxgetGen Model.OfxgetCfg Model.OfxgetAccts.
From OfxV Require Import Proofs.OfxgetAcctsProofs Proofs.OfxgetAcctsAll Proofs.OfxgetAcctsThms.
Local Open Scope N_scope.
Definition ex_cli : amap :=
  [(T "server", PStr (T "srv")); (T "bankid", PStr (T "111000614")); (T "brokerid", PStr (T "brk"));
   (T "checking", PList [T "1"; T "2"]); (T "creditline", PList [T "3"]); (T "creditcard", PList [T "4"]);
   (T "investment", PList [T "5"]); (T "dtstart", PStr (T "20200102")); (T "dryrun", PBool true)].
Definition ex_args : args := [ex_cli; []; og_defaults].
Definition ex_conv (s : text) : result Z := if text_eqb s (T "20200102") then OK 1577923200000%Z else Err Reject.
Definition ex_reply : reply :=
  {| rp_sonrs := 0; rp_trnrs := [ {| t_code := 0; t_rs := Some [[InvInfo (T "brk") (T "i1") AVAIL; CcInfo (T "c1") ACTIVE];
                                                                  [BankInfo (T "111000614") (T "b1") SAVINGS ACTIVE];
                                                                  [BankInfo (T "111000614") (T "b2") CD ACTIVE; CcInfo (T "c2") PEND]] |} ] |}.
Definition ex_all : args := [[(T "all", PBool true)]; [(T "url", PStr (T "https://x/"))]; og_defaults].
Theorem examples_nonvacuous :
  rmap (map o_acctid) (request_stmt ex_conv ex_reply ex_args) = OK [T "1"; T "2"; T "3"; T "4"; T "5"]
  /\ rmap (map o_acctid) (request_stmtend ex_conv ex_reply ex_args) = OK [T "1"; T "2"; T "3"; T "4"]
  /\ rmap (map o_acctid) (request_stmt ex_conv ex_reply ex_all) = OK [T "b1"; T "c1"]
  /\ py_truthy (get_or ex_all (T "all") PNone) = true
  /\ types_ok = true
  /\ no_account_lists [(T "all", PBool true)] [[(T "url", PStr (T "https://x/"))]; og_defaults].
Proof.
  repeat split; try (vm_compute; reflexivity);
    unfold acct_opts in H; cbn [In] in H; decompose [or] H; try contradiction; subst k; vm_compute; reflexivity.
Qed.
Print Assumptions examples_nonvacuous.
