(** C19 obligation: stmt_requests_exact.  For every merged argument map (any account lists, dates, flags) on which
    `ofxget stmt` produces a request document, the statement requests of the document correspond one to one and in
    order (Forall2) to the expected list: for each account-type option in the loop order, one request per configured
    account, then the credit cards, then the investment accounts - each of its own kind and type, with the client's
    bank / broker id, the converted start / end / as-of dates and the include flags (doc_matches); with --all the
    account lists are those of the arguments after _merge_acctinfo. *)
From OfxV Require Import Base.Prelude Base.Digits Base.OfxgetBase Gen.OfxgetGen Model.OfxgetCfg Model.OfxgetAccts.
From OfxV Require Import Proofs.OfxgetAcctsProofs Proofs.OfxgetAcctsAll Proofs.OfxgetAcctsThms.
Local Open Scope N_scope.
Theorem stmt_requests_exact : forall conv r a ds,
  request_stmt conv r a = OK ds ->
  exists dt a', convert_datetime conv a = OK dt /\ with_all a r = OK a' /\
                (py_truthy (get_or a (T "all") PNone) = false -> a' = a) /\
                Forall2 (doc_matches a' dt) (expect_stmt a') ds.
Proof. exact stmt_requests_exact_full. Qed.
Print Assumptions stmt_requests_exact.
