(** C19 obligation: all_overrides_file_not_cli.  The interplay, stated: command-line lists shadow discovered ones; discovered
    lists shadow configured ones - for a bank type / investment only when the server lists at least one ACTIVE account of it,
    for credit cards as soon as it lists any credit-card account. *)
From OfxV Require Import Base.Prelude Base.Digits Base.OfxgetBase Gen.OfxgetGen Model.OfxgetCfg Model.OfxgetAccts.
From OfxV Require Import Proofs.OfxgetAcctsProofs Proofs.OfxgetAcctsAll Proofs.OfxgetAcctsThms.
Local Open Scope N_scope.
Theorem all_overrides_file_not_cli : forall m0 rest r a',
  merge_acctinfo (m0 :: rest) r = OK a' ->
  exists l, extract_acctinfos r = OK l /\
    (forall k v, assoc k m0 = Some v -> args_get a' k = Some v) /\
    (forall ty, assoc (bankty_name ty) m0 = None ->
       args_get a' (bankty_name ty) =
       if is_nil (active_bank ty l) then args_get rest (bankty_name ty) else Some (PList (active_bank ty l))) /\
    (assoc (T "creditcard") m0 = None ->
       args_get a' (T "creditcard") = if lists_cc l then Some (PList (active_cc l)) else args_get rest (T "creditcard")) /\
    (assoc (T "investment") m0 = None ->
       args_get a' (T "investment") =
       if is_nil (active_inv l) then args_get rest (T "investment") else Some (PList (active_inv l))).
Proof. exact all_overrides_file_not_cli_l. Qed.
Print Assumptions all_overrides_file_not_cli.
