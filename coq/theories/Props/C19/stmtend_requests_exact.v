(** C19 obligation: stmtend_requests_exact (closing statements: bank types in loop order, then credit cards; no investment accounts). *)
From OfxV Require Import Base.Prelude Base.Digits Base.OfxgetBase Gen.OfxgetGen Model.OfxgetCfg Model.OfxgetAccts.
From OfxV Require Import Proofs.OfxgetAcctsProofs Proofs.OfxgetAcctsAll Proofs.OfxgetAcctsThms.
Local Open Scope N_scope.
Theorem stmtend_requests_exact : forall conv r a ds,
  request_stmtend conv r a = OK ds ->
  exists dt a', convert_datetime conv a = OK dt /\ with_all a r = OK a' /\
                (py_truthy (get_or a (T "all") PNone) = false -> a' = a) /\
                Forall2 (doc_matches a' dt) (expect_stmtend a') ds.
Proof. exact stmtend_requests_exact_full. Qed.
Print Assumptions stmtend_requests_exact.
