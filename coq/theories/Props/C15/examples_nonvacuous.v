(** C15: the hypotheses are inhabited (the concrete codec of the correspondence run satisfies dec (enc p) = Some p; keys_not_shared holds of
    a two-institution configuration) and the repaired protocol really goes through the states the theorems speak about: the same two
    adversarial traces that break the old protocol leave, under the new one, an absent cache plus a stray temporary file (crash) and one
    whole profile (two writers), and the follow-up request succeeds. *)
From OfxV Require Import Base.Prelude Model.ProfileCache Model.ProfileCacheCases Proofs.ProfileCacheProofs.
Local Open Scope N_scope.
Definition new_crash : list event := crash_trace.
Definition new_race : list event :=
  [ESpawn c17; ESpawn c17; EStep 0 (BProfile p_long); EStep 0 (BProfile p_long); EStep 1 (BProfile p_short); EStep 1 (BProfile p_short)]
  ++ [EStep 0 (BProfile p_long); EStep 1 (BProfile p_short); EStep 0 (BProfile p_long); EStep 1 (BProfile p_short); EStep 1 (BProfile p_short);
      EStep 0 (BProfile p_long); EStep 0 (BProfile p_long); EStep 0 (BProfile p_long); EStep 1 (BProfile p_short); EStep 1 (BProfile p_short);
      EStep 1 (BProfile p_short); EStep 0 (BProfile p_long)].
Theorem examples_nonvacuous :
  (forall p, dec_c (enc_c p) = Some p)
  /\ keys_not_shared [Cfg 0 (Some 1) (Some 1); Cfg 1 (Some 2) (Some 2); Cfg 0 (Some 1) (Some 1)]
  /\ (let st := run enc_c dec_c PNew init new_crash in
      fs_get (s_fs st) (FCache (key_of c17)) = None /\ fs_get (s_fs st) (FTmp 0) = Some []
      /\ result_of (call enc_c dec_c PNew st c17 (BProfile p_next)) 1 = Some (OK p_next))
  /\ (let st := run enc_c dec_c PNew init new_race in
      fs_get (s_fs st) (FCache (key_of c17)) = Some (enc_c p_long)
      /\ result_of st 0 = Some (OK p_long) /\ result_of st 1 = Some (OK p_short)
      /\ result_of (call enc_c dec_c PNew st c17 BUpToDate) 2 = Some (OK p_long))
  /\ well_behaved (Some p_long) BUpToDate /\ well_behaved None (BProfile p_long).
Proof.
  split; [exact dec_enc_c|]. split.
  - intros c c' [<-|[<-|[<-|[]]]] [<-|[<-|[<-|[]]]] E; try reflexivity; discriminate.
  - vm_compute. repeat split; reflexivity.
Qed.
Print Assumptions examples_nonvacuous.
