(** C15 obligation over the constants REGENERATED from /repo on every run: request_profile builds the cache file name from ORG and FID only
    (what [key_of] models).  Breaks (fail closed) if the source changes the key. *)
From OfxV Require Import Base.Prelude Gen.ClientGen.
Theorem generated_constants_as_modelled : cache_key_is_org_fid = true.
Proof. vm_compute. reflexivity. Qed.
Print Assumptions generated_constants_as_modelled.
