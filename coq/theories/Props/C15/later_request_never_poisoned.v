(** C15 obligation: from EVERY reachable state (after any crashes and interleavings) the cache file of any client is absent or decodes,
    and a subsequent request against a well-behaved server (one that says "up to date" only to a client holding a profile, or sends a
    profile not older than the one held) succeeds and leaves a whole cache file again. *)
From OfxV Require Import Base.Prelude Model.ProfileCache Proofs.ProfileCacheProofs.
Local Open Scope N_scope.
Theorem later_request_never_poisoned : forall (enc : profile -> bytes) (dec : bytes -> option profile),
  (forall p, dec (enc p) = Some p) ->
  forall (es : list event) (c : cfg) (b : behaviour),
  let st := run enc dec PNew init es in
  exists held, fs_get (s_fs st) (FCache (key_of c)) = option_map enc held
    /\ (well_behaved held b ->
          exists p, result_of (call enc dec PNew st c b) (List.length (s_threads st)) = Some (OK p)
                    /\ fs_get (s_fs (call enc dec PNew st c b)) (FCache (key_of c)) = Some (enc p)).
Proof. exact later_request_never_poisoned_l. Qed.
Print Assumptions later_request_never_poisoned.
