(** C15 obligation: in every reachable state, the profile a call has read from the cache (and asks with / falls back on) and the profile a
    call returns were delivered by the server at THAT call's URL.  Hypothesis made explicit: configurations sharing the cache key
    (org, fid) share the URL - finding 18; refuted without it in cache_shared_across_servers_refuted.v. *)
From OfxV Require Import Base.Prelude Model.ProfileCache Proofs.ProfileCacheProofs.
Local Open Scope N_scope.
Theorem cache_not_shared_across_servers : forall (enc : profile -> bytes) (dec : bytes -> option profile),
  (forall p, dec (enc p) = Some p) ->
  forall (es : list event), keys_not_shared (spawned es) ->
  let st := run enc dec PNew init es in
  forall i c t, nth_error (s_threads st) i = Some (c, t) ->
  forall p, (t = TNet (Some p) \/ t = TDone (OK p)) -> In (c_url c, p) (s_sent st).
Proof. exact cache_not_shared_across_servers_l. Qed.
Print Assumptions cache_not_shared_across_servers.
