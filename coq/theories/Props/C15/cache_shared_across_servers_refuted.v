(** C15 finding 18 pinned on the faithful model: clients for two different URLs configured without ORG/FID share None-None.profrs; the
    second one asks its server with the date of the FIRST server's profile and, told "up to date", returns that profile - which its own
    server never sent. *)
From OfxV Require Import Base.Prelude Model.ProfileCache Proofs.ProfileCacheProofs.
Local Open Scope N_scope.
Theorem cache_shared_across_servers_refuted :
  let st := run enc_c dec_c PNew init shared_trace in
  key_of cA18 = key_of cB18 /\ c_url cA18 <> c_url cB18
  /\ nth_error (s_threads st) 1 = Some (cB18, TDone (OK p_long))
  /\ s_asked st = [(0%nat, None); (1%nat, Some (p_date p_long))]
  /\ ~ In (c_url cB18, p_long) (s_sent st)
  /\ ~ keys_not_shared (spawned shared_trace).
Proof. exact cache_shared_across_servers_refuted_l. Qed.
Print Assumptions cache_shared_across_servers_refuted.
