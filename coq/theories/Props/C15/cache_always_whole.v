(** C15 obligation (repaired protocol, fixes/C15-1): in EVERY reachable state - any number of request_profile calls, spawned at any time,
    their atomic steps interleaved arbitrarily, any of them killed between any two steps, the server answering adversarially - every cache
    file is absent or is byte for byte one complete profile that a server delivered (never empty, truncated or a splice of two).
    For any codec with dec (enc p) = Some p.  No bound on the length of the event sequence. *)
From OfxV Require Import Base.Prelude Model.ProfileCache Proofs.ProfileCacheProofs.
Local Open Scope N_scope.
Theorem cache_always_whole : forall (enc : profile -> bytes) (dec : bytes -> option profile),
  (forall p, dec (enc p) = Some p) ->
  forall (es : list event) (k : ckey) (content : bytes),
  fs_get (s_fs (run enc dec PNew init es)) (FCache k) = Some content ->
  exists u p, In (u, p) (s_sent (run enc dec PNew init es)) /\ content = enc p.
Proof. exact cache_always_whole_l. Qed.
Print Assumptions cache_always_whole.
