(** C15 obligation: for EVERY history [pre ++ [b]] of server behaviours met by the successive calls of a client (no bound on its length):
    before the last call the cache holds exactly the newest profile sent so far (later one among equal dates); the call asks with that
    profile's date (None = the library's 1990 placeholder); it completes; if it succeeds it returns the newest profile the server has sent
    including this answer; if it fails the file system is unchanged; afterwards the cache again holds the newest sent, whose date is not
    smaller than before. *)
From OfxV Require Import Base.Prelude Model.ProfileCache Proofs.ProfileCacheProofs.
Local Open Scope N_scope.
Theorem sequential_history : forall (enc : profile -> bytes) (dec : bytes -> option profile),
  (forall p, dec (enc p) = Some p) ->
  forall (c : cfg) (pre : list behaviour) (b : behaviour),
  let st0 := seqrun enc dec init c pre in
  let st1 := call enc dec PNew st0 c b in
  let i := List.length (s_threads st0) in
  let held := newest (profiles_of pre) in
  fs_get (s_fs st0) (FCache (key_of c)) = option_map enc held
  /\ s_asked st1 = (s_asked st0 ++ [(i, option_map p_date held)])%list
  /\ (exists r, result_of st1 i = Some r)
  /\ (forall p, result_of st1 i = Some (OK p) -> Some p = newest (profiles_of (pre ++ [b])))
  /\ (forall e, result_of st1 i = Some (Err e) -> s_fs st1 = s_fs st0)
  /\ fs_get (s_fs st1) (FCache (key_of c)) = option_map enc (newest (profiles_of (pre ++ [b])))
  /\ date_le held (newest (profiles_of (pre ++ [b]))).
Proof. exact sequential_history_l. Qed.
Print Assumptions sequential_history.
