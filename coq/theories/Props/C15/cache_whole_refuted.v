(** C15 finding 17, kept as documentation: for the protocol AS FOUND (POld: open(path,"wb") truncates, the buffered data reaches the file at
    close) cache_always_whole and later_request_never_poisoned are false.  (a) A kill right after the open leaves a 0-byte file, which is
    no profile, and the next request fails - under the old and under the repaired protocol alike, so the repair must also be robust to
    files left by the old code: it is, it only ever replaces the file.  (b) Two calls of one client, the long document written first and
    the short one over it, leave short ++ tail-of-long, which is none of the profiles sent, and the next request fails. *)
From OfxV Require Import Base.Prelude Model.ProfileCache Proofs.ProfileCacheProofs.
Local Open Scope N_scope.
Theorem cache_whole_refuted :
  (let st := run enc_c dec_c POld init crash_trace in
   fs_get (s_fs st) (FCache (key_of c17)) = Some []
   /\ (forall p, enc_c p <> [])
   /\ result_of (call enc_c dec_c POld st c17 (BProfile p_next)) (List.length (s_threads st)) = Some (Err Reject)
   /\ result_of (call enc_c dec_c PNew st c17 (BProfile p_next)) (List.length (s_threads st)) = Some (Err Reject))
  /\ (let st := run enc_c dec_c POld init splice_trace in
      fs_get (s_fs st) (FCache (key_of c17)) = Some (enc_c p_short ++ skipn (List.length (enc_c p_short)) (enc_c p_long))%list
      /\ result_of st 0 = Some (OK p_long) /\ result_of st 1 = Some (OK p_short)
      /\ (forall p, In p (map snd (s_sent st)) -> fs_get (s_fs st) (FCache (key_of c17)) <> Some (enc_c p))
      /\ result_of (call enc_c dec_c POld st c17 BUpToDate) (List.length (s_threads st)) = Some (Err Reject)).
Proof. exact cache_whole_refuted_l. Qed.
Print Assumptions cache_whole_refuted.
