(** C04 obligation: unknown_keyword_rejected *)
From OfxV Require Import Base.Prelude Model.Schema Model.SchemaWf Model.Convert Model.Satisfies Proofs.ConvertSound Proofs.ConvertTree Proofs.ConvertUnknown Proofs.SatisfiesRefl.
Theorem unknown_keyword_rejected : forall sval conv S cn c args kw k,
  find_cls S cn = Some c -> In k (map fst kw) -> mem k (map fst (spec_no_list c)) = false ->
  exists e, construct sval conv S cn args kw = Err e.
Proof. exact unknown_keyword_rejected_l. Qed.
Print Assumptions unknown_keyword_rejected.
