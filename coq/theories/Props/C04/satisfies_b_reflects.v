(** C04 obligation: satisfies_b_reflects *)
From OfxV Require Import Base.Prelude Model.Schema Model.SchemaWf Model.Convert Model.Satisfies Proofs.ConvertSound Proofs.ConvertTree Proofs.ConvertUnknown Proofs.SatisfiesRefl.
(** the boolean validator run over every real instance decides exactly the declarative predicate *)
Theorem satisfies_b_reflects : forall sval S i, satisfies_b sval S i = true <-> satisfies sval S i.
Proof. exact satisfies_b_reflects_l. Qed.
Print Assumptions satisfies_b_reflects.
