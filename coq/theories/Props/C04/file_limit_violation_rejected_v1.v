(** C04 obligation through the FRONT DOOR (OFXTree.parse + convert), version-1 (SGML) file, the body in the codec cd the header's CHARSET declares: for every valid header and
    tolerated layout, every well-formed document in any rendering, every class table and converter table: when the first defined non-list
    child of the root that carries the tag of attribute k holds a text violating k's declared element type (over-long string, integer with
    too many digits, token outside the enumeration, ...: [violates]), the file is split by parse_header, parsed to the document's tree by the
    tokenizer and tree builder, and conversion of that tree FAILS: no instance.  Composition of C05's parse_header_exact, C02's
    parse_render_faithful and typed_limit_violation_rejected_tree.  (Header / rendering hypotheses shown inhabited by the Example of
    Props/C03/file_places_typed_values_v1.v, the limit hypotheses by the correspondence cases of the front-door stream.) *)
From OfxV Require Import Base.Prelude Base.Digits Base.SgmlBase Model.Schema Model.Convert Model.Sgml Model.SgmlSpec Model.Scalars Model.Typed
     Model.Header Model.HeaderLayout Gen.HeaderGen Proofs.HeaderParse Proofs.WireRoundTrip Proofs.ConvertSound Proofs.ConvertPlaces Proofs.TypedLimits
     Proofs.FileRoundTrip Proofs.FilePlaces.
Local Open Scope N_scope.
Theorem file_limit_violation_rejected_v1 :
  forall l h cd table conv_dt S (d : doc) (r : rdoc) encbody tag xx ch c k t req e child rn x pre post,
    valid1 h = true -> lay1_ok l h = true -> spec_codec (h1_charset h) = Some cd ->
    wf_doc d = true -> ok_rendering [] r d -> ends_tag r = true -> all_ws (last_ws r) = true ->
    encode_opt cd (render [] r) = Some encbody ->
    tree_of d = up (Node tag xx ch) ->
    lookup_tag S tag = Some c -> In (k, AElem t req) (spec_no_list c) ->
    filter (fun en => negb (is_list_entry en)) (entries c false ch) = (pre ++ (k, AElem t req, child, rn) :: post)%list ->
    (forall p, In p pre -> entry_name p <> k) ->
    etext child = Some x -> x <> [] ->
    lookup_ety table t = Some (ESty e) -> violates e x ->
    exists msg, parse_header (file1 l h encbody) = OK (H1 h, msg)
                /\ parse repaired msg = OK (Some (up (Node tag xx ch)))
                /\ exists err, from_etree pyval (conv_typed table conv_dt) S (Node tag xx ch) = Err err.
Proof. exact file_limit_violation_rejected_v1_l. Qed.
Print Assumptions file_limit_violation_rejected_v1.
