(** C04 obligation (keyword route, ANY keyword arguments - empty strings included; after the repair "fix: an empty string does not
    count as a member of a mutex group"): every instance the constructor returns satisfies all constraints of its class.  The
    hypotheses are about the element converters only - "" never converts to a value and is refused where the class requires the
    element (checked on every real converter by the correspondence run; PROVED for the concrete converters in
    typed_converters_refuse_empty) - and the kernel-evaluated well-formedness of the class's groups. *)
From OfxV Require Import Base.Prelude Model.Schema Model.SchemaWf Model.Convert Model.Satisfies Proofs.ConvertSound.
Theorem construct_sound_any_kw : forall sval conv S cn args kw i,
  conv_none_only_empty sval conv -> conv_empty_never_value sval conv ->
  (forall c, find_cls S cn = Some c -> conv_required_refuses_empty sval conv c) ->
  (forall c, find_cls S cn = Some c -> groups_wf c) ->
  construct sval conv S cn args kw = OK i -> satisfies sval S i.
Proof. exact construct_sound_any_kw_l. Qed.
Print Assumptions construct_sound_any_kw.
