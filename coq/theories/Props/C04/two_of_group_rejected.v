(** C04 obligation: two_of_group_rejected *)
From OfxV Require Import Base.Prelude Model.Schema Model.SchemaWf Model.Convert Model.Satisfies Proofs.ConvertSound Proofs.ConvertTree Proofs.ConvertUnknown Proofs.SatisfiesRefl.
Theorem two_of_group_rejected : forall sval conv S cn c args kw g,
  find_cls S cn = Some c -> In g (ci_optmx c ++ ci_reqmx c) -> (2 <= count_present sval kw g)%nat ->
  exists e, construct sval conv S cn args kw = Err e.
Proof. exact two_of_group_rejected_l. Qed.
Print Assumptions two_of_group_rejected.
