(** C04 obligation (the same through conversion from an element tree): when the first defined non-list child of the document that
    carries the tag of attribute k holds a text violating k's declared element type, from_etree fails: no instance.
    (The defined children are named through [entries], the vocabulary of C03's obligations.) *)
From OfxV Require Import Base.Prelude Model.Schema Model.Convert Model.Scalars Model.Typed Proofs.ConvertSound Proofs.ConvertPlaces Proofs.TypedLimits.
Theorem typed_limit_violation_rejected_tree :
  forall table conv_dt S tag xx ch c k t req e child rn x pre post,
    lookup_tag S tag = Some c -> In (k, AElem t req) (spec_no_list c) ->
    filter (fun en => negb (is_list_entry en)) (entries c false ch) = (pre ++ (k, AElem t req, child, rn) :: post)%list ->
    (forall p, In p pre -> entry_name p <> k) ->
    etext child = Some x -> x <> [] ->
    lookup_ety table t = Some (ESty e) -> violates e x ->
    exists err, from_etree pyval (conv_typed table conv_dt) S (Node tag xx ch) = Err err.
Proof. exact typed_limit_violation_rejected_tree_l. Qed.
Print Assumptions typed_limit_violation_rejected_tree.
