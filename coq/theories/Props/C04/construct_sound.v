(** C04 obligation: construct_sound *)
From OfxV Require Import Base.Prelude Model.Schema Model.SchemaWf Model.Convert Model.Satisfies Proofs.ConvertSound Proofs.ConvertTree Proofs.ConvertUnknown Proofs.SatisfiesRefl.
(** keyword route: every instance that exists satisfies all constraints of its class (hypotheses: what the converters do with "" and
    natives - only the empty string converts to None; no keyword holds the empty string (recorded finding); group members are optional non-repeated children) *)
Theorem construct_sound : forall sval conv S cn args kw i,
  conv_none_only_empty sval conv -> no_empty_text sval kw -> (forall c, find_cls S cn = Some c -> groups_wf c) ->
  construct sval conv S cn args kw = OK i -> satisfies sval S i.
Proof. exact construct_sound_l. Qed.
Print Assumptions construct_sound.
