(** C04 obligation: foreign_member_rejected *)
From OfxV Require Import Base.Prelude Model.Schema Model.SchemaWf Model.Convert Model.Satisfies Proofs.ConvertSound Proofs.ConvertTree Proofs.ConvertUnknown Proofs.SatisfiesRefl.
Theorem foreign_member_rejected : forall sval conv S cn c args kw j,
  find_cls S cn = Some c -> ci_elist c = false -> In (KInst sval j) args -> mem (lower (icls sval j)) (listaggregates c) = false ->
  exists e, construct sval conv S cn args kw = Err e.
Proof. exact foreign_member_rejected_l. Qed.
Print Assumptions foreign_member_rejected.
