(** C04 obligation: the two converter hypotheses of construct_sound_any_kw hold for the CONCRETE converters - under every element
    type of the typed model the empty string never converts to a value, and it is refused under every element a class requires -
    for the date-time readers of the C09 engine and, by kernel evaluation, for every class of the table regenerated from /repo
    (the element-type table agrees with the classes about what is required). *)
From OfxV Require Import Base.Prelude Model.Schema Model.Convert Model.Scalars Model.Typed Model.TypedDT Proofs.ConvertSound Proofs.TypedLimits
     Gen.SchemaGen Gen.SchemaS Gen.TypedGen Gen.DateTimeGen.
Theorem typed_converters_refuse_empty :
  conv_empty_never_value pyval (conv_typed ety_table (conv_dt_m nd_zeros tzs))
  /\ (forall c, In c S -> conv_required_refuses_empty pyval (conv_typed ety_table (conv_dt_m nd_zeros tzs)) c).
Proof.
  assert (Hdt : forall b, exists k, conv_dt_m nd_zeros tzs b [] = Err k) by (intros [|]; vm_compute; eauto).
  split.
  - apply typed_conv_empty_never_value. exact Hdt.
  - intros c Hin. apply typed_conv_required_refuses_empty; [exact Hdt|]. apply required_agree_b_sound.
    assert (Hall : forallb (required_agree_b ety_table) S = true) by (vm_compute; reflexivity).
    rewrite forallb_forall in Hall. exact (Hall c Hin).
Qed.
Print Assumptions typed_converters_refuse_empty.
