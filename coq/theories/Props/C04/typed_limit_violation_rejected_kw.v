(** C04 obligation (limit clauses with the CONCRETE converters, keyword route): for any class table, element-type table and
    date-time converters, an attribute whose declared element type is a bounded strict string, a bounded integer, an enumeration
    or a boolean, given a text that violates it - longer than the maximum, |z| >= 10^n, a token outside the set, not Y / N -
    makes the constructor fail: no instance.  ([violates]: Proofs/TypedLimits.v; strings entity-free as everywhere in C10.) *)
From OfxV Require Import Base.Prelude Model.Schema Model.Convert Model.Scalars Model.Typed Proofs.ConvertSound Proofs.TypedLimits.
Theorem typed_limit_violation_rejected_kw :
  forall table conv_dt S cn c args kw k t req e x,
    find_cls S cn = Some c -> In (k, AElem t req) (spec_no_list c) -> kwget pyval kw k = KText pyval x ->
    lookup_ety table t = Some (ESty e) -> violates e x ->
    exists err, construct pyval (conv_typed table conv_dt) S cn args kw = Err err.
Proof. exact typed_limit_violation_rejected_kw_l. Qed.
Print Assumptions typed_limit_violation_rejected_kw.
