(** C04 obligation (values exactly at a limit are accepted, concrete converters): a string of at most the declared length and an
    integer with |z| <= 10^n - 1 are converted to themselves; and the limit clauses are not vacuous on the element-type table
    regenerated from /repo: it declares bounded strict strings, bounded integers, enumerations and booleans. *)
From OfxV Require Import Base.Prelude Base.Digits Model.Schema Model.Convert Model.PyDecimal Model.Scalars Model.Typed Proofs.TypedLimits Gen.TypedGen.
Local Open Scope N_scope.
Definition declares (p : sty -> bool) : bool :=
  existsb (fun q => match snd q with ESty e => p (elem_sty e) | _ => false end) ety_table.
Theorem typed_at_limit_accepted :
  (forall table conv_dt t e, lookup_ety table t = Some (ESty e) ->
    (forall n strict s, elem_sty e = TString (Some n) strict -> tlen s <= n -> s <> [] -> string_unescape s = s ->
       conv_typed table conv_dt t (SText pyval s) = OK (Some (PStr s)))
    /\ (forall n z, elem_sty e = TInteger (Some n) -> (Z.abs z < Z.of_N (10 ^ n))%Z -> (List.length (dec_of_N (Z.abs_N z)) <= MAX_STR_DIGITS)%nat ->
       conv_typed table conv_dt t (SText pyval (Z_text z)) = OK (Some (PInt z))))
  /\ declares (fun s => match s with TString (Some _) true => true | _ => false end) = true
  /\ declares (fun s => match s with TInteger (Some _) => true | _ => false end) = true
  /\ declares (fun s => match s with TOneOf (_ :: _) => true | _ => false end) = true
  /\ declares (fun s => match s with TBool => true | _ => false end) = true.
Proof. split; [exact typed_at_limit_accepted_l|]. vm_compute. repeat split. Qed.
Print Assumptions typed_at_limit_accepted.
