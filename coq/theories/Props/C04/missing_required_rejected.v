(** C04 obligation: missing_required_rejected *)
From OfxV Require Import Base.Prelude Model.Schema Model.SchemaWf Model.Convert Model.Satisfies Proofs.ConvertSound Proofs.ConvertTree Proofs.ConvertUnknown Proofs.SatisfiesRefl.
Theorem missing_required_rejected : forall sval conv S cn c args kw k a,
  find_cls S cn = Some c -> In (k, a) (spec_no_list c) ->
  (match a with AElem _ req | ASub _ req => req | _ => false end) = true ->
  kwget sval kw k = KNone sval -> exists e, construct sval conv S cn args kw = Err e.
Proof. exact missing_required_rejected_l. Qed.
Print Assumptions missing_required_rejected.
