(** C04 obligation: none_of_required_group_rejected *)
From OfxV Require Import Base.Prelude Model.Schema Model.SchemaWf Model.Convert Model.Satisfies Proofs.ConvertSound Proofs.ConvertTree Proofs.ConvertUnknown Proofs.SatisfiesRefl.
Theorem none_of_required_group_rejected : forall sval conv S cn c args kw g,
  find_cls S cn = Some c -> In g (ci_reqmx c) -> count_present sval kw g = 0%nat ->
  exists e, construct sval conv S cn args kw = Err e.
Proof. exact none_of_required_group_rejected_l. Qed.
Print Assumptions none_of_required_group_rejected.
