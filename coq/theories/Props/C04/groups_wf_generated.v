(** C04 obligation over the REGENERATED class table: every exclusivity group of every class names optional, non-repeated
    children of that class and attribute names are unique - the hypothesis [groups_wf] of the soundness theorems - except
    for the recorded findings (groups naming a repeated child in three tax classes). *)
From OfxV Require Import Base.Prelude Model.Schema Model.SchemaWf Gen.SchemaGen Gen.SchemaS.
Local Open Scope string_scope.
Definition groups_wfb (c : cinfo) : bool :=
  Nat.eqb (List.length (dups (map fst (ci_spec c)))) 0 && forallb (fun g => forallb (mutex_member_ok c) g) (ci_optmx c ++ ci_reqmx c).
Definition known_bad_groups : list string := ["TAX1099MISC_V100"; "TAX1099INT_V100"; "TAX1099DIV_V100"].
Theorem groups_wf_generated :
  map ci_name (filter (fun c => concrete c && negb (groups_wfb c)) S) = known_bad_groups.
Proof. vm_compute. reflexivity. Qed.
Print Assumptions groups_wf_generated.
