(** C04 obligation: wrong_subaggregate_rejected *)
From OfxV Require Import Base.Prelude Model.Schema Model.SchemaWf Model.Convert Model.Satisfies Proofs.ConvertSound Proofs.ConvertTree Proofs.ConvertUnknown Proofs.SatisfiesRefl.
Theorem wrong_subaggregate_rejected : forall sval conv S cn c args kw k target req j,
  find_cls S cn = Some c -> In (k, ASub target req) (spec_no_list c) ->
  kwget sval kw k = KInst sval j -> isinstance sval S j target = false ->
  exists e, construct sval conv S cn args kw = Err e.
Proof. exact wrong_subaggregate_rejected_l. Qed.
Print Assumptions wrong_subaggregate_rejected.
