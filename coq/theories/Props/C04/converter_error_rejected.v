(** C04 obligation: converter_error_rejected *)
From OfxV Require Import Base.Prelude Model.Schema Model.SchemaWf Model.Convert Model.Satisfies Proofs.ConvertSound Proofs.ConvertTree Proofs.ConvertUnknown Proofs.SatisfiesRefl.
(** over-long string, too many digits, foreign token, malformed text: whatever the element converter refuses, the constructor refuses *)
Theorem converter_error_rejected : forall sval conv S cn c args kw k t req x e0,
  find_cls S cn = Some c -> In (k, AElem t req) (spec_no_list c) ->
  (kwget sval kw k = KText sval x /\ conv t (SText sval x) = Err e0) ->
  exists e, construct sval conv S cn args kw = Err e.
Proof. exact converter_error_rejected_l. Qed.
Print Assumptions converter_error_rejected.
