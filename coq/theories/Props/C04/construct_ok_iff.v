(** C04 obligation: construct_ok_iff *)
From OfxV Require Import Base.Prelude Model.Schema Model.SchemaWf Model.Convert Model.Satisfies Proofs.ConvertSound Proofs.ConvertTree Proofs.ConvertUnknown Proofs.SatisfiesRefl.
Theorem construct_ok_iff : forall sval conv S cn args kw i,
  construct sval conv S cn args kw = OK i <->
  exists c fields members,
    find_cls S cn = Some c /\ hook_ok sval c args kw = true /\ optmx_ok sval c kw = true /\ reqmx_ok sval c kw = true
    /\ set_fields sval conv S kw (spec_no_list c) = OK fields /\ apply_args sval conv c args = OK members
    /\ residual_ok sval c kw = true /\ i = Inst sval cn fields members.
Proof. exact ConvertSound.construct_ok_iff. Qed.
Print Assumptions construct_ok_iff.
