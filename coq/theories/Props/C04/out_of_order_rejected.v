(** C04 obligation: out_of_order_rejected *)
From OfxV Require Import Base.Prelude Model.Schema Model.SchemaWf Model.Convert Model.Satisfies Proofs.ConvertSound Proofs.ConvertTree Proofs.ConvertUnknown Proofs.SatisfiesRefl.
(** tree route: sequence order and at-most-one occurrence of non-repeatable children *)
Theorem out_of_order_rejected : forall sval conv S tag x c ch1 e1 mid e2 ch2 i1 a1 i2 a2,
  lookup_tag S tag = Some c -> known_at c e1 i1 a1 -> known_at c e2 i2 a2 -> Forall (unknown_for c) mid ->
  (i2 <= i1)%nat -> (is_list_attr a1 && is_list_attr a2)%bool = false ->
  exists k, from_etree sval conv S (Node tag x (ch1 ++ e1 :: mid ++ e2 :: ch2)) = Err k.
Proof. exact out_of_order_rejected_l. Qed.
Print Assumptions out_of_order_rejected.
