(** C04 obligation: from_etree_sound_deep *)
From OfxV Require Import Base.Prelude Model.Schema Model.SchemaWf Model.Convert Model.Satisfies Proofs.ConvertSound Proofs.ConvertTree Proofs.ConvertUnknown Proofs.SatisfiesRefl.
(** tree route: the instance from_etree returns AND every instance nested in it at any depth satisfy their class declarations - for every document *)
Theorem from_etree_sound_deep : forall sval conv S,
  conv_none_only_empty sval conv -> (forall cn c, find_cls S cn = Some c -> groups_wf c) ->
  forall e i w, from_etree sval conv S e = OK (i, w) -> all_insts sval (satisfies sval S) i.
Proof. exact from_etree_sound_deep_l. Qed.
Print Assumptions from_etree_sound_deep.
