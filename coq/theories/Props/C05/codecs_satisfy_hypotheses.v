(** C05 obligation: the executable codecs of the model (latin_1, cp1252 from the generated table, strict UTF-8) decode an
    ASCII prefix followed by an encoded text to the prefix followed by the text, and encode '<' as the byte '<'. *)
From OfxV Require Import Base.Prelude Base.Digits Gen.HeaderGen Model.Header Model.HeaderLayout
  Proofs.HeaderParse Proofs.HeaderCodec Proofs.HeaderExact.
Local Open Scope N_scope.
Theorem codecs_satisfy_hypotheses :
  (forall cd a s b, ascii a = true -> encode_opt cd s = Some b -> decode_opt cd (a ++ b) = Some (a ++ s))
  /\ (forall cd s b, encode_opt cd (60 :: s) = Some b -> exists r, b = 60 :: r).
Proof. split; [exact codec_ok|exact codec_first]. Qed.
Print Assumptions codecs_satisfy_hypotheses.
