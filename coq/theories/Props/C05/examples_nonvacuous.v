(** C05: the hypotheses of the obligations are inhabited (concrete layouts, headers, bodies in all three charsets). *)
From OfxV Require Import Base.Prelude Base.Digits Gen.HeaderGen Model.Header Model.HeaderLayout
  Proofs.HeaderParse Proofs.HeaderCodec Proofs.HeaderExact.
Local Open Scope N_scope.
Definition h_iso : hdr1 := Hdr1 100 (T "OFXSGML") 160 (T "TYPE1") (T "UTF-8") (T "ISO-8859-1") (T "NONE") (T "a-b") (T "Z_9").
Definition h_utf : hdr1 := Hdr1 100 (T "OFXSGML") 102 (T "NONE") (T "UNICODE") (T "NONE") (T "NONE") (T "NONE") (T "NONE").
Definition lay_wild : lay1 :=
  Lay1 [[]; [32; 13]] [32] [32] [] [9] [] [] [] [] [] [32; 32] [] [10] [13] [13; 10] [32] [] [] [] false [].
Definition lay_blank_gap : lay1 :=
  Lay1 [[]; []; []; []; []; []; []] [] [] [] [] [] [] [] [] [] [] [10] [10] [10] [10] [10] [10] [10] [10] true [10; 10; 10; 13; 10].
Definition b_iso : text := T "<OFX>" ++ [233; 128; 159; 10] ++ T "<A>x</A>" ++ [13; 10] ++ T "</OFX>".
Definition b_utf : text := T "<OFX>" ++ [8364; 28450; 128169; 160] ++ T "</OFX>".
Definition h2 : hdr2 := Hdr2 200 220 (T "TYPE1") (T "x") (T "0123456789abcdefghijklmnopqrstuvwxyz").
Definition lay2_wild : lay2 := Lay2 [[]; [32]] (Some 39) (Some 34) None [] [13; 10; 13; 10].
Definition enc (cd : N) (s : text) : text := match encode_opt cd s with Some b => b | None => [] end.
Theorem examples_nonvacuous :
  valid1 h_iso = true /\ valid1 h_utf = true /\ valid2 h2 = true
  /\ lay1_ok lay_wild h_iso = true /\ lay1_ok lay_blank_gap h_utf = true /\ lay2_ok lay2_wild = true
  /\ body_ok b_iso = true /\ body_ok b_utf = true
  /\ encode_opt 0 (b_iso ++ [10]) <> None /\ encode_opt 2 b_utf <> None
  /\ parse_header (file1 lay_wild h_iso (enc 0 (b_iso ++ [10]))) = OK (H1 h_iso, b_iso)
  /\ parse_header (file1 lay_blank_gap h_utf (enc 2 b_utf)) = OK (H1 h_utf, b_utf)
  /\ parse_header (file2 lay2_wild h2 (enc 2 (b_utf ++ [13; 10]))) = OK (H2 h2, b_utf ++ [13; 10])
  /\ codec_of h_iso = OK 0 /\ codec_of h_utf = OK 2.
Proof. vm_compute. repeat split; try reflexivity; discriminate. Qed.
Print Assumptions examples_nonvacuous.
