(** C05 obligation: parse_header_exact_v2.  For every valid version-2 header, XML declaration with each pseudo-attribute
    (version, encoding, standalone) present in single or double quotes - chosen independently - or absent,
    any whitespace (line breaks or none) between XML declaration, OFX declaration and body, at most seven leading blank
    lines, and every body from '<' to '>' with optional trailing whitespace, UTF-8 encoded: parse_header returns the
    header's fields and the body followed by that trailing whitespace (the version-2 branch does not strip), i.e. exactly
    the body after str.strip() - the reading of DESIGN.md section 9. *)
From OfxV Require Import Base.Prelude Base.Digits Gen.HeaderGen Model.Header Model.HeaderLayout
  Proofs.HeaderParse Proofs.HeaderCodec Proofs.HeaderExact.
Local Open Scope N_scope.
Theorem parse_header_exact_v2 : forall l h body trail encbody,
  valid2 h = true -> lay2_ok l = true -> body_ok body = true -> all_ws trail = true ->
  encode_opt 2 (body ++ trail) = Some encbody ->
  parse_header (file2 l h encbody) = OK (H2 h, body ++ trail) /\ strip (body ++ trail) = body.
Proof. exact parse_header_exact_v2_c. Qed.
Print Assumptions parse_header_exact_v2.
