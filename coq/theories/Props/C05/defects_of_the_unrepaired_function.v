(** C05: the two defects of parse_header as it was before fixes/C05-1 (/repo f4204f9), pinned on the faithful model
    [parse_header_asis] by evaluation, next to the repaired function on the same bytes (corpus/C05/*.json):
    (1) multi-line header directly followed by the body: the first body character is lost;
    (2) CR-separated header with a cp1252 body on the scanned line: UnicodeDecodeError;
    (3) version-2 declarations and a UTF-8 body on one line: UnicodeDecodeError. *)
From OfxV Require Import Base.Prelude Base.Digits Gen.HeaderGen Model.Header Model.HeaderLayout
  Proofs.HeaderParse Proofs.HeaderCodec Proofs.HeaderExact.
Local Open Scope N_scope.
Definition exh : hdr1 := Hdr1 100 (T "OFXSGML") 102 (T "NONE") (T "USASCII") (T "1252") (T "NONE") (T "NONE") (T "NONE").
Definition lay_glued : lay1 := Lay1 [] [] [] [] [] [] [] [] [] [] [] CRLF CRLF CRLF CRLF CRLF CRLF CRLF CRLF true [].
Definition lay_cr : lay1 := Lay1 [] [] [] [] [] [] [] [] [] [] [] [13] [13] [13] [13] [13] [13] [13] [13] true [13].
Definition body1 : text := T "<OFX></OFX>".
Definition body2 : text := T "<OFX><A><B>caf" ++ [233; 32; 8364] ++ T "</B></A></OFX>".
Definition exh2 : hdr2 := Hdr2 200 203 (T "NONE") (T "NONE") (T "NONE").
Definition lay_oneline : lay2 := Lay2 [] (Some 34) (Some 34) (Some 34) [] [].
Definition enc (cd : N) (s : text) : text := match encode_opt cd s with Some b => b | None => [] end.
Theorem asis_refuted :
  parse_header_asis (file1 lay_glued exh (enc 1 body1)) = OK (H1 exh, T "OFX></OFX>")
  /\ parse_header (file1 lay_glued exh (enc 1 body1)) = OK (H1 exh, body1)
  /\ parse_header_asis (file1 lay_cr exh (enc 1 body2)) = Err Crash
  /\ parse_header (file1 lay_cr exh (enc 1 body2)) = OK (H1 exh, body2)
  /\ parse_header_asis (file2 lay_oneline exh2 (enc 2 body2)) = Err Crash
  /\ parse_header (file2 lay_oneline exh2 (enc 2 body2)) = OK (H2 exh2, body2).
Proof. vm_compute. repeat split; reflexivity. Qed.
Print Assumptions asis_refuted.
