(** C05 obligation: codec_is_declared_one.  The codec parse_header decodes the body with is the one the header declares:
    CHARSET ISO-8859-1 -> latin_1 (0), 1252 -> cp1252 (1), NONE -> utf_8 (2), from the generated OFXHeaderV1.codecs;
    version 2 -> utf_8; every header object the constructor returns has a codec. *)
From OfxV Require Import Base.Prelude Base.Digits Gen.HeaderGen Model.Header Model.HeaderLayout
  Proofs.HeaderParse Proofs.HeaderCodec Proofs.HeaderExact.
Local Open Scope N_scope.
Theorem codec_is_declared_one :
  (forall h, valid1 h = true -> exists cd, spec_codec (h1_charset h) = Some cd /\ codec_of h = OK cd)
  /\ v2_codec = 2
  /\ (forall v oh da se en ch co ol ne a, init_v1 v oh da se en ch co ol ne = OK a ->
        exists cd, spec_codec (h1_charset a) = Some cd /\ codec_of a = OK cd)
  /\ spec_codec (T "ISO-8859-1") = Some 0 /\ spec_codec (T "1252") = Some 1 /\ spec_codec (T "NONE") = Some 2.
Proof. exact codec_is_declared_one_l. Qed.
Print Assumptions codec_is_declared_one.
