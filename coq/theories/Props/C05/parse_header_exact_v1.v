(** C05 obligation: parse_header_exact_v1.  For every valid version-1 header h, every tolerated layout l (at most seven
    leading blank lines; blanks before OFXHEADER; any ASCII whitespace - or nothing - after each colon and between the
    fields, COMPRESSION present or not, the header within the nine physical lines the scanner reads; any whitespace gap,
    or none, before the body), every body from '<' to '>' followed by optional trailing whitespace, encoded with the
    codec cd the header's CHARSET declares (0 = latin_1, 1 = cp1252, 2 = utf_8): parse_header returns h's fields and
    exactly the body.  No layout is excluded: [parse_header] is the repaired function (fixes/C05-1, /repo f4204f9). *)
From OfxV Require Import Base.Prelude Base.Digits Gen.HeaderGen Model.Header Model.HeaderLayout
  Proofs.HeaderParse Proofs.HeaderCodec Proofs.HeaderExact.
Local Open Scope N_scope.
Theorem parse_header_exact_v1 : forall l h cd body trail encbody,
  valid1 h = true -> lay1_ok l h = true -> body_ok body = true -> all_ws trail = true ->
  spec_codec (h1_charset h) = Some cd -> encode_opt cd (body ++ trail) = Some encbody ->
  parse_header (file1 l h encbody) = OK (H1 h, body).
Proof. exact parse_header_exact_v1_c. Qed.
Print Assumptions parse_header_exact_v1.
