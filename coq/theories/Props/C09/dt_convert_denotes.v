(** C09 obligation: every rendering of a calendar-valid field tuple in the five date-time notations (YYYYMMDD alone or
    followed by HHMMSS, HHMMSS.XXX, HHMMSS.XXX[offset], HHMMSS[offset]), offset = optional sign, hours, optional .MM,
    optional :name, -12:00..+14:00, converts to the valid UTC field tuple whose instant is the denoted one
    (days-from-civil arithmetic).  No bound on the year beyond datetime's 1..9999; the only side condition is that
    the instant itself lies in datetime's range. *)
From OfxV Require Import Base.Prelude Base.Digits Model.Calendar Model.DateTimeM Model.DateTimeMCases Proofs.CalendarProofs Proofs.DateTimeMDigits Proofs.DateTimeMRead Proofs.DateTimeMWrite Proofs.DateTimeMGen Gen.DateTimeGen.
Local Open Scope Z_scope.
Theorem dt_convert_denotes : forall y mo d (t : option time_spec),
  date_ok y mo d -> (forall t', t = Some t' -> time_ok nd_zeros t') ->
  0 <= dt_denoted y mo d t < MAXORDINAL * US_DAY ->
  exists f, dt_convert nd_zeros tzs (render_dt y mo d t) = OK f
            /\ us_of_fields f = dt_denoted y mo d t /\ valid_fields f = true.
Proof. exact (dt_convert_denotes_l nd_zeros tzs nd_zeros_ascii). Qed.
Print Assumptions dt_convert_denotes.
