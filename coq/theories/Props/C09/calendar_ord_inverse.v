(** C09 obligation: ordinal -> date -> ordinal is the identity for every day number >= 1, and the date is valid. *)
From OfxV Require Import Base.Prelude Base.Digits Model.Calendar Model.DateTimeM Model.DateTimeMCases Proofs.CalendarProofs Proofs.DateTimeMDigits Proofs.DateTimeMRead Proofs.DateTimeMWrite Proofs.DateTimeMGen Gen.DateTimeGen.
Local Open Scope Z_scope.
Theorem calendar_ord_inverse : forall n, 1 <= n ->
  let '(y, m, d) := ord2ymd n in
  1 <= y /\ 1 <= m <= 12 /\ 1 <= d <= days_in_month y m /\ ymd2ord y m d = n.
Proof. exact ord_inverse_l. Qed.
Print Assumptions calendar_ord_inverse.
