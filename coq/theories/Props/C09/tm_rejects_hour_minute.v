(** C09 obligation: the same for time texts. *)
From OfxV Require Import Base.Prelude Base.Digits Model.Calendar Model.DateTimeM Proofs.DateTimeMDigits Proofs.DateTimeMReject Gen.DateTimeGen.
Local Open Scope N_scope.
Theorem tm_rejects_hour_minute : forall h mi sec rest, h < 100 -> mi < 100 -> sec < 100 -> (23 < h \/ 59 < mi \/ 60 < sec) ->
  tm_convert nd_zeros tzs (d2 h ++ d2 mi ++ d2 sec ++ rest) = Err Reject.
Proof. exact (tm_rejects_field_l nd_zeros tzs). Qed.
Print Assumptions tm_rejects_hour_minute.
