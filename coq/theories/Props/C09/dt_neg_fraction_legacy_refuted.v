(** C09: the reading of offsets in (-1h, 0) BEFORE the repair fixes/C09-1-negative-fraction-offset.diff
    ([dt_convert_gen false]: int("-0") = 0, copysign(x, 0) positive) is refuted on the text the library itself writes
    for 2020-01-02 03:04:05.678 in a zone 30 minutes west of GMT: it returns 02:34:05.678Z, one hour before the
    denoted instant 03:34:05.678Z, which the reference and the repaired reader ([dt_convert]) give. *)
From OfxV Require Import Base.Prelude Base.Digits Model.Calendar Model.DateTimeM Model.DateTimeMCases Proofs.CalendarProofs Proofs.DateTimeMDigits Proofs.DateTimeMRead Proofs.DateTimeMWrite Proofs.DateTimeMGen Gen.DateTimeGen.
Local Open Scope Z_scope.
Definition w0 : aware := mkaware (mkdtf 2020 1 2 3 4 5 678000) (Some (-1800)) (Some [88%N]).
Theorem dt_neg_fraction_legacy_refuted :
  exists v t, dt_unconvert v = OK t
    /\ t = T "20200102030405.678[-0.30:X]"
    /\ denote_dt tzs t = Some (instant_us v)
    /\ (exists f, dt_convert_gen false nd_zeros tzs t = OK f /\ us_of_fields f = instant_us v - 3600000000)
    /\ (exists f, dt_convert nd_zeros tzs t = OK f /\ us_of_fields f = instant_us v).
Proof.
  exists w0. eexists. split; [vm_compute; reflexivity|]. split; [reflexivity|]. split; [vm_compute; reflexivity|].
  split; eexists; (split; [vm_compute; reflexivity|vm_compute; reflexivity]).
Qed.
Print Assumptions dt_neg_fraction_legacy_refuted.
