(** C09 obligation: the same for Time().convert (instants on the 24-hour dial).
    Full statement: forall s f, tm_convert nd_zeros tzs s = OK f -> denote_tm tzs s = Some (tod_us f); proved under
    [plain_digits nd_zeros s = true] (see dt_convert_accepts_only_notation.v for what is missing). *)
From OfxV Require Import Base.Prelude Base.Digits Model.Calendar Model.DateTimeM Model.DateTimeMCases Proofs.DateTimeMRead Proofs.DateTimeMAccept Proofs.DateTimeMGen Gen.DateTimeGen.
Theorem tm_convert_accepts_only_notation_partial : forall s f, plain_digits nd_zeros s = true ->
  tm_convert nd_zeros tzs s = OK f -> denote_tm tzs s = Some (tod_us f).
Proof. exact (tm_accepts_only_l nd_zeros tzs nd_zeros_ascii). Qed.
Print Assumptions tm_convert_accepts_only_notation_partial.
