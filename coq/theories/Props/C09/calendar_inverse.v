(** C09 obligation: Python's date -> ordinal -> date is the identity for every valid date of every year >= 1
    (400-year periodicity + one kernel-evaluated sweep of a 146 097-day cycle). *)
From OfxV Require Import Base.Prelude Base.Digits Model.Calendar Model.DateTimeM Model.DateTimeMCases Proofs.CalendarProofs Proofs.DateTimeMDigits Proofs.DateTimeMRead Proofs.DateTimeMWrite Proofs.DateTimeMGen Gen.DateTimeGen.
Local Open Scope Z_scope.
Theorem calendar_inverse : forall y m d,
  1 <= y -> 1 <= m <= 12 -> 1 <= d <= days_in_month y m -> ord2ymd (ymd2ord y m d) = (y, m, d).
Proof. exact calendar_inverse_l. Qed.
Print Assumptions calendar_inverse.
