(** C09 obligation: the same for time values, instants taken on the 24-hour dial. *)
From OfxV Require Import Base.Prelude Base.Digits Model.Calendar Model.DateTimeM Model.DateTimeMCases Proofs.CalendarProofs Proofs.DateTimeMDigits Proofs.DateTimeMRead Proofs.DateTimeMWrite Proofs.DateTimeMGen Gen.DateTimeGen.
Local Open Scope Z_scope.
Theorem tm_roundtrip_half_ms : forall v offmin,
  a_off v = Some (offmin * 60) -> -720 <= offmin <= 840 -> time_valid (a_f v) -> name_readable nd_zeros offmin (a_name v) ->
  exists t f, tm_unconvert v = OK t /\ tm_convert nd_zeros tzs t = OK f
    /\ dial_close (tod_us f) (tod_us (a_f v) - offmin * 60 * 1000000) /\ tod_us f mod 1000 = 0.
Proof. exact (tm_roundtrip_half_ms_l nd_zeros tzs nd_zeros_ascii). Qed.
Print Assumptions tm_roundtrip_half_ms.
