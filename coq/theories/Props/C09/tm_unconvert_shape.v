(** C09 obligation: an aware time is written HHMMSS.XXX[+-h[.mm][:name]]. *)
From OfxV Require Import Base.Prelude Base.Digits Model.Calendar Model.DateTimeM Model.DateTimeMCases Proofs.CalendarProofs Proofs.DateTimeMDigits Proofs.DateTimeMRead Proofs.DateTimeMWrite Proofs.DateTimeMGen Gen.DateTimeGen.
Local Open Scope Z_scope.
Theorem tm_unconvert_shape : forall v off, a_off v = Some off -> time_valid (a_f v) ->
  exists h mi s ms hh sg mm,
    tm_unconvert v = OK (time_render (h, mi, s, Some ms, Some (mkoff sg hh mm (a_name v))))
    /\ (h < 24 /\ mi < 60 /\ s < 60 /\ ms < 1000)%N
    /\ (sg = SPlus \/ sg = SMinus) /\ (forall m, mm = Some m -> 1 <= m < 60)%N.
Proof. exact (tm_unconvert_shape_l nd_zeros). Qed.
Print Assumptions tm_unconvert_shape.
