(** C09 obligation: naive values are refused in both directions (DateTime and Time); aware values pass convert unchanged. *)
From OfxV Require Import Base.Prelude Base.Digits Model.Calendar Model.DateTimeM Model.DateTimeMCases Proofs.CalendarProofs Proofs.DateTimeMDigits Proofs.DateTimeMRead Proofs.DateTimeMWrite Proofs.DateTimeMGen Gen.DateTimeGen.
Theorem dt_naive_refused : forall v,
  (a_off v = None -> dt_unconvert v = Err Reject /\ tm_unconvert v = Err Reject /\ dt_convert_value v = Err Reject)
  /\ (forall off, a_off v = Some off -> dt_convert_value v = OK v).
Proof. intro v. split; [apply dt_naive_refused_l | apply dt_aware_value_kept]. Qed.
Print Assumptions dt_naive_refused.
