(** C09 obligation (corruption made explicit): month 00 or 13..99 in the month position, whatever precedes (any year) and follows. *)
From OfxV Require Import Base.Prelude Base.Digits Model.Calendar Model.DateTimeM Proofs.DateTimeMDigits Proofs.DateTimeMReject Gen.DateTimeGen.
Local Open Scope N_scope.
Theorem dt_rejects_month : forall y mo rest, y < 10000 -> mo < 100 -> (mo = 0 \/ 12 < mo) ->
  dt_convert nd_zeros tzs (d4 y ++ d2 mo ++ rest) = Err Reject.
Proof. exact (dt_rejects_month_l nd_zeros tzs). Qed.
Print Assumptions dt_rejects_month.
