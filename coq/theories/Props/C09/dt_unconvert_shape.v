(** C09 obligation: an aware datetime (years 1000..9998: glibc %Y is unpadded below, the half-millisecond bump may
    overflow above) is written YYYYMMDDHHMMSS.XXX[+-h[.mm][:name]] with name = tzname(). *)
From OfxV Require Import Base.Prelude Base.Digits Model.Calendar Model.DateTimeM Model.DateTimeMCases Proofs.CalendarProofs Proofs.DateTimeMDigits Proofs.DateTimeMRead Proofs.DateTimeMWrite Proofs.DateTimeMGen Gen.DateTimeGen.
Local Open Scope Z_scope.
Theorem dt_unconvert_shape : forall v off,
  a_off v = Some off -> valid_fields (a_f v) = true -> 1000 <= f_y (a_f v) <= 9998 ->
  exists y mo d h mi s ms hh sg mm,
    dt_unconvert v = OK (render_dt y mo d (Some (h, mi, s, Some ms, Some (mkoff sg hh mm (a_name v)))))
    /\ (1000 <= y <= 9999 /\ 1 <= mo <= 12 /\ 1 <= d <= 31 /\ h < 24 /\ mi < 60 /\ s < 60 /\ ms < 1000)%N
    /\ (sg = SPlus \/ sg = SMinus) /\ (forall m, mm = Some m -> 1 <= m < 60)%N.
Proof. exact (dt_unconvert_shape_l nd_zeros). Qed.
Print Assumptions dt_unconvert_shape.
