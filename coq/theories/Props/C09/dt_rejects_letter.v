(** C09 obligation: any character that is not an ASCII digit (a letter, a space, a non-ASCII digit, ...) among the first
    8 positions, or among the first 14 when the text is longer than a date (plus the tolerated newline), is rejected. *)
From OfxV Require Import Base.Prelude Base.Digits Model.Calendar Model.DateTimeM Proofs.DateTimeMDigits Proofs.DateTimeMReject Gen.DateTimeGen.
Theorem dt_rejects_letter : forall a c b, is_digit c = false ->
  (List.length a < 8)%nat \/ ((List.length a < 14)%nat /\ (9 < List.length (a ++ c :: b))%nat) ->
  dt_convert nd_zeros tzs (a ++ c :: b) = Err Reject.
Proof. exact (dt_rejects_letter_l nd_zeros tzs). Qed.
Print Assumptions dt_rejects_letter.
