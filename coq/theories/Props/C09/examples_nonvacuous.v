(** C09: the hypotheses of the obligations are inhabited, and the model computes the library's own test literals. *)
From OfxV Require Import Base.Prelude Base.Digits Model.Calendar Model.DateTimeM Model.DateTimeMCases Proofs.CalendarProofs Proofs.DateTimeMDigits Proofs.DateTimeMRead Proofs.DateTimeMWrite Proofs.DateTimeMGen Gen.DateTimeGen.
Local Open Scope Z_scope.
Definition est : offspec := mkoff SMinus 5 None (Some (T "EST")).
Definition ist : offspec := mkoff SNone 5 (Some 30%N) None.
Definition nst : offspec := mkoff SMinus 0 (Some 30%N) (Some (T "X")).
Theorem examples_nonvacuous :
  off_ok nd_zeros est /\ off_ok nd_zeros ist /\ off_ok nd_zeros nst
  /\ date_ok 1996 10 5 /\ time_ok nd_zeros (13, 22, 0, Some 124, Some est)%N
  /\ render_dt 1996 10 5 (Some (13, 22, 0, Some 124, Some est)%N) = T "19961005132200.124[-5:EST]"
  /\ dt_convert nd_zeros tzs (T "19961005132200.124[-5:EST]") = OK (mkdtf 1996 10 5 18 22 0 124000)
  /\ dt_convert nd_zeros tzs (T "20240229") = OK (mkdtf 2024 2 29 0 0 0 0)
  /\ dt_convert nd_zeros tzs (T "20200102030405[5.30]") = OK (mkdtf 2020 1 1 21 34 5 0)
  /\ dt_convert nd_zeros tzs (T "20200102030405.678[-0.30:X]") = OK (mkdtf 2020 1 2 3 34 5 678000)
  /\ dt_convert nd_zeros tzs (T "20200102030405.000[-:EST]") = OK (mkdtf 2020 1 2 8 4 5 0)
  /\ tm_convert nd_zeros tzs (T "235959.999[-5:EST]") = OK (mkdtf 0 0 0 4 59 59 999000)
  /\ dt_convert nd_zeros tzs (T "20201301") = Err Reject /\ dt_convert nd_zeros tzs (T "20200132") = Err Reject
  /\ dt_convert nd_zeros tzs (T "20200101240000") = Err Reject /\ dt_convert nd_zeros tzs (T "20200101006000") = Err Reject
  /\ dt_unconvert (mkaware (mkdtf 2199 12 31 23 59 59 999500) (Some 0) (Some (T "UTC"))) = OK (T "22000101000000.000[+0:UTC]")
  /\ name_readable nd_zeros (-30) (Some (T "X"))
  /\ valid_fields (mkdtf 2199 12 31 23 59 59 999500) = true
  /\ dt_unconvert (mkaware (mkdtf 2020 1 2 3 4 5 0) None None) = Err Reject.
Proof.
  assert (K : forall sg hh mm nm, (forall m, mm = Some m -> m < 60)%N ->
              (match sg with SMinus => hh * 60 + match mm with Some m => m | None => 0 end <= 720
                | _ => hh * 60 + match mm with Some m => m | None => 0 end <= 840 end)%N ->
              existsb (N.eqb 10) nm = false -> (mm = None -> minutes_like nd_zeros nm = false) ->
              off_ok nd_zeros (mkoff sg hh mm (Some nm))).
  { intros sg hh mm nm A B C D. unfold off_ok. cbn [o_mm o_sign o_hh o_name o_mmv]. split; [exact A|]. split; [exact B|].
    split; [intros n E; injection E as <-; exact C|]. intros E0 n E; injection E as <-. apply D, E0. }
  split; [apply K; [intros m E; discriminate| vm_compute; discriminate | reflexivity | intros _; vm_compute; reflexivity]|].
  split; [unfold off_ok, ist; cbn [o_mm o_sign o_hh o_name o_mmv]; split; [intros m E; injection E as <-; reflexivity|];
          split; [vm_compute; discriminate|]; split; intros; discriminate|].
  split; [apply K; [intros m E; injection E as <-; reflexivity| vm_compute; discriminate | reflexivity | intros E; discriminate]|].
  split; [unfold date_ok; vm_compute; intuition congruence|].
  split; [unfold time_ok; split; [reflexivity|]; split; [reflexivity|]; split; [reflexivity|]; split;
          [intros m E; injection E as <-; reflexivity|intros o E; injection E as <-;
           apply K; [intros m E; discriminate| vm_compute; discriminate | reflexivity | intros _; vm_compute; reflexivity]]|].
  do 12 (split; [vm_compute; reflexivity|]).
  split; [intros n E; injection E as <-; split; [reflexivity|intros _; vm_compute; reflexivity]|].
  split; vm_compute; reflexivity.
Qed.
Print Assumptions examples_nonvacuous.
