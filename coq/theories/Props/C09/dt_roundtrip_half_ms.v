(** C09 obligation: write then read returns the original instant to within half a millisecond, for every aware value
    with a whole-minute offset -12:00..+14:00 -- NO guard on offsets in (-1h, 0) (repaired reading, see
    fixes/C09-1-negative-fraction-offset.diff); the carries of the rounding (..59.9995 -> next second / minute / day /
    month / year) are covered by the same statement.  [name_readable]: the zone name has no newline and, after whole
    hours, is not two decimal digits followed by the end or a colon (the recogniser's separator tolerance would take
    those for minutes; DESIGN.md section 9). *)
From OfxV Require Import Base.Prelude Base.Digits Model.Calendar Model.DateTimeM Model.DateTimeMCases Proofs.CalendarProofs Proofs.DateTimeMDigits Proofs.DateTimeMRead Proofs.DateTimeMWrite Proofs.DateTimeMGen Gen.DateTimeGen.
Local Open Scope Z_scope.
Theorem dt_roundtrip_half_ms : forall v offmin,
  a_off v = Some (offmin * 60) -> -720 <= offmin <= 840 -> valid_fields (a_f v) = true -> 1000 <= f_y (a_f v) <= 9998 ->
  name_readable nd_zeros offmin (a_name v) ->
  exists t f, dt_unconvert v = OK t /\ dt_convert nd_zeros tzs t = OK f /\ valid_fields f = true
    /\ Z.abs (us_of_fields f - instant_us v) <= 500 /\ us_of_fields f mod 1000 = 0.
Proof. exact (dt_roundtrip_half_ms_l nd_zeros tzs nd_zeros_ascii). Qed.
Print Assumptions dt_roundtrip_half_ms.
