(** C09 obligation: day 00 or 32..99 in the day position, whatever follows. *)
From OfxV Require Import Base.Prelude Base.Digits Model.Calendar Model.DateTimeM Proofs.DateTimeMDigits Proofs.DateTimeMReject Gen.DateTimeGen.
Local Open Scope N_scope.
Theorem dt_rejects_day : forall y mo d rest, y < 10000 -> 1 <= mo <= 12 -> d < 100 -> (d = 0 \/ 31 < d) ->
  dt_convert nd_zeros tzs (d4 y ++ d2 mo ++ d2 d ++ rest) = Err Reject.
Proof. exact (dt_rejects_day_l nd_zeros tzs). Qed.
Print Assumptions dt_rejects_day.
