(** C09 obligation: whatever text DateTime().convert accepts is in the notation and the value returned is the UTC value
    of the instant the notation denotes (reference [denote_dt]: fields read by position, days-from-civil arithmetic, sign
    of the offset taken from the text) -- for EVERY text whose decimal digits are all ASCII.

    Full statement (DESIGN.md):   forall s f, dt_convert nd_zeros tzs s = OK f -> denote_dt tzs s = Some (us_of_fields f).
    Proved: the same under [plain_digits nd_zeros s = true].  Missing: texts containing non-ASCII decimal digits; the
    minutes group of DT_REGEX is \d\d, so e.g. [5.٣٠] is accepted (and the greedy hours run may even backtrack into such
    digits); the model follows this and the correspondence run covers it, but [denote_dt] does not describe those texts. *)
From OfxV Require Import Base.Prelude Base.Digits Model.Calendar Model.DateTimeM Model.DateTimeMCases Proofs.DateTimeMRead Proofs.DateTimeMAccept Proofs.DateTimeMGen Gen.DateTimeGen.
Theorem dt_convert_accepts_only_notation_partial : forall s f, plain_digits nd_zeros s = true ->
  dt_convert nd_zeros tzs s = OK f -> denote_dt tzs s = Some (us_of_fields f).
Proof. exact (dt_accepts_only_l nd_zeros tzs nd_zeros_ascii). Qed.
Print Assumptions dt_convert_accepts_only_notation_partial.
