(** C09 obligation: Python's table walk equals the days-from-civil formula (every year, also <= 0), and the month
    lengths are the civil ones. *)
From OfxV Require Import Base.Prelude Base.Digits Model.Calendar Model.DateTimeM Model.DateTimeMCases Proofs.CalendarProofs Proofs.DateTimeMDigits Proofs.DateTimeMRead Proofs.DateTimeMWrite Proofs.DateTimeMGen Gen.DateTimeGen.
Local Open Scope Z_scope.
Theorem ymd2ord_is_days_from_civil : forall y m d, 1 <= m <= 12 ->
  ymd2ord y m d = civil_ord y m d /\ days_in_month y m = civil_dim y m.
Proof. intros y m d M. split; [apply ymd2ord_is_days_from_civil_l, M | symmetry; apply civil_dim_is_days_in_month, M]. Qed.
Print Assumptions ymd2ord_is_days_from_civil.
