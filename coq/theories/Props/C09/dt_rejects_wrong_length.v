(** C09 obligation: a text of ASCII digits whose length is neither 8 nor 14 is rejected. *)
From OfxV Require Import Base.Prelude Base.Digits Model.Calendar Model.DateTimeM Proofs.DateTimeMDigits Proofs.DateTimeMReject Gen.DateTimeGen.
Theorem dt_rejects_wrong_length : forall s, forallb is_digit s = true ->
  List.length s <> 8%nat -> List.length s <> 14%nat -> dt_convert nd_zeros tzs s = Err Reject.
Proof. exact (dt_rejects_wrong_length_l nd_zeros tzs). Qed.
Print Assumptions dt_rejects_wrong_length.
