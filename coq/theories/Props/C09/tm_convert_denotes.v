(** C09 obligation: every rendering of a valid time of day in the four time notations converts to the UTC time of day
    of the denoted instant (modulo 24 h). *)
From OfxV Require Import Base.Prelude Base.Digits Model.Calendar Model.DateTimeM Model.DateTimeMCases Proofs.CalendarProofs Proofs.DateTimeMDigits Proofs.DateTimeMRead Proofs.DateTimeMWrite Proofs.DateTimeMGen Gen.DateTimeGen.
Local Open Scope Z_scope.
Theorem tm_convert_denotes : forall t : time_spec, time_ok nd_zeros t ->
  exists f, tm_convert nd_zeros tzs (time_render t) = OK f
            /\ tod_us f = time_denoted t mod US_DAY
            /\ (0 <= f_h f < 24 /\ 0 <= f_mi f < 60 /\ 0 <= f_s f < 60 /\ 0 <= f_us f < 1000000).
Proof. exact (tm_convert_denotes_l nd_zeros tzs nd_zeros_ascii). Qed.
Print Assumptions tm_convert_denotes.
