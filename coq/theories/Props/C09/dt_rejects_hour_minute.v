(** C09 obligation: hour 24..99, minute 60..99 (and second 61..99) after any date, whatever follows. *)
From OfxV Require Import Base.Prelude Base.Digits Model.Calendar Model.DateTimeM Proofs.DateTimeMDigits Proofs.DateTimeMReject Gen.DateTimeGen.
Local Open Scope N_scope.
Theorem dt_rejects_hour_minute : forall y mo d h mi sec rest, y < 10000 -> 1 <= mo <= 12 -> 1 <= d <= 31 ->
  h < 100 -> mi < 100 -> sec < 100 -> (23 < h \/ 59 < mi \/ 60 < sec) ->
  dt_convert nd_zeros tzs (d4 y ++ d2 mo ++ d2 d ++ d2 h ++ d2 mi ++ d2 sec ++ rest) = Err Reject.
Proof. exact (dt_rejects_field_l nd_zeros tzs). Qed.
Print Assumptions dt_rejects_hour_minute.
