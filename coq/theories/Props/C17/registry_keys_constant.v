(** C17: re-registration of the date-time unconvert handler never adds or removes a registry key - after every
    history run sequentially and at every point of every interleaving of the atomic steps of any number of threads
    (so [_find_impl], which iterates over registry.keys(), can never see the dictionary change size).
    [rereg] (does normalize_to_gmt register at all), [rebinds] (interpreter behaviour) and [fmt] (what _unconvert_datetime computes) are arbitrary. *)
From OfxV Require Import Base.Prelude Model.Dispatch Proofs.DispatchProofs.
Theorem registry_keys_constant : forall rereg rebinds fmt,
  (forall ops, map fst (registry (fst (run_ops rereg rebinds fmt init_state ops))) = map fst (registry init_state))
  /\ (forall progs sched,
        map fst (registry (fst (run_schedule rereg rebinds fmt (init_state, map new_thread progs) sched)))
        = map fst (registry init_state)).
Proof. exact registry_keys_constant_thm. Qed.
Print Assumptions registry_keys_constant.
