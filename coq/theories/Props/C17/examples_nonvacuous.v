(** C17: the statements are not vacuous.  (a) a history in which the registry value for datetime really CHANGES
    (plain function -> bound to instance 3 -> bound to instance 5) while dispatch keeps its semantics, under both
    interpreter behaviours;
    (b) an interleaving that leaves a STALE cache entry (bound to 3) beside a registry entry bound to 5, every thread
    finishing with the specified outcome, thread 3 having been served the stale handler;
    (c) the hypothesis is inhabited (both disjuncts) and needed: on an interpreter that does not rebind, with an
    instance-dependent [fmt], history matters - and on one that rebinds it does not. *)
From OfxV Require Import Base.Prelude Model.Dispatch Proofs.DispatchProofs.
Local Open Scope N_scope.
Definition i3 := Inst 3 false.
Definition i5 := Inst 5 true.
Definition dv := PV TDatetime 7.
Definition fmt0 (_ : inst) (v : pyval) : result text := if vid v =? 7 then OK (T "20240229") else Err Reject.
Definition fmt_bad (i : inst) (v : pyval) : result text := if ireq i then OK (T "A") else OK (T "B").
Definition hist6 := [ConvertStr i3 true; Unconvert i5 dv; ConvertStr i5 true; Unconvert i3 dv; Unconvert i5 (PV TNone 0); Unconvert i3 (PV TStr 1)].
Definition progs4 := [[ConvertStr i3 true]; [Unconvert i5 dv]; [ConvertStr i5 true]; [Unconvert i3 dv; Unconvert i5 (PV TNone 0)]].
Definition sched4 := [0;0;1;1;2;2;1;1;3;3;3;3;3;3]%nat.
Theorem examples_nonvacuous :
  (forall i j v, fmt0 i v = fmt0 j v)
  /\ lookup TDatetime (registry init_state) = Some (UnconvDatetime None)
  /\ lookup TDatetime (registry (fst (run_ops true false fmt0 init_state [ConvertStr i3 true]))) = Some (UnconvDatetime (Some i3))
  /\ lookup TDatetime (registry (fst (run_ops true true fmt0 init_state [ConvertStr i3 true; Unconvert i5 dv; ConvertStr i5 true])))
     = Some (UnconvDatetime (Some i5))
  /\ snd (run_ops true false fmt0 init_state hist6) = [OK (OText (T "20240229")); OK (OText (T "20240229")); Err Reject; Err Reject]
  /\ snd (run_ops true true fmt_bad init_state hist6) = [OK (OText (T "A")); OK (OText (T "B")); Err Reject; Err Reject]
  /\ (let cfg := run_schedule true false fmt0 (init_state, map new_thread progs4) sched4 in
      lookup TDatetime (cache (fst cfg)) = Some (UnconvDatetime (Some i3))
      /\ lookup TDatetime (registry (fst cfg)) = Some (UnconvDatetime (Some i5))
      /\ forallb finished (snd cfg) = true
      /\ map (fun th => map d_handler (done th)) (snd cfg) = [[]; [UnconvDatetime (Some i3)]; []; [UnconvDatetime (Some i3); UnconvNone]]
      /\ map (fun th => map d_out (done th)) (snd cfg) = [[]; [OK (OText (T "20240229"))]; []; [OK (OText (T "20240229")); Err Reject]])
  /\ sem false fmt_bad (fst (dispatch (fst (run_ops true false fmt_bad init_state [ConvertStr i5 true])) TDatetime)) i3 dv
     <> sem false fmt_bad (fst (dispatch init_state TDatetime)) i3 dv
  /\ sem true fmt_bad (fst (dispatch (fst (run_ops true true fmt_bad init_state [ConvertStr i5 true])) TDatetime)) i3 dv
     = sem true fmt_bad (fst (dispatch init_state TDatetime)) i3 dv.
Proof.
  split; [reflexivity|]. vm_compute. repeat split; try reflexivity. discriminate.
Qed.
Print Assumptions examples_nonvacuous.
