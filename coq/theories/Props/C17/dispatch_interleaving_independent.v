(** C17: any number of threads, each running any program of conversions / unconversions, under ANY schedule of
    their atomic steps (registry write, cache clear, cache read, registry/MRO search, cache write, call):
    (1) every completed dispatch returned a handler with the import-time semantics and its call gave the answer of the
        stateless specification [spec_unconvert] (a function of the call's own arguments);
    (2) invariant: every cache entry - stale ones included - answers like the import-time handler of its class;
    (3) invariant: the registry value for datetime is always an _unconvert_datetime;
    (4) a thread that has finished produced exactly [spec_outcomes] of its program. *)
From OfxV Require Import Base.Prelude Model.Dispatch Proofs.DispatchProofs.
Theorem dispatch_interleaving_independent : forall (rereg rebinds : bool) (fmt : inst -> pyval -> result text),
  (rebinds = true \/ forall i j v, fmt i v = fmt j v) ->
  forall (progs : list (list op)) (sched : list nat),
    let cfg := run_schedule rereg rebinds fmt (init_state, map new_thread progs) sched in
    (forall th d, In th (snd cfg) -> In d (done th) ->
        (forall c v, sem rebinds fmt (d_handler d) c v = sem rebinds fmt (fst (dispatch init_state (vty (d_val d)))) c v)
        /\ d_out d = spec_unconvert fmt (d_caller d) (d_val d))
    /\ (forall t h, lookup t (cache (fst cfg)) = Some h ->
        forall c v, sem rebinds fmt h c v = sem rebinds fmt (fst (dispatch init_state t)) c v)
    /\ (exists b, lookup TDatetime (registry (fst cfg)) = Some (UnconvDatetime b))
    /\ Forall2 (fun prog th => finished th = true -> map d_out (done th) = spec_outcomes fmt prog) progs (snd cfg).
Proof. exact dispatch_interleaving_independent_thm. Qed.
Print Assumptions dispatch_interleaving_independent.
