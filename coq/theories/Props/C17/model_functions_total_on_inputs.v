(** C17: the specification the correspondence run checks the implementation against.  That a Gallina function takes
    and returns immutable values and depends on nothing but its arguments is true by construction and is not what
    is stated here.  What is stated: the one stateful component, run as a state machine (state in, state and
    outcomes out), REFINES a stateless function of the inputs - whatever history [hist] produced the state a
    workload [ops] starts in, its outcomes are [spec_outcomes fmt ops], in which no state occurs.
    Mutation of CPython objects, other module globals and real threads are outside any Gallina model: PARTIAL. *)
From OfxV Require Import Base.Prelude Model.Dispatch Proofs.DispatchProofs.
Theorem model_functions_total_on_inputs : forall (rereg rebinds : bool) (fmt : inst -> pyval -> result text),
  (rebinds = true \/ forall i j v, fmt i v = fmt j v) ->
  forall hist ops : list op,
    snd (run_ops rereg rebinds fmt (fst (run_ops rereg rebinds fmt init_state hist)) ops) = spec_outcomes fmt ops.
Proof. exact model_functions_total_on_inputs_thm. Qed.
Print Assumptions model_functions_total_on_inputs.
