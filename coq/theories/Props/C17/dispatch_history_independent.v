(** C17: after ANY finite history of string conversions (each re-registering a handler bound to the converting
    instance), unconversions and Time operations by any instances, the handler that dispatch returns for any class
    answers every (calling instance, value) exactly as the handler of the import-time state does.
    Hypothesis (explicit, measured by the correspondence run): what _unconvert_datetime computes does not depend
    on the instance it is bound to. *)
From OfxV Require Import Base.Prelude Model.Dispatch Proofs.DispatchProofs.
Theorem dispatch_history_independent : forall (rereg : bool) (fmt : inst -> pyval -> result text),
  (forall i j v, fmt i v = fmt j v) ->
  forall (ops : list op) (t : ty) (caller : inst) (v : pyval),
    sem fmt (fst (dispatch (fst (run_ops rereg fmt init_state ops)) t)) caller v
    = sem fmt (fst (dispatch init_state t)) caller v.
Proof. exact dispatch_history_independent_thm. Qed.
Print Assumptions dispatch_history_independent.
