(** C17: after ANY finite history of string conversions (each re-registering a handler bound to the converting
    instance), unconversions and Time operations by any instances, the handler that dispatch returns for any class
    answers every (calling instance, value) exactly as the handler of the import-time state does.
    Hypothesis (explicit, both disjuncts measured on every run): the interpreter hands a registered bound method the
    CALLING instance again ([rebinds]: CPython 3.11+, where method objects forward __get__ to their function), or
    what _unconvert_datetime computes does not depend on the instance it runs with. *)
From OfxV Require Import Base.Prelude Model.Dispatch Proofs.DispatchProofs.
Theorem dispatch_history_independent : forall (rereg rebinds : bool) (fmt : inst -> pyval -> result text),
  (rebinds = true \/ forall i j v, fmt i v = fmt j v) ->
  forall (ops : list op) (t : ty) (caller : inst) (v : pyval),
    sem rebinds fmt (fst (dispatch (fst (run_ops rereg rebinds fmt init_state ops)) t)) caller v
    = sem rebinds fmt (fst (dispatch init_state t)) caller v.
Proof. exact dispatch_history_independent_thm. Qed.
Print Assumptions dispatch_history_independent.
