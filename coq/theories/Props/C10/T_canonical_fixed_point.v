(** C10 obligation: reading any accepted text and writing the value again yields a canonical text c that reads to the same value and is a
    fixed point of read-then-write.  [entity_free v]: for a str value, String.convert's un-escaping leaves it unchanged (the reading adopted for
    strings: the escaping that inverts it is the serializer's, theorem unescape_escape; T_canonical_fixed_point_unguarded_refuted pins the witness). *)
From OfxV Require Import Base.Prelude Base.Digits Gen.ScalarsGen Model.PyDecimal Model.Scalars Model.ScalarsLex Proofs.ScalarsText Proofs.PyDecimalProofs Proofs.ScalarsProofs Proofs.ScalarsLexProofs Proofs.ScalarsThms.
Local Open Scope N_scope.
Theorem T_canonical_fixed_point : forall e s v w,
  convert e (PStr s) = OK (v, w) -> v <> PNone -> entity_free v ->
  exists c w1, unconvert e v = OK (Some c, w1) /\ convert e (PStr c) = OK (v, w1)
               /\ bind (convert e (PStr c)) (fun vw => unconvert e (fst vw)) = OK (Some c, w1).
Proof. exact T_canonical_fixed_point_l. Qed.
Print Assumptions T_canonical_fixed_point.
