(** C10 obligation (for C01's wire theorem): reading the WIRE spelling of the text a converter writes returns the value held -- for every element
    (ListElement nesting included), every held value (hypotheses of T_convert_unconvert) and both escapings of element data (f = WClosed:
    ET._escape_cdata; f = WUnclosed: saxutils.escape in the repaired tostring_unclosed_elements).  Strings are un-escaped by String.convert and
    measured against the limit after that; every other type writes no & < >.  [tokens_plain]: the declared tokens of an enumeration contain no
    & < > (OneOf.convert does not un-escape; decidable, to be discharged by evaluation over the generated schema). *)
From OfxV Require Import Base.Prelude Base.Digits Gen.ScalarsGen Model.PyDecimal Model.Scalars Model.ScalarsLex Proofs.ScalarsText Proofs.PyDecimalProofs Proofs.ScalarsProofs Proofs.ScalarsLexProofs Proofs.ScalarsWire.
Local Open Scope N_scope.
Theorem wire_convert_unconvert : forall f e v w s w',
  value_wf v -> ~ bool_in_integer (elem_sty e) v -> tokens_plain (elem_sty e) = true ->
  convert e v = OK (v, w) -> unconvert e v = OK (Some s, w') ->
  convert e (PStr (wire_datum f s)) = OK (v, w').
Proof. exact wire_convert_unconvert_l. Qed.
Print Assumptions wire_convert_unconvert.
