(** C10: the hypotheses of the obligations are inhabited, and the model computes what Types.py (with the repairs) answers on the documented examples *)
From OfxV Require Import Base.Prelude Base.Digits Gen.ScalarsGen Model.PyDecimal Model.Scalars Model.ScalarsLex Proofs.ScalarsText Proofs.PyDecimalProofs Proofs.ScalarsProofs Proofs.ScalarsLexProofs.
Local Open Scope N_scope.

Definition S3 := Elem (TString (Some 3) true) false.
Definition N3 := ListElem (Elem (TString (Some 3) false) true) false.
Definition I3 := Elem (TInteger (Some 3)) false.
Definition D2 := Elem (TDecimal (Some 2)) false.
Definition Dn := Elem (TDecimal None) true.
Definition OO := Elem (TOneOf [T "CALL"; T "PUT"]) true.
Theorem examples_nonvacuous :
  (* Decimal(2).convert("12345.67890") is Decimal("12345.68"); written "12345.68"; read again *)
  convert D2 (PStr (T "12345.67890")) = OK (PDec (Fin false 1234568 (-2)), false)
  /\ unconvert D2 (PDec (Fin false 1234568 (-2))) = OK (Some (T "12345.68"), false)
  /\ convert D2 (PStr (T "12345.68")) = OK (PDec (Fin false 1234568 (-2)), false)
  (* half-even at the quantum, comma separator, off-quantum value refused on write *)
  /\ convert D2 (PStr (T "0,125")) = OK (PDec (Fin false 12 (-2)), false) /\ convert D2 (PStr (T "0.135")) = OK (PDec (Fin false 14 (-2)), false)
  /\ unconvert D2 (PDec (Fin false 5 (-1))) = Err Reject
  (* the repaired behaviour: 1E+2 is held as 100, 1E-7 is written 0.0000001 and reads back exactly, NaN is refused *)
  /\ convert Dn (PStr (T "1E+2")) = OK (PDec (Fin false 100 0), false) /\ unconvert Dn (PDec (Fin false 1 (-7))) = OK (Some (T "0.0000001"), false)
  /\ convert Dn (PStr (T "0.0000001")) = OK (PDec (Fin false 1 (-7)), false) /\ convert Dn (PStr (T "NaN")) = Err Reject /\ convert Dn PNone = Err Reject
  (* Integer(3): 999 and -999 pass, 1000 and -1000 do not; True is written "1" *)
  /\ convert I3 (PStr (T "-999")) = OK (PInt (-999), false) /\ convert I3 (PStr (T "-1000")) = Err Reject /\ unconvert I3 (PInt (-1000)) = Err Reject
  /\ unconvert I3 (PInt 999) = OK (Some (T "999"), false) /\ unconvert I3 (PBool true) = OK (Some (T "1"), false)
  (* String(3) / NagString(3) inside a ListElement / OneOf / Bool *)
  /\ convert S3 (PStr (T "a&amp;b")) = OK (PStr (T "a&b"), false) /\ convert S3 (PStr (T "abcd")) = Err Reject /\ convert S3 (PStr []) = OK (PNone, false)
  /\ convert N3 (PStr (T "abcd")) = OK (PStr (T "abcd"), true) /\ unconvert N3 (PStr (T "abcd")) = OK (Some (T "abcd"), true) /\ convert N3 (PStr []) = Err Reject
  /\ convert OO (PStr (T "PUT")) = OK (PStr (T "PUT"), false) /\ convert OO (PStr (T "put")) = Err Reject /\ unconvert OO (PInt 1) = Err Reject
  /\ convert (Elem TBool false) (PStr (T "Y")) = OK (PBool true, false) /\ unconvert (Elem TBool false) (PBool false) = OK (Some (T "N"), false)
  /\ convert (Elem TBool false) (PStr (T "y")) = Err Reject
  (* hypotheses of T_convert_unconvert / T_canonical_fixed_point hold on these *)
  /\ value_wf (PDec (Fin false 1234568 (-2))) /\ ~ bool_in_integer (elem_sty D2) (PDec (Fin false 1234568 (-2))) /\ entity_free (PStr (T "a&b"))
  /\ entities_ok string_entities = true /\ has_digit (T "NaN") = false /\ has_digit (T "-Infinity") = false.
Proof. vm_compute. repeat split; try reflexivity. intros []. Qed.
Print Assumptions examples_nonvacuous.
