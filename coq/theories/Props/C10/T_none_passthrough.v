(** C10 obligation: None passes through as None exactly when the element is optional, and is rejected exactly when it is required, in both directions *)
From OfxV Require Import Base.Prelude Base.Digits Gen.ScalarsGen Model.PyDecimal Model.Scalars Model.ScalarsLex Proofs.ScalarsText Proofs.PyDecimalProofs Proofs.ScalarsProofs Proofs.ScalarsLexProofs.
Local Open Scope N_scope.
Theorem T_none_passthrough : forall e,
  (elem_required e = false <-> convert e PNone = OK (PNone, false)) /\ (elem_required e = false <-> unconvert e PNone = OK (None, false)) /\
  (elem_required e = true <-> convert e PNone = Err Reject) /\ (elem_required e = true <-> unconvert e PNone = Err Reject).
Proof.
  intro e. rewrite convert_elem, unconvert_elem. destruct (none_passthrough_sty (elem_sty e) (elem_required e)) as [H0 H1].
  destruct (elem_required e); [destruct (H1 eq_refl) as [-> ->]|destruct (H0 eq_refl) as [-> ->]]; repeat split; intros; try reflexivity; try discriminate.
Qed.
Print Assumptions T_none_passthrough.
