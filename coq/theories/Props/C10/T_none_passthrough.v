(** C10 obligation: None passes through as None exactly when the element is optional, and is rejected exactly when it is required, in both directions *)
From OfxV Require Import Base.Prelude Base.Digits Gen.ScalarsGen Model.PyDecimal Model.Scalars Model.ScalarsLex Proofs.ScalarsText Proofs.PyDecimalProofs Proofs.ScalarsProofs Proofs.ScalarsLexProofs Proofs.ScalarsThms.
Local Open Scope N_scope.
Theorem T_none_passthrough : forall e,
  (elem_required e = false <-> convert e PNone = OK (PNone, false)) /\ (elem_required e = false <-> unconvert e PNone = OK (None, false)) /\
  (elem_required e = true <-> convert e PNone = Err Reject) /\ (elem_required e = true <-> unconvert e PNone = Err Reject).
Proof. exact T_none_passthrough_l. Qed.
Print Assumptions T_none_passthrough.
