(** C10 obligation (deviation spelled out): Integer keeps a Python bool as it is; it is written as 1 / 0 (repair fixes/C11-2), which reads
    back as the int 1 / 0 -- the same number in Python (True == 1), not the same object. *)
From OfxV Require Import Base.Prelude Base.Digits Gen.ScalarsGen Model.PyDecimal Model.Scalars Model.ScalarsLex Proofs.ScalarsText Proofs.PyDecimalProofs Proofs.ScalarsProofs Proofs.ScalarsLexProofs.
Local Open Scope N_scope.
Theorem Integer_bool_reads_back_as_int : forall e l b s w,
  elem_sty e = TInteger l -> unconvert e (PBool b) = OK (Some s, w) ->
  convert e (PBool b) = OK (PBool b, false) /\ convert e (PStr s) = OK (PInt (Z_of_bool b), false)
  /\ (s = [49] /\ b = true \/ s = [48] /\ b = false).
Proof.
  intros e l b s w Ht Hu. rewrite !convert_elem. rewrite unconvert_elem in Hu. rewrite Ht in *. cbn [unconvert_sty convert_sty] in *.
  destruct (unconvert_integer l (elem_required e) (PBool b)) as [o|] eqn:E; cbn [nowarn rmap] in Hu; [|discriminate]. injection Hu as -> _.
  destruct (integer_bool_reads_back l _ b s E) as [H1 H2]. rewrite H1, H2. repeat split.
  cbn [unconvert_integer] in E. destruct (enforce_length_int l (Z_of_bool b)) as [[]|]; cbn [bind] in E; [|discriminate].
  destruct b; vm_compute in E; injection E as <-; auto.
Qed.
Print Assumptions Integer_bool_reads_back_as_int.
