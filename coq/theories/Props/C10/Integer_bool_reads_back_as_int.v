(** C10 obligation (deviation spelled out): Integer keeps a Python bool as it is; it is written as 1 / 0 (repair fixes/C11-2), which reads
    back as the int 1 / 0 -- the same number in Python (True == 1), not the same object. *)
From OfxV Require Import Base.Prelude Base.Digits Gen.ScalarsGen Model.PyDecimal Model.Scalars Model.ScalarsLex Proofs.ScalarsText Proofs.PyDecimalProofs Proofs.ScalarsProofs Proofs.ScalarsLexProofs Proofs.ScalarsThms.
Local Open Scope N_scope.
Theorem Integer_bool_reads_back_as_int : forall e l b s w,
  elem_sty e = TInteger l -> unconvert e (PBool b) = OK (Some s, w) ->
  convert e (PBool b) = OK (PBool b, false) /\ convert e (PStr s) = OK (PInt (Z_of_bool b), false)
  /\ (s = [49] /\ b = true \/ s = [48] /\ b = false).
Proof. exact Integer_bool_reads_back_as_int_l. Qed.
Print Assumptions Integer_bool_reads_back_as_int.
