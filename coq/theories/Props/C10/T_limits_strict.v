(** C10 obligation: strict at the limits.  String(n): length <= n accepted, length n+1 (any length > n) rejected, read and written; NagString(n):
    over-long strings kept whole with exactly one warning; Integer(n): |z| <= 10^n - 1 accepted, |z| >= 10^n rejected (both signs: repair
    fixes/C10-1), as int and as text, read and written; Decimal(scale): a value off the quantum is rejected on write, whatever is read comes out
    at the quantum with at most 28 digits, non-finite values are refused in both directions.
    (The digit bound is the interpreter's int/str conversion limit, sys.get_int_max_str_digits() = 4300.) *)
From OfxV Require Import Base.Prelude Base.Digits Gen.ScalarsGen Model.PyDecimal Model.Scalars Model.ScalarsLex Proofs.ScalarsText Proofs.PyDecimalProofs Proofs.ScalarsProofs Proofs.ScalarsLexProofs Proofs.ScalarsThms.
Local Open Scope N_scope.
Theorem T_limits_strict : forall e,
  (forall n strict s, elem_sty e = TString (Some n) strict ->
     (tlen s <= n -> unconvert e (PStr s) = OK (Some s, false)) /\
     (n < tlen s -> (strict = true -> unconvert e (PStr s) = Err Reject) /\ (strict = false -> unconvert e (PStr s) = OK (Some s, true))) /\
     (s <> [] -> string_unescape s = s ->
        (tlen s <= n -> convert e (PStr s) = OK (PStr s, false)) /\
        (n < tlen s -> (strict = true -> convert e (PStr s) = Err Reject) /\ (strict = false -> convert e (PStr s) = OK (PStr s, true))))) /\
  (forall n z, elem_sty e = TInteger (Some n) ->
     ((Z.abs z < Z.of_N (10 ^ n))%Z ->
        convert e (PInt z) = OK (PInt z, false) /\
        ((List.length (dec_of_N (Z.abs_N z)) <= MAX_STR_DIGITS)%nat ->
           unconvert e (PInt z) = OK (Some (Z_text z), false) /\ convert e (PStr (Z_text z)) = OK (PInt z, false))) /\
     ((Z.of_N (10 ^ n) <= Z.abs z)%Z ->
        convert e (PInt z) = Err Reject /\ unconvert e (PInt z) = Err Reject /\
        ((List.length (dec_of_N (Z.abs_N z)) <= MAX_STR_DIGITS)%nat -> convert e (PStr (Z_text z)) = Err Reject))) /\
  (forall n, elem_sty e = TDecimal (Some n) ->
     (forall neg c ex, ex <> quantum_exp n -> unconvert e (PDec (Fin neg c ex)) = Err Reject) /\
     (forall x d w, convert e x = OK (PDec d, w) -> exists neg c, d = Fin neg c (quantum_exp n) /\ (c = 0 \/ (ndigits c <= PREC)%Z))) /\
  (forall sc d, elem_sty e = TDecimal sc -> is_finite d = false -> unconvert e (PDec d) = Err Reject /\ convert e (PDec d) = Err Reject).
Proof. exact T_limits_strict_l. Qed.
Print Assumptions T_limits_strict.
