(** C10 obligation (used by C01 / C03): the un-escaping String.convert performs inverts the escaping of element data for EVERY text -- both the
    escaping of ET.tostring(method="html") (_escape_cdata) and that of the repaired tostring_unclosed_elements (saxutils.escape) -- with the
    entity table REGENERATED from Types.py (checked well-formed by evaluation: no key is, or ambiguously overlaps, "&amp;"). *)
From OfxV Require Import Base.Prelude Base.Digits Gen.ScalarsGen Model.PyDecimal Model.Scalars Model.ScalarsLex Proofs.ScalarsText Proofs.PyDecimalProofs Proofs.ScalarsProofs Proofs.ScalarsLexProofs Proofs.ScalarsThms.
Local Open Scope N_scope.
Theorem unescape_escape : forall f s, string_unescape (wire_datum f s) = s.
Proof. exact unescape_escape_l. Qed.
Print Assumptions unescape_escape.
