(** C10 obligation: "quantised on read" -- what Decimal(scale) delivers for a finite operand sign/c/e is, at the quantum exponent q, the coefficient of the
    multiple of 10^q NEAREST to c*10^e, ties going to the even coefficient (ROUND_HALF_EVEN); an operand already at or above the quantum is kept exactly.
    Stated on [quantize], which normalize_dec applies to everything convert reads (text, Decimal, int, bool). *)
From OfxV Require Import Base.Prelude Base.Digits Gen.ScalarsGen Model.PyDecimal Model.Scalars Model.ScalarsLex Proofs.ScalarsText Proofs.PyDecimalProofs Proofs.ScalarsProofs Proofs.ScalarsLexProofs.
Local Open Scope N_scope.
Theorem Decimal_read_quantises_half_even : forall neg c e q c', quantize neg c e q = OK (Fin neg c' q) ->
  ((q <= e)%Z -> c' = c * 10 ^ Z.to_N (e - q)) /\
  ((e < q)%Z -> let p := 10 ^ Z.to_N (q - e) in
               2 * c <= 2 * c' * p + p /\ 2 * c' * p <= 2 * c + p /\ ((2 * c = 2 * c' * p + p \/ 2 * c' * p = 2 * c + p) -> N.even c' = true)).
Proof. exact quantize_nearest. Qed.
Print Assumptions Decimal_read_quantises_half_even.
