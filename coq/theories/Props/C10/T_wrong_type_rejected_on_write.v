(** C10 obligation: a value of the wrong Python type is rejected when written ([right_type] is the table: bool for Bool, str for String /
    NagString / OneOf, int (bool included: a Python bool is an int) for Integer, decimal.Decimal for Decimal, None anywhere) *)
From OfxV Require Import Base.Prelude Base.Digits Gen.ScalarsGen Model.PyDecimal Model.Scalars Model.ScalarsLex Proofs.ScalarsText Proofs.PyDecimalProofs Proofs.ScalarsProofs Proofs.ScalarsLexProofs Proofs.ScalarsThms.
Local Open Scope N_scope.
Theorem T_wrong_type_rejected_on_write : forall e v, right_type (elem_sty e) v = false -> unconvert e v = Err Reject.
Proof. exact T_wrong_type_rejected_on_write_l. Qed.
Print Assumptions T_wrong_type_rejected_on_write.
