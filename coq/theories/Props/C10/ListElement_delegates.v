(** C10 obligation: a repeated-element wrapper converts exactly as the element it wraps (its own required flag plays no role) *)
From OfxV Require Import Base.Prelude Base.Digits Gen.ScalarsGen Model.PyDecimal Model.Scalars Model.ScalarsLex Proofs.ScalarsText Proofs.PyDecimalProofs Proofs.ScalarsProofs Proofs.ScalarsLexProofs Proofs.ScalarsThms.
Local Open Scope N_scope.
Theorem ListElement_delegates : forall c r v, convert (ListElem c r) v = convert c v /\ unconvert (ListElem c r) v = unconvert c v.
Proof. exact ListElement_delegates_l. Qed.
Print Assumptions ListElement_delegates.
