(** C10 obligation: texts that do not denote a value of the type are rejected when read: anything but Y / N for Bool; a token outside the set for
    OneOf; a non-empty text without any decimal digit for Integer; a text without any decimal digit (this covers NaN / Infinity) for Decimal. *)
From OfxV Require Import Base.Prelude Base.Digits Gen.ScalarsGen Model.PyDecimal Model.Scalars Model.ScalarsLex Proofs.ScalarsText Proofs.PyDecimalProofs Proofs.ScalarsProofs Proofs.ScalarsLexProofs Proofs.ScalarsThms.
Local Open Scope N_scope.
Theorem T_bad_text_rejected_on_read : forall e s,
  (elem_sty e = TBool -> s <> [89] -> s <> [78] -> convert e (PStr s) = Err Reject) /\
  (forall valid, elem_sty e = TOneOf valid -> s <> [] -> ~ In s valid -> convert e (PStr s) = Err Reject) /\
  (forall l, elem_sty e = TInteger l -> s <> [] -> has_digit s = false -> convert e (PStr s) = Err Reject) /\
  (forall sc, elem_sty e = TDecimal sc -> has_digit s = false -> is_ok (convert e (PStr s)) = false).
Proof. exact T_bad_text_rejected_on_read_l. Qed.
Print Assumptions T_bad_text_rejected_on_read.
