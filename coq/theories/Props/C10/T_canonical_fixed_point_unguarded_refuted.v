(** C10: without the entity-free guard the canonical-text law is false of the faithful model (and of Types.py): the text "&amp;amp;" reads as
    the value "&amp;", which is written "&amp;" (unconvert does not escape; ET.tostring does), which reads as "&". *)
From OfxV Require Import Base.Prelude Base.Digits Gen.ScalarsGen Model.PyDecimal Model.Scalars Model.ScalarsLex Proofs.ScalarsText Proofs.PyDecimalProofs Proofs.ScalarsProofs Proofs.ScalarsLexProofs Proofs.ScalarsThms.
Local Open Scope N_scope.
Theorem T_canonical_fixed_point_unguarded_refuted : exists e s v w c w1,
  convert e (PStr s) = OK (v, w) /\ v <> PNone /\ unconvert e v = OK (Some c, w1) /\ convert e (PStr c) <> OK (v, w1).
Proof. exact T_canonical_fixed_point_unguarded_refuted_l. Qed.
Print Assumptions T_canonical_fixed_point_unguarded_refuted.
