(** C10 obligation (PyDecimal): decimal.Decimal(format(d, "f")) == d -- sign, coefficient and exponent -- for EVERY finite d with exponent <= 0
    that libmpdec can represent, any number of digits; and quantize never leaves the 28-digit / quantum-exponent domain on which it is the identity. *)
From OfxV Require Import Base.Prelude Base.Digits Gen.ScalarsGen Model.PyDecimal Model.Scalars Model.ScalarsLex Proofs.ScalarsText Proofs.PyDecimalProofs Proofs.ScalarsProofs Proofs.ScalarsLexProofs Proofs.ScalarsThms.
Local Open Scope N_scope.
Theorem decimal_plain_roundtrip : forall neg c e,
  (e <= 0)%Z -> representable c e = true ->
  of_string (to_plain_fin neg c e) = OK (Fin neg c e) /\ of_string_comma (to_plain_fin neg c e) = OK (Fin neg c e)
  /\ (forall e0 q d, quantize neg c e0 q = OK d -> exists c', d = Fin neg c' q /\ dec_wf d = true /\ quantize neg c' q q = OK d).
Proof. exact decimal_plain_roundtrip_l. Qed.
Print Assumptions decimal_plain_roundtrip.
