(** C10 obligation: writing a value and reading the text back returns the value -- for every element (any type, parameters,
    required flag, ListElement nesting) and every value that convert delivers unchanged (what an instance can hold).
    Decimals: equal sign, coefficient AND exponent.  [value_wf]: a PDec stands for a decimal.Decimal object (representable by libmpdec).
    The one spelled-out deviation, a Python bool held by an Integer, is Integer_bool_reads_back_as_int. *)
From OfxV Require Import Base.Prelude Base.Digits Gen.ScalarsGen Model.PyDecimal Model.Scalars Model.ScalarsLex Proofs.ScalarsText Proofs.PyDecimalProofs Proofs.ScalarsProofs Proofs.ScalarsLexProofs Proofs.ScalarsThms.
Local Open Scope N_scope.
Theorem T_convert_unconvert : forall e v w s w',
  value_wf v -> ~ bool_in_integer (elem_sty e) v ->
  convert e v = OK (v, w) -> unconvert e v = OK (Some s, w') ->
  convert e (PStr s) = OK (v, w').
Proof. exact T_convert_unconvert_l. Qed.
Print Assumptions T_convert_unconvert.
