(** C16 obligation.  SONRS.org / SONRS.fid return what FI.org / FI.fid of the stored <FI> return. *)
From OfxV Require Import Base.Prelude Model.Schema Model.Convert Model.Shortcuts Model.Lookup Proofs.LookupLive Gen.SchemaS Gen.LookupGen.
Local Open Scope string_scope.
Theorem sonrs_org_fid_is_path :
  forall (sval : Type) (fx : bool) (n : string) (fs : list (string * fval sval)) (ms : list (member sval)) (j : inst sval) (v : pyobj sval),
    In n ["org"; "fid"] -> assoc "fi" fs = Some (FSub sval j) ->
    getattr_m sval fx S LT j n = OK v -> getattr_m sval fx S LT (Inst sval "SONRS" fs ms) n = OK v.
Proof. exact sonrs_org_fid_l. Qed.
Print Assumptions sonrs_org_fid_is_path.
