(** C16 obligation.  Aggregate.__getattr__ of the live tree is the REPAIRED form (fixes/C16-1): the fetch of the sub-aggregate
    stands inside the try, so that the KeyError of an unset attribute (a repeated child; any attribute of a blank instance)
    is a miss like any other.  The theorems miss_is_attribute_error / miss_on_blank / flat_access_unique are about that form
    (fx = true); for the form found in the unpatched tree they are false: see miss_legacy_refuted. *)
From OfxV Require Import Base.Prelude Gen.LookupGen.
Theorem getattr_is_repaired : first_fetch_in_try = true.
Proof. reflexivity. Qed.
Print Assumptions getattr_is_repaired.
