(** C16 obligation.  The descriptors regenerated from the property bodies of /repo are, class by class and name by name, the
    shortcuts AS SPECIFIED (Model/LookupWalk.shortcuts_spec, written from the property text): in particular every message set
    tests each of its statement wrappers once - BANKMSGSRQV1 tests STMTTRNRQ and STMTENDTRNRQ (the tree as found tests
    STMTTRNRQ twice and never reaches the closing-statement requests: fixes/C16-2) - and OFX.statements walks the six
    message sets in the documented order. *)
From OfxV Require Import Base.Prelude Model.Schema Model.Shortcuts Model.LookupWalk Gen.LookupGen.
Theorem shortcut_tables_as_specified : class_extra = shortcuts_spec.
Proof. reflexivity. Qed.
Print Assumptions shortcut_tables_as_specified.
