(** C16: with the descriptor of BANKMSGSRQV1.statements AS FOUND in the unpatched tree (STMTTRNRQ tested twice) the shortcut
    does not equal the path walk of the specification: a message set holding one closing-statement request returns no
    statement at all.  Witness of defect 14 (fixes/C16-2); the same shape is in corpus/C16/closing_statement_requests.json. *)
From OfxV Require Import Base.Prelude Model.Schema Model.Convert Model.Shortcuts Model.Lookup Model.LookupWalk Gen.SchemaS Gen.LookupGen.
Local Open Scope string_scope.
Local Open Scope N_scope.
Definition tb_found : ltab :=
  mk_ltab base_attrs [("BANKMSGSRQV1", [("statements", KShortcut (SCWrapped [] false [("STMTTRNRQ", "stmtrq"); ("STMTTRNRQ", "stmtendrq")]))])] none_attrs.
Definition closing : inst N :=
  Inst N "STMTENDRQ" [("bankacctfrom", FSub N (Inst N "BANKACCTFROM" [("bankid", FVal N 1); ("branchid", FNone N); ("acctid", FVal N 2); ("accttype", FVal N 3); ("acctkey", FNone N)] []));
                      ("dtstart", FNone N); ("dtend", FNone N)] [].
Definition msgs : inst N :=
  Inst N "BANKMSGSRQV1" [] [MAgg N (Inst N "STMTENDTRNRQ" [("trnuid", FVal N 4); ("cltcookie", FNone N); ("tan", FNone N); ("ofxextension", FNone N); ("stmtendrq", FSub N closing)] [])].
Theorem bankrq_legacy_refuted :
  forall fx, wrapped_ok_b N S tb_found "statements" msgs = true /\
             getattr_m N fx S tb_found msgs "statements" = OK (PList N []) /\
             walk_members N S [("STMTTRNRQ", "stmtrq"); ("STMTENDTRNRQ", "stmtendrq")] (imembers N msgs) = [closing].
Proof. intros []; vm_compute; repeat split; reflexivity. Qed.
Print Assumptions bankrq_legacy_refuted.
