(** C16 obligation.  OFX.signon is SIGNONMSGSRQV1.sonrq when the request message set is stored, else SIGNONMSGSRSV1.sonrs. *)
From OfxV Require Import Base.Prelude Model.Schema Model.Convert Model.Shortcuts Model.Lookup Proofs.LookupLive Gen.SchemaS Gen.LookupGen.
Local Open Scope string_scope.
Theorem ofx_signon_is_path :
  forall (sval : Type) (fx : bool) (fs : list (string * fval sval)) (ms : list (member sval)),
    (forall j v, assoc "signonmsgsrqv1" fs = Some (FSub sval j) -> getattr_m sval fx S LT j "sonrq" = OK v ->
                 getattr_m sval fx S LT (Inst sval "OFX" fs ms) "signon" = OK v) /\
    (forall j v, assoc "signonmsgsrqv1" fs = Some (FNone sval) -> assoc "signonmsgsrsv1" fs = Some (FSub sval j) ->
                 getattr_m sval fx S LT j "sonrs" = OK v -> getattr_m sval fx S LT (Inst sval "OFX" fs ms) "signon" = OK v).
Proof. exact ofx_signon_l. Qed.
Print Assumptions ofx_signon_is_path.
