(** C16 obligation.  For EVERY class table S, class-attribute table tb and instance i (populated, partly populated or blank),
    and every name n: if neither the class of i nor the class of any aggregate reachable from i through non-repeated
    sub-aggregates defines n (as a spec attribute or a class-level name), then getattr(i, n) raises AttributeError - exactly
    (Err Reject; KeyError or anything else would be Err Crash).  This is what hasattr, getattr with a default, copy.copy,
    copy.deepcopy and pickle rely on.  Hypotheses: lk_wf (classes known, no scalar under a sub-aggregate attribute:
    SubAggregate.convert), n is not a name NoneType answers (__bool__ ...), and the repaired __getattr__ (fx = true). *)
From OfxV Require Import Base.Prelude Model.Schema Model.Convert Model.Shortcuts Model.Lookup Proofs.LookupThms.
Theorem miss_is_attribute_error :
  forall (sval : Type) (S : schema) (tb : ltab) (i : inst sval) (n : string),
    lk_wf_b sval S i = true -> mem n (lt_none tb) = false ->
    (forall p d, at_path sval S i p = Some d -> defines S tb (icls sval d) n = false) ->
    getattr_m sval true S tb i n = Err Reject.
Proof. exact miss_is_attribute_error_l. Qed.
Print Assumptions miss_is_attribute_error.
