(** C16 obligation.  For EVERY class table, class-attribute table, instance i and name n: if all the aggregates that define n
    among i and its non-repeated descendants sit at ONE path p (exactly one definer, d), then reading n directly on i gives
    what d gives - and when n is a spec attribute of d whose value is stored, exactly the value stored there. *)
From OfxV Require Import Base.Prelude Model.Schema Model.Convert Model.Shortcuts Model.Lookup Model.LookupWalk Proofs.LookupThms.
Theorem flat_access_unique :
  forall (sval : Type) (S : schema) (tb : ltab) (i d : inst sval) (p : list string) (n : string),
    lk_wf_b sval S i = true -> mem n (lt_none tb) = false -> at_path sval S i p = Some d ->
    (forall p' d', at_path sval S i p' = Some d' -> defines S tb (icls sval d') n = true -> p' = p) ->
    (forall v, getattr_m sval true S tb d n = OK v -> getattr_m sval true S tb i n = OK v) /\
    (forall f, stored_b sval S d n = true -> assoc n (ifields sval d) = Some f ->
               getattr_m sval true S tb i n = OK (obj_of_fval sval f)).
Proof. exact flat_access_unique_l. Qed.
Print Assumptions flat_access_unique.
