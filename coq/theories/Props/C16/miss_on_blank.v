(** C16 obligation.  The blank instance of any class (cls.__new__(cls), empty dictionary: what copy.copy, copy.deepcopy and
    pickle create before restoring the state, and on which they probe __setstate__ / __deepcopy__ / __getnewargs_ex__ ...)
    answers every name its class does not define with AttributeError, whatever sub-aggregates the class declares. *)
From OfxV Require Import Base.Prelude Model.Schema Model.Convert Model.Shortcuts Model.Lookup Proofs.LookupThms.
Theorem miss_on_blank :
  forall (sval : Type) (S : schema) (tb : ltab) (cn n : string),
    (exists c, find_cls S cn = Some c) -> mem n (lt_none tb) = false -> defines S tb cn n = false ->
    getattr_m sval true S tb (Inst sval cn [] []) n = Err Reject.
Proof. exact miss_on_blank_l. Qed.
Print Assumptions miss_on_blank.
