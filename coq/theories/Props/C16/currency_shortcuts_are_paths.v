(** C16 obligation.  On each of the eleven classes carrying the Origcurrency mixin: with cur = the stored CURRENCY, else the
    stored ORIGCURRENCY, curtype is the class name of cur, cursym and currate are what cur answers; all three are None when
    neither is present. *)
From OfxV Require Import Base.Prelude Model.Schema Model.Convert Model.Shortcuts Model.Lookup Proofs.LookupShortcuts Proofs.LookupLive Gen.SchemaS Gen.LookupGen.
Local Open Scope string_scope.
Theorem currency_shortcuts_are_paths :
  forall (sval : Type) (fx : bool) (cn : string) (fs : list (string * fval sval)) (ms : list (member sval)),
    In cn cur_classes ->
    (forall j, cur_path sval fs "currency" "origcurrency" = Some j ->
       getattr_m sval fx S LT (Inst sval cn fs ms) "curtype" = OK (PName sval (icls sval j)) /\
       (forall v, getattr_m sval fx S LT j "cursym" = OK v -> getattr_m sval fx S LT (Inst sval cn fs ms) "cursym" = OK v) /\
       (forall v, getattr_m sval fx S LT j "currate" = OK v -> getattr_m sval fx S LT (Inst sval cn fs ms) "currate" = OK v)) /\
    (forall n, In n ["curtype"; "cursym"; "currate"] ->
       assoc "currency" fs = Some (FNone sval) -> assoc "origcurrency" fs = Some (FNone sval) ->
       getattr_m sval fx S LT (Inst sval cn fs ms) n = OK (PNone sval)).
Proof.
  intros sval fx cn fs ms Hin. split.
  - intros j Hp. exact (currency_shortcuts_l sval fx cn fs ms j Hin Hp).
  - intros n Hn. exact (currency_none_l sval fx cn fs ms n Hin Hn).
Qed.
Print Assumptions currency_shortcuts_are_paths.
