(** C16 obligation.  For EVERY class table and class-attribute table: a shortcut with descriptor SCMembersOf A
    (SECLISTMSGSRSV1.securities, A = SECLIST) returns the members of every list member that is an A, in document order
    (sec_of); a shortcut with descriptor SCTruthyVia (OFX.securities) returns that list for the stored message set, and the
    empty list when it is absent or empty (truthy_walk). *)
From OfxV Require Import Base.Prelude Model.Schema Model.Convert Model.Shortcuts Model.Lookup Model.LookupWalk Proofs.LookupThms.
Theorem securities_is_path_walk :
  forall (sval : Type) (S : schema) (tb : ltab) (fx : bool) (n : string) (i : inst sval),
    (truthy_ok_b sval S tb n i = true -> getattr_m sval fx S tb i n = OK (PList sval (truthy_walk sval S tb n i))) /\
    (class_level_b S tb (icls sval i) n (fun k => match k with KShortcut (SCMembersOf _) => true | _ => false end) = true ->
     getattr_m sval fx S tb i n = OK (PList sval (sec_of sval S tb n i))).
Proof. intros sval S tb fx n i. exact (securities_is_path_walk_l sval S tb fx n i). Qed.
Print Assumptions securities_is_path_walk.
