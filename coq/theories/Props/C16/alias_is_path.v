(** C16 obligation.  On the live classes, each simple alias IS the attribute it names, on every instance (whatever its
    dictionary holds, blank included): STMTRS/CCSTMTRS/INVSTMTRS .account .transactions .balance(s) .positions,
    STMTTRNRS/CCSTMTTRNRS/CCSTMTENDTRNRS/INVSTMTTRNRS .statement, PROFTRNRS.profile. *)
From OfxV Require Import Base.Prelude Model.Schema Model.Convert Model.Shortcuts Model.Lookup Proofs.LookupLive Gen.SchemaS Gen.LookupGen.
Theorem alias_is_path :
  forall (sval : Type) (fx : bool) (cn n a : string) (fs : list (string * fval sval)) (ms : list (member sval)),
    In (cn, n, a) alias_spec ->
    getattr_m sval fx S LT (Inst sval cn fs ms) n = getattr_m sval fx S LT (Inst sval cn fs ms) a.
Proof. exact alias_is_path_l. Qed.
Print Assumptions alias_is_path.
