(** C16 obligation.  (1) For EVERY class table and class-attribute table: a `statements`-like shortcut over a message set
    (descriptor SCWrapped) returns exactly the statement - or closing statement - objects found by walking the members in
    document order and taking, for each wrapper whose class passes one of the descriptor's tests, the sub-aggregate stored
    under the corresponding attribute when there is one: every statement once, in document order (walk_of); the shortcut over
    the whole tree (descriptor SCConcat) returns the concatenation of those walks over the message sets it names, in its order
    (concat_walk).  Side conditions (wrapped_ok_b / concat_ok_b): the attributes the walk reads are stored spec attributes -
    what __init__ guarantees; evaluated on every generated instance by the correspondence run.
    (2) On the live tables, OFX.statements walks bankmsgsrqv1, creditcardmsgsrqv1, invstmtmsgsrqv1, bankmsgsrsv1,
    creditcardmsgsrsv1, invstmtmsgsrsv1 in this order.   [which wrappers each message set tests: msgset_statements_live] *)
From OfxV Require Import Base.Prelude Model.Schema Model.Convert Model.Shortcuts Model.Lookup Model.LookupWalk Proofs.LookupThms Proofs.LookupLive
     Gen.SchemaS Gen.LookupGen.
Local Open Scope string_scope.
Theorem statements_is_path_walk :
  (forall (sval : Type) (S : schema) (tb : ltab) (fx : bool) (n : string) (i : inst sval),
    (concat_ok_b sval S tb n i = true ->
     getattr_m sval fx S tb i n = OK (PList sval (map (PInst sval) (concat_walk sval S tb n i)))) /\
    (wrapped_ok_b sval S tb n i = true ->
     getattr_m sval fx S tb i n = OK (PList sval (map (PInst sval) (walk_of sval S tb n i))))) /\
  (forall (sval : Type) (fx : bool) (i : inst sval),
    icls sval i = "OFX" -> concat_ok_b sval S LT "statements" i = true ->
    getattr_m sval fx S LT i "statements" =
    OK (PList sval (map (PInst sval)
         (flat_map (fun a => match assoc a (ifields sval i) with Some (FSub _ j) => walk_of sval S LT "statements" j | _ => [] end)
                   ["bankmsgsrqv1"; "creditcardmsgsrqv1"; "invstmtmsgsrqv1"; "bankmsgsrsv1"; "creditcardmsgsrsv1"; "invstmtmsgsrsv1"])))).
Proof.
  split.
  - intros sval S tb fx n i. exact (statements_is_path_walk_l sval S tb fx n i).
  - exact ofx_statements_live_l.
Qed.
Print Assumptions statements_is_path_walk.
