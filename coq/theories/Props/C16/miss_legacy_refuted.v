(** C16: the miss theorem is FALSE of Aggregate.__getattr__ as found in the unpatched tree (fx = false: the sub-aggregate is
    fetched outside the try): on the live tables, BALLIST() - an aggregate whose only sub-aggregate attribute is a repeated
    child - and the blank STMTRS (what copy / pickle create) answer the undefined name "x" with KeyError (Err Crash), although
    nothing defines it.  Witnesses of defect 13 (fixes/C16-1); the same inputs are in corpus/C16/getattr_keyerror.json. *)
From OfxV Require Import Base.Prelude Model.Schema Model.Convert Model.Shortcuts Model.Lookup Proofs.LookupThms Gen.SchemaS Gen.LookupGen.
Local Open Scope string_scope.
Theorem miss_legacy_refuted :
  forall cn, In cn ["BALLIST"; "STMTRS"] ->
    let i := Inst N cn [] [] in
    lk_wf_b N S i = true /\ mem "x" (lt_none LT) = false /\
    (forall p d, at_path N S i p = Some d -> defines S LT (icls N d) "x" = false) /\
    getattr_m N false S LT i "x" = Err Crash /\ getattr_m N true S LT i "x" = Err Reject.
Proof.
  intros cn Hin i. assert (Hd : defines S LT cn "x" = false) by (destruct Hin as [<-|[<-|[]]]; vm_compute; reflexivity).
  split; [destruct Hin as [<-|[<-|[]]]; vm_compute; reflexivity|]. split; [vm_compute; reflexivity|]. split.
  - intros p d Hp. rewrite (at_path_blank N S cn p d Hp). exact Hd.
  - destruct Hin as [<-|[<-|[]]]; vm_compute; split; reflexivity.
Qed.
Print Assumptions miss_legacy_refuted.
