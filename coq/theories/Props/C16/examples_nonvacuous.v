(** C16: the hypotheses of the theorems are inhabited on the regenerated tables, and the conclusions are what evaluation gives.
    (1) miss: BALLIST() and "x" (also a name only a repeated child's class defines: "name" of BAL is not reachable);
    (2) flat access: a BAL holding a CURRENCY: "cursym" is defined by CURRENCY alone, at path [currency]: bal.cursym is the stored value;
    (3) statements: a response OFX tree with a statement wrapper, a closing-statement wrapper and a wrapper without statement. *)
From OfxV Require Import Base.Prelude Model.Schema Model.Convert Model.Shortcuts Model.Lookup Model.LookupWalk Proofs.LookupThms Gen.SchemaS Gen.LookupGen.
Local Open Scope string_scope.
Local Open Scope N_scope.
Definition cur : inst N := Inst N "CURRENCY" [("currate", FVal N 1); ("cursym", FVal N 2)] [].
Definition bal : inst N :=
  Inst N "BAL" [("name", FVal N 3); ("desc", FVal N 4); ("baltype", FVal N 5); ("value", FVal N 6); ("dtasof", FNone N); ("currency", FSub N cur)] [].
Definition status : inst N := Inst N "STATUS" [("code", FVal N 7); ("severity", FVal N 8); ("message", FNone N)] [].
Definition stmtrs : inst N := Inst N "STMTRS" [("curdef", FVal N 9)] [].
Definition stmtendrs : inst N := Inst N "STMTENDRS" [("curdef", FVal N 9)] [].
Definition wrapper (a : string) (x : fval N) : inst N :=
  Inst N (if String.eqb a "stmtrs" then "STMTTRNRS" else "STMTENDTRNRS") [("trnuid", FVal N 10); ("status", FSub N status); ("cltcookie", FNone N); ("ofxextension", FNone N); (a, x)] [].
Definition bankrs : inst N :=
  Inst N "BANKMSGSRSV1" [] [MAgg N (wrapper "stmtendrs" (FSub N stmtendrs)); MAgg N (wrapper "stmtrs" (FNone N)); MAgg N (wrapper "stmtrs" (FSub N stmtrs))].
Definition ofx : inst N :=
  Inst N "OFX" [("signonmsgsrsv1", FNone N); ("bankmsgsrqv1", FNone N); ("creditcardmsgsrqv1", FNone N); ("invstmtmsgsrqv1", FNone N);
                ("bankmsgsrsv1", FSub N bankrs); ("creditcardmsgsrsv1", FNone N); ("invstmtmsgsrsv1", FNone N)] [].

Theorem examples_nonvacuous :
  (* (1) *)
  (lk_wf_b N S (Inst N "BALLIST" [] []) = true /\ mem "x" (lt_none LT) = false /\
   (forall p d, at_path N S (Inst N "BALLIST" [] []) p = Some d -> defines S LT (icls N d) "x" = false) /\
   getattr_m N true S LT (Inst N "BALLIST" [] []) "x" = Err Reject) /\
  (* (2) *)
  (lk_wf_b N S bal = true /\ mem "cursym" (lt_none LT) = false /\ at_path N S bal ["currency"] = Some cur /\
   (forall p' d', at_path N S bal p' = Some d' -> defines S LT (icls N d') "cursym" = true -> p' = ["currency"]) /\
   stored_b N S cur "cursym" = true /\ getattr_m N true S LT bal "cursym" = OK (PVal N 2)) /\
  (* (3) *)
  (concat_ok_b N S LT "statements" ofx = true /\
   getattr_m N true S LT ofx "statements" = OK (PList N [PInst N stmtendrs; PInst N stmtrs])).
Proof.
  split; [|split].
  - split; [vm_compute; reflexivity|]. split; [vm_compute; reflexivity|]. split; [|vm_compute; reflexivity].
    intros p d Hp. rewrite (at_path_blank N S "BALLIST" p d Hp). vm_compute. reflexivity.
  - split; [vm_compute; reflexivity|]. split; [vm_compute; reflexivity|]. split; [vm_compute; reflexivity|].
    split; [|split; vm_compute; reflexivity].
    intros p' d' Hp Hd. destruct p' as [|s t].
    + cbn in Hp. injection Hp as <-. vm_compute in Hd. discriminate.
    + destruct (at_path_cons_inv N S bal s t d' Hp) as (j & Hin & Hj). cbn [ifields bal] in Hin.
      repeat (destruct Hin as [E|Hin]; [try discriminate|]); [|contradiction]. injection E as <- <-.
      destruct t as [|s2 t2]; [reflexivity|]. exfalso.
      destruct (at_path_cons_inv N S cur s2 t2 d' Hj) as (j2 & Hin2 & _). cbn [ifields cur] in Hin2.
      repeat (destruct Hin2 as [E|Hin2]; [discriminate|]). contradiction.
  - split; vm_compute; reflexivity.
Qed.
Print Assumptions examples_nonvacuous.
