(** C16 obligation.  The two translators understood everything they read from /repo: every class attribute type, hook and
    override (class table) and - for the Lookup engine - every property of every Aggregate subclass is one of the shortcut
    bodies modelled in Model/Shortcuts.v (pinned by the normalised-AST hash of its body), no class overrides part of the
    attribute / copy protocol, no class-level name shadows a spec attribute, and every `self.<name>` a shortcut reads is a
    non-list spec attribute of the class carrying it. *)
From OfxV Require Import Base.Prelude Model.Schema Model.Shortcuts Model.LookupWalk Gen.SchemaGen Gen.SchemaS Gen.LookupGen.
Theorem translator_complete : SchemaGen.translator_complete = true /\ lookup_translator_complete = true /\ reads_ok S class_extra = true.
Proof. repeat split; vm_compute; reflexivity. Qed.
Print Assumptions translator_complete.
