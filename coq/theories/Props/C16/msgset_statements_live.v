(** C16 obligation.  On the live tables each of the six message sets returns, as `statements`, the walk over its members with
    the tests of the specification: BANKMSGSRQV1: STMTTRNRQ.stmtrq, STMTENDTRNRQ.stmtendrq; CREDITCARDMSGSRQV1: CCSTMTTRNRQ.ccstmtrq,
    CCSTMTENDTRNRQ.ccstmtendrq; INVSTMTMSGSRQV1: INVSTMTTRNRQ.invstmtrq; and the same on the response side - closing statements
    included.  (Breaks on the tree as found: BANKMSGSRQV1 never reaches STMTENDTRNRQ; fixes/C16-2.) *)
From OfxV Require Import Base.Prelude Model.Schema Model.Convert Model.Shortcuts Model.Lookup Model.LookupWalk Proofs.LookupLive Gen.SchemaS Gen.LookupGen.
Local Open Scope string_scope.
Theorem msgset_statements_live :
  forall (sval : Type) (fx : bool) (cn : string) (tests : list (string * string)) (fs : list (string * fval sval)) (ms : list (member sval)),
    In (cn, tests) msgset_tests_spec -> wrapped_ok_b sval S LT "statements" (Inst sval cn fs ms) = true ->
    getattr_m sval fx S LT (Inst sval cn fs ms) "statements" = OK (PList sval (map (PInst sval) (walk_members sval S tests ms))).
Proof.
  intros sval fx cn tests fs ms. apply msgset_statements_live_l. vm_compute. reflexivity.
Qed.
Print Assumptions msgset_statements_live.
