(** C06 obligation: the 31 aggregate classes the client instantiates, as regenerated from the live /repo, still have the
    attributes Model/Compose.v sets, of the kind and in the relative order it emits them, no other required attribute and no
    other mutex group; the class-name order the two sorts rely on is the one the proofs use. *)
From OfxV Require Import Base.Prelude Base.Digits Base.ComposeBase Gen.ComposeGen Model.Compose Proofs.ComposeProofs Proofs.ComposeFacts.
Local Open Scope N_scope.
Theorem schema_as_modelled_holds :
  schema_as_modelled = true
  /\ (forall k1 k2, text_leb (kind_name k1) (kind_name k2) = Nat.leb (krank k1) (krank k2))
  /\ (forall m1 m2, text_leb (msgset_name m1) (msgset_name m2) = Nat.leb (mrank m1) (mrank m2)).
Proof. split; [vm_compute; reflexivity|]. split; [exact kind_order|exact msgset_order]. Qed.
Print Assumptions schema_as_modelled_holds.
