(** C06 obligation: versions 2xx refuse to omit end tags: the constructor refuses (ValueError), serialize refuses whatever
    the overrides resolve to, and therefore no request is ever composed with close_elements = False and version >= 200. *)
From OfxV Require Import Base.Prelude Base.Digits Base.ComposeBase Gen.ComposeGen Model.Compose Proofs.ComposeProofs Proofs.ComposeFacts.
Local Open Scope N_scope.
Theorem v2_refuses_unclosed :
  (forall a, dflt (a_close_elements a) d_close_elements = false -> 200 <= dflt (a_version a) d_version -> client_init a = Err Reject)
  /\ (forall c ov oc nf body, dflt oc (close_elements c) = false -> 200 <= dflt ov (version c) ->
        is_ok (serialize c ov oc nf body) = false)
  /\ (forall c uuids d pw gen reqs r, request_statements c uuids d pw gen reqs = OK r -> close_elements c = true \/ version c < 200)
  /\ (forall c uuids d pw dt gen r, request_accounts c uuids d pw dt gen = OK r -> close_elements c = true \/ version c < 200)
  /\ (forall c uuids d pw ys an rid gen r, request_tax1099 c uuids d pw ys an rid gen = OK r -> close_elements c = true \/ version c < 200)
  /\ (forall c uuids d dp ov oc gen r, request_profile c uuids d dp ov oc gen = OK r ->
        dflt oc (close_elements c) = true \/ dflt ov (version c) < 200).
Proof. exact refusal_all. Qed.
Print Assumptions v2_refuses_unclosed.
