(** C06 obligation: every composed request has exactly one sign-on, the first child of <OFX>, and it is [spec_signon]:
      SIGNONMSGSRQV1 [ SONRQ [ DTCLIENT; USERID; USERPASS; LANGUAGE; FI [ORG; FID] iff ORG is configured; APPID; APPVER;
                               CLIENTUID iff configured and version >= 103 ] ]
    with each field the value the caller supplied as the constructors normalise it ([norm]: "" is absent, otherwise
    saxutils.unescape; a value without '&' is unchanged: third conjunct).  Profile requests sign on with AUTH_PLACEHOLDER. *)
From OfxV Require Import Base.Prelude Base.Digits Base.ComposeBase Gen.ComposeGen Model.Compose Proofs.ComposeProofs Proofs.ComposeFacts.
Local Open Scope N_scope.
Theorem composed_signon_exact :
  ((forall c uuids d pw gen reqs r, request_statements c uuids d pw gen reqs = OK r ->
     exists rest, c_body r = Node (T "OFX") None (spec_signon c d (userid c) pw :: rest) /\ no_signon rest)
  /\ (forall c uuids d pw dt gen r, request_accounts c uuids d pw dt gen = OK r ->
     exists rest, c_body r = Node (T "OFX") None (spec_signon c d (userid c) pw :: rest) /\ no_signon rest)
  /\ (forall c uuids d pw ys an rid gen r, request_tax1099 c uuids d pw ys an rid gen = OK r ->
     exists rest, c_body r = Node (T "OFX") None (spec_signon c d (userid c) pw :: rest) /\ no_signon rest)
  /\ (forall c uuids d dp ov oc gen r, request_profile c uuids d dp ov oc gen = OK r ->
     exists rest, c_body r = Node (T "OFX") None (spec_signon c d auth_placeholder auth_placeholder :: rest) /\ no_signon rest))
  /\ (forall c d uid pw,
      let so := sub "SONRQ" (Some (spec_signon c d uid pw)) in
      val (sub "DTCLIENT" so) = dtext d
      /\ val (sub "USERID" so) = norm (Some uid) /\ val (sub "USERPASS" so) = norm (Some pw)
      /\ val (sub "LANGUAGE" so) = keep (Some (language c))
      /\ val (sub "APPID" so) = norm (Some (appid c)) /\ val (sub "APPVER" so) = norm (Some (appver c))
      /\ val (sub "CLIENTUID" so) = (if version c <? 103 then None else norm (clientuid c))
      /\ (truthy (org c) = false -> sub "FI" so = None)
      /\ (truthy (org c) = true -> val (sub "ORG" (sub "FI" so)) = norm (org c) /\ val (sub "FID" (sub "FI" so)) = norm (fid c))
      /\ sub "USERKEY" so = None /\ sub "SESSCOOKIE" so = None)
  /\ (forall v, plain v = true -> norm (Some v) = Some v).
Proof. split; [exact one_signon_all|]. split; [exact signon_fields|exact norm_plain]. Qed.
Print Assumptions composed_signon_exact.
