(** C06 obligation: the model the correspondence run uses for requests that are instances of USER SUBCLASSES of the five
    parameter classes ([request_statements_named]: sorted by class __name__, grouped by class, dispatched to the base kind)
    is, for instances of the stock classes, exactly [request_statements] - the function the other C06 theorems are about. *)
From OfxV Require Import Base.Prelude Base.Digits Base.ComposeBase Gen.ComposeGen Model.Compose Proofs.ComposeProofs.
Local Open Scope N_scope.
Theorem named_requests_stock : forall c uuids d pw gen reqs,
  request_statements_named c uuids d pw gen (map (fun r => (kind_name (kind_of r), r)) reqs)
  = request_statements c uuids d pw gen reqs.
Proof. exact named_stock. Qed.
Print Assumptions named_requests_stock.
