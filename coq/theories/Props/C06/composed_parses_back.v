(** C06 obligation (integration with C05 / C02 / the writers): the BYTES OFXClient.serialize returns for a composed request
    - str(make_header(version, newfileuid)) followed by the body written by ET.tostring(method="html") or, for close_elements
    = False, by the repaired tostring_unclosed_elements, plain or after utils.indent - are split by header.parse_header
    (Model/Header.v) into that header (same version, same NEWFILEUID) and the message, which Parser.TreeBuilder (Model/Sgml.v,
    [parse repaired]) reads into the composed tree with every element's data passed through ET._escape_cdata
    ([read_tree_is_escaped]: third conjunct).  For all four request kinds, every version 1xx / 2xx, pretty or not, closed or not.

      read_back h body ver nf t :=  exists hd msg, parse_header (h ++ body) = OK (hd, msg)
                                      /\ hdr_version hd = ver /\ hdr_newfileuid hd = (nf or "NONE")
                                      /\ parse repaired msg = OK (Some (tree_of (wire_doc (to_sg t))))

    Hypotheses (the stated domain), all decidable on the inputs / on the composed tree:
      [forallb uid_ok uuids]: the uuids are 1..36 characters over [A-Za-z0-9_-] (uuid4's output is);
      [leaves_stripped (c_body r)]: every element data written is non-empty without surrounding white space (the readers strip);
      [scalar_text (written_text ...)]: the text holds Unicode scalar values only (no lone surrogates);
      for close_elements = False: [sgml_ok]: no aggregate without children (that writer cannot express one) - this excludes the
        tax request with neither year nor account number nor recipient id, and nothing else the live classes let through;
      [serialize_body ... = OK body]: the body bytes are those of Model/Serialize.v's writers (C02's engine) with the client's
        prettyprint / close_elements (for the profile request: the overrides).
    That every composed tree has well-formed OFX tags, no text on aggregates and an aggregate root ([frame_ok]) is PROVED here
    (from the closed forms), not assumed; the header text is proved equal to the Header engine's str(header) of a valid header. *)
From OfxV Require Import Base.Prelude Base.Digits Base.SgmlBase Model.Sgml Model.SgmlSpec Model.Serialize
     Model.Header Model.HeaderLayout Gen.SgmlGen Proofs.SerializeProofs Proofs.FileRoundTrip.
From OfxV Require Import Base.ComposeBase Gen.ComposeGen Model.Compose Proofs.ComposeProofs Proofs.ComposeWire.
Local Open Scope N_scope.
Theorem composed_parses_back :
  ((forall c uuids d pw gen reqs r body,
     request_statements c uuids d pw gen reqs = OK r ->
     forallb uid_ok uuids = true -> leaves_stripped (c_body r) = true ->
     (close_elements c = false -> sgml_ok (wire_doc (to_sg (c_body r))) = true) ->
     scalar_text (written_text (prettyprint c) (close_elements c) (c_body r)) = true ->
     serialize_body html_empty true (prettyprint c) (close_elements c) (to_sg (c_body r)) = OK body ->
     exists nf, read_back (c_header r) body (version c) nf (c_body r))
  /\ (forall c uuids d pw dt gen r body,
     request_accounts c uuids d pw dt gen = OK r ->
     forallb uid_ok uuids = true -> leaves_stripped (c_body r) = true ->
     (close_elements c = false -> sgml_ok (wire_doc (to_sg (c_body r))) = true) ->
     scalar_text (written_text (prettyprint c) (close_elements c) (c_body r)) = true ->
     serialize_body html_empty true (prettyprint c) (close_elements c) (to_sg (c_body r)) = OK body ->
     exists nf, read_back (c_header r) body (version c) nf (c_body r))
  /\ (forall c uuids d pw ys an rid gen r body,
     request_tax1099 c uuids d pw ys an rid gen = OK r ->
     forallb uid_ok uuids = true -> leaves_stripped (c_body r) = true ->
     (close_elements c = false -> sgml_ok (wire_doc (to_sg (c_body r))) = true) ->
     scalar_text (written_text (prettyprint c) (close_elements c) (c_body r)) = true ->
     serialize_body html_empty true (prettyprint c) (close_elements c) (to_sg (c_body r)) = OK body ->
     exists nf, read_back (c_header r) body (version c) nf (c_body r))
  /\ (forall c uuids d dp ov oc (op : option bool) gen r body,
     request_profile c uuids d dp ov oc gen = OK r ->
     forallb uid_ok uuids = true -> leaves_stripped (c_body r) = true ->
     (dflt oc (close_elements c) = false -> sgml_ok (wire_doc (to_sg (c_body r))) = true) ->
     scalar_text (written_text (dflt op (prettyprint c)) (dflt oc (close_elements c)) (c_body r)) = true ->
     serialize_body html_empty true (dflt op (prettyprint c)) (dflt oc (close_elements c)) (to_sg (c_body r)) = OK body ->
     exists nf, read_back (c_header r) body (dflt ov (version c)) nf (c_body r)))
  /\ (forall h body ver nf t, read_back h body ver nf t <->
        exists hd msg, parse_header (h ++ body)%list = OK (hd, msg)
                       /\ hdr_version hd = Z.of_N ver /\ hdr_newfileuid hd = uid_in nf
                       /\ parse repaired msg = OK (Some (tree_of (wire_doc (to_sg t)))))
  /\ (forall t, frame_ok t = true -> leaves_stripped t = true -> tree_of (wire_doc (to_sg t)) = to_sg (esc_data t))
  /\ (pb_ok 102 false = true /\ pb_ok 102 true = true /\ pb_ok 203 true = true).
Proof.
  split; [exact composed_parses_back_l|]. split; [intros; reflexivity|]. split; [exact read_tree_is_escaped|exact parses_back_inhabited].
Qed.
Print Assumptions composed_parses_back.
