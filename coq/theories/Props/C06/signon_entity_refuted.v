(** C06 recorded finding (known_findings: entity-reference-in-value-unescaped): "the sign-on carries exactly the supplied
    user id" is FALSE of the faithful model for a value containing an entity reference: userid 'AT&amp;T' is written as
    'AT&T' (String.convert unescapes what a Python caller hands to a constructor). *)
From OfxV Require Import Base.Prelude Base.Digits Base.ComposeBase Gen.ComposeGen Model.Compose Proofs.ComposeProofs Proofs.ComposeFacts.
Local Open Scope N_scope.
Theorem signon_entity_refuted :
  exists so, signon entity_cfg (DAware (T "20240101")) (T "pw") None = OK so
             /\ val (sub "USERID" (sub "SONRQ" (Some so))) = Some (T "AT&T")
             /\ val (sub "USERID" (sub "SONRQ" (Some so))) <> Some (userid entity_cfg).
Proof. exact signon_entity_witness. Qed.
Print Assumptions signon_entity_refuted.
