(** C06: the hypotheses of the obligations are inhabited: a mixed request composes (wrappers in the proved order, distinct
    TRNUIDs), CLIENTUID appears at 103 and not at 102, 2xx without end tags is refused, the tax request carries ACCTNUM. *)
From OfxV Require Import Base.Prelude Base.Digits Base.ComposeBase Gen.ComposeGen Model.Compose Proofs.ComposeProofs Proofs.ComposeFacts.
Local Open Scope N_scope.
Definition ex_args (ver : N) (close : option bool) : init_args :=
  {| a_url := T "https://ofx.example/"; a_userid := Some (T "MoMoney"); a_clientuid := Some (T "CUID"); a_org := Some (T "B1");
     a_fid := Some (T "10898"); a_version := Some ver; a_appid := None; a_appver := None; a_language := None;
     a_prettyprint := None; a_close_elements := close; a_bankid := Some (T "111000614"); a_brokerid := Some (T "broker");
     a_useragent := None; a_persist_cookies := None |}.
Definition ex_uuids : list text := [T "U0"; T "U1"; T "U2"; T "U3"; T "U4"; T "U5"].
Definition ex_reqs : list rq :=
  [StmtRq (Some (T "s1")) (Some (T "CHECKING")) DNone DNone (Some true); CcStmtEndRq (Some (T "ce")) DNone DNone;
   InvStmtRq (Some (T "i1")) DNone DNone DNone (Some false) (Some false) (Some true) (Some true);
   StmtRq (Some (T "s2")) (Some (T "SAVINGS")) (DAware (T "D0")) DNone (Some false); StmtEndRq (Some (T "e1")) (Some (T "CD")) DNone DNone].
Definition ex_run (ver : N) (close : option bool) : result composed :=
  bind (client_init (ex_args ver close)) (fun c => request_statements c ex_uuids (DAware (T "NOW")) (T "pw") true ex_reqs).
Definition ex_ids (r : result composed) : list text := match r with OK x => trnuids (c_body x) | Err _ => [] end.
Definition ex_clientuid (r : result composed) : option text :=
  match r with OK x => val (sub "CLIENTUID" (sub "SONRQ" (sub "SIGNONMSGSRQV1" (Some (c_body x))))) | Err _ => None end.
Theorem examples_nonvacuous :
  is_ok (ex_run 103 None) = true
  /\ ex_ids (ex_run 103 None) = [T "U2"; T "U3"; T "U4"; T "U0"; T "U1"]       (* closing, s1, s2 | cc closing | investment *)
  /\ forallb plain ex_uuids = true /\ NoDup ex_uuids
  /\ ex_clientuid (ex_run 103 None) = Some (T "CUID") /\ ex_clientuid (ex_run 102 (Some false)) = None
  /\ is_ok (ex_run 102 (Some false)) = true
  /\ ex_run 203 (Some false) = Err Reject /\ is_ok (ex_run 203 None) = true
  /\ (exists r, bind (client_init (ex_args 220 None))
                  (fun c => request_tax1099 c ex_uuids (DAware (T "NOW")) (T "pw") [T "2019"; T "2020"] (Some (T "A1")) None true) = OK r
                /\ val (sub "ACCTNUM" (sub "TAX1099RQ" (sub "TAX1099TRNRQ" (sub "TAX1099MSGSRQV1" (Some (c_body r)))))) = Some (T "A1"))
  /\ schema_as_modelled = true.
Proof.
  repeat split; try (vm_compute; reflexivity).
  - repeat constructor; cbn; intuition discriminate.
  - eexists. split; vm_compute; reflexivity.
Qed.
Print Assumptions examples_nonvacuous.
