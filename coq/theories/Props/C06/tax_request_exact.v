(** C06 obligation: the tax request (as repaired by fixes/C06-1: acctnum is passed on) carries the account number, the
    recipient id and the tax years in the order given; four-digit years 1000..9999 are written as given (kernel sweep). *)
From OfxV Require Import Base.Prelude Base.Digits Base.ComposeBase Gen.ComposeGen Model.Compose Proofs.ComposeProofs Proofs.ComposeFacts.
Local Open Scope N_scope.
Theorem tax_request_exact :
  (forall c uuids d pw years acctnum recid gen r,
    request_tax1099 c uuids d pw years acctnum recid gen = OK r ->
    exists u rest ys,
      uuids = u :: rest /\ taxyear_elems tax_len years = OK ys
      /\ c_body r = Node (T "OFX") None
           [spec_signon c d (userid c) pw;
            Node (T "TAX1099MSGSRQV1") None
              [wrapper "TAX1099TRNRQ" u
                 (Node (T "TAX1099RQ") None
                    (leaf (T "ACCTNUM") (norm acctnum) ++ leaf (T "RECID") (norm recid) ++ ys))]]%list)
  /\ (forall ns, Forall (fun n => 1000 <= n < 10000) ns ->
        taxyear_elems tax_len (map dec_of_N ns) = OK (map (fun n => Node (T "TAXYEAR") (Some (dec_of_N n)) []) ns)).
Proof. split; [exact tax_exact|exact taxyears_plain]. Qed.
Print Assumptions tax_request_exact.
