(** C06 obligation: the header of every composed request is the OFXHeaderV1 / OFXHeaderV2 text for the configured version
    (for a profile request: the version override if given), whose VERSION field is the decimal numeral of that version;
    a version outside 1xx / the 2xx list composes nothing. *)
From OfxV Require Import Base.Prelude Base.Digits Base.ComposeBase Gen.ComposeGen Model.Compose Proofs.ComposeProofs Proofs.ComposeFacts.
Local Open Scope N_scope.
Theorem header_carries_version :
  ((forall c uuids d pw gen reqs r, request_statements c uuids d pw gen reqs = OK r -> header_for (version c) (c_header r))
  /\ (forall c uuids d pw dt gen r, request_accounts c uuids d pw dt gen = OK r -> header_for (version c) (c_header r))
  /\ (forall c uuids d pw ys an rid gen r, request_tax1099 c uuids d pw ys an rid gen = OK r -> header_for (version c) (c_header r))
  /\ (forall c uuids d dp ov oc gen r, request_profile c uuids d dp ov oc gen = OK r -> header_for (dflt ov (version c)) (c_header r)))
  /\ (forall ver nf, exists a b, header_v1 ver nf = (a ++ T "VERSION:" ++ dec_of_N ver ++ crlf ++ b)%list
                                 /\ a = (T "OFXHEADER:100" ++ crlf ++ T "DATA:OFXSGML" ++ crlf)%list)
  /\ (forall ver nf, exists a b, header_v2 ver nf = (a ++ T "VERSION=""" ++ dec_of_N ver ++ T """" ++ b)%list
                                 /\ a = (T "<?xml version=""1.0"" encoding=""UTF-8"" standalone=""no""?>" ++ crlf ++ T "<?OFX OFXHEADER=""200"" ")%list).
Proof. split; [exact header_all|]. split; [exact header_v1_version|exact header_v2_version]. Qed.
Print Assumptions header_carries_version.
