(** C06 obligation: for EVERY list of requests (any length, order, mix) the composed body is
      OFX [ sign-on; BANKMSGSRQV1 [closing wrappers; statement wrappers]; CREDITCARDMSGSRQV1 [cc closing; cc statement];
            INVSTMTMSGSRQV1 [investment] ]
    where a message set is present iff it has a wrapper ([mset]), the wrappers of a kind are [W c (of_kind k reqs) u]: one
    [spec_wrapper] per request of that kind, IN REQUEST ORDER ([of_kind k] = filter, a sub-sequence of [reqs]), zipped with
    the slice [u] of the uuid stream consumed for that kind (cc closing, cc, investment, closing, statement).
    [spec_wrapper] is the explicit tree carrying the request's fields (see wrapper_carries_request.v). *)
From OfxV Require Import Base.Prelude Base.Digits Base.ComposeBase Gen.ComposeGen Model.Compose Proofs.ComposeProofs Proofs.ComposeFacts.
Local Open Scope N_scope.
Theorem composed_wrappers_exact :
  (forall c uuids d pw gen reqs r,
    request_statements c uuids d pw gen reqs = OK r ->
    exists u0 u1 u2 u3 u4 rest,
      uuids = (u0 ++ u1 ++ u2 ++ u3 ++ u4 ++ rest)%list
      /\ List.length u0 = List.length (of_kind KCcStmtEnd reqs) /\ List.length u1 = List.length (of_kind KCcStmt reqs)
      /\ List.length u2 = List.length (of_kind KInvStmt reqs) /\ List.length u3 = List.length (of_kind KStmtEnd reqs)
      /\ List.length u4 = List.length (of_kind KStmt reqs)
      /\ c_body r = Node (T "OFX") None
           (spec_signon c d (userid c) pw
            :: olist (mset MBank (W c (of_kind KStmtEnd reqs) u3 ++ W c (of_kind KStmt reqs) u4))
            ++ olist (mset MCc (W c (of_kind KCcStmtEnd reqs) u0 ++ W c (of_kind KCcStmt reqs) u1))
            ++ olist (mset MInv (W c (of_kind KInvStmt reqs) u2)))%list
      /\ header_text (version c) (if gen then hd_error rest else None) = OK (c_header r)
      /\ negb (close_elements c) && (200 <=? version c) = false)
  /\ (forall c l us, List.length us = List.length l -> List.length (W c l us) = List.length l)
  /\ (forall k reqs, of_kind k reqs = filter (fun r => kind_eqb (kind_of r) k) reqs)
  /\ (forall m ws, mset m ws = match ws with [] => None | _ :: _ => Some (Node (msgset_name m) None ws) end)
  /\ (msgset_name MBank = T "BANKMSGSRQV1" /\ msgset_name MCc = T "CREDITCARDMSGSRQV1" /\ msgset_name MInv = T "INVSTMTMSGSRQV1").
Proof. exact statements_closed_full. Qed.
Print Assumptions composed_wrappers_exact.
