(** C06 obligation: given a duplicate-free uuid stream of plain values (non-empty, no '&': what uuid4 prints), the TRNUIDs
    of the composed statement request are pairwise distinct, there is exactly one per request, and each is a uuid of the
    stream. *)
From OfxV Require Import Base.Prelude Base.Digits Base.ComposeBase Gen.ComposeGen Model.Compose Proofs.ComposeProofs Proofs.ComposeFacts.
Local Open Scope N_scope.
Theorem trnuids_distinct : forall c uuids d pw gen reqs r,
  request_statements c uuids d pw gen reqs = OK r ->
  forallb plain uuids = true -> NoDup uuids ->
  NoDup (trnuids (c_body r)) /\ List.length (trnuids (c_body r)) = List.length reqs
  /\ forall u, In u (trnuids (c_body r)) -> In u uuids.
Proof. exact statements_trnuids. Qed.
Print Assumptions trnuids_distinct.
