(** C06 obligation: reading [spec_wrapper] field by field: each wrapper carries its request's account id, account type,
    bank / broker id, dates and include flags and the transaction id it was given (investment: INCTRAN, with the dates,
    is present exactly when transactions are asked for). *)
From OfxV Require Import Base.Prelude Base.Digits Base.ComposeBase Gen.ComposeGen Model.Compose Proofs.ComposeProofs Proofs.ComposeFacts.
Local Open Scope N_scope.
Theorem wrapper_carries_request :
  (forall c a t s e i u, let w := Some (spec_wrapper c (StmtRq a t s e i) u) in
     tag_of (spec_wrapper c (StmtRq a t s e i) u) = T "STMTTRNRQ"
     /\ val (sub "TRNUID" w) = norm (Some u)
     /\ val (sub "BANKID" (sub "BANKACCTFROM" (sub "STMTRQ" w))) = norm (bankid c)
     /\ val (sub "ACCTID" (sub "BANKACCTFROM" (sub "STMTRQ" w))) = norm a
     /\ val (sub "ACCTTYPE" (sub "BANKACCTFROM" (sub "STMTRQ" w))) = keep t
     /\ val (sub "DTSTART" (sub "INCTRAN" (sub "STMTRQ" w))) = dtext s
     /\ val (sub "DTEND" (sub "INCTRAN" (sub "STMTRQ" w))) = dtext e
     /\ val (sub "INCLUDE" (sub "INCTRAN" (sub "STMTRQ" w))) = flag i)
  /\ (forall a s e i u c, let w := Some (spec_wrapper c (CcStmtRq a s e i) u) in
     tag_of (spec_wrapper c (CcStmtRq a s e i) u) = T "CCSTMTTRNRQ"
     /\ val (sub "TRNUID" w) = norm (Some u)
     /\ val (sub "ACCTID" (sub "CCACCTFROM" (sub "CCSTMTRQ" w))) = norm a
     /\ val (sub "DTSTART" (sub "INCTRAN" (sub "CCSTMTRQ" w))) = dtext s
     /\ val (sub "DTEND" (sub "INCTRAN" (sub "CCSTMTRQ" w))) = dtext e
     /\ val (sub "INCLUDE" (sub "INCTRAN" (sub "CCSTMTRQ" w))) = flag i)
  /\ (forall c a s e d i oo p b u, let w := Some (spec_wrapper c (InvStmtRq a s e d i oo p b) u) in
     tag_of (spec_wrapper c (InvStmtRq a s e d i oo p b) u) = T "INVSTMTTRNRQ"
     /\ val (sub "TRNUID" w) = norm (Some u)
     /\ val (sub "BROKERID" (sub "INVACCTFROM" (sub "INVSTMTRQ" w))) = norm (brokerid c)
     /\ val (sub "ACCTID" (sub "INVACCTFROM" (sub "INVSTMTRQ" w))) = norm a
     /\ sub "INCTRAN" (sub "INVSTMTRQ" w) = (match i with Some true => Some (inctran_node s e i) | _ => None end)
     /\ val (sub "INCOO" (sub "INVSTMTRQ" w)) = flag oo
     /\ val (sub "DTASOF" (sub "INCPOS" (sub "INVSTMTRQ" w))) = dtext d
     /\ val (sub "INCLUDE" (sub "INCPOS" (sub "INVSTMTRQ" w))) = flag p
     /\ val (sub "INCBAL" (sub "INVSTMTRQ" w)) = flag b)
  /\ (forall c a t s e u, let w := Some (spec_wrapper c (StmtEndRq a t s e) u) in
     tag_of (spec_wrapper c (StmtEndRq a t s e) u) = T "STMTENDTRNRQ"
     /\ val (sub "TRNUID" w) = norm (Some u)
     /\ val (sub "BANKID" (sub "BANKACCTFROM" (sub "STMTENDRQ" w))) = norm (bankid c)
     /\ val (sub "ACCTID" (sub "BANKACCTFROM" (sub "STMTENDRQ" w))) = norm a
     /\ val (sub "ACCTTYPE" (sub "BANKACCTFROM" (sub "STMTENDRQ" w))) = keep t
     /\ val (sub "DTSTART" (sub "STMTENDRQ" w)) = dtext s
     /\ val (sub "DTEND" (sub "STMTENDRQ" w)) = dtext e)
  /\ (forall c a s e u, let w := Some (spec_wrapper c (CcStmtEndRq a s e) u) in
     tag_of (spec_wrapper c (CcStmtEndRq a s e) u) = T "CCSTMTENDTRNRQ"
     /\ val (sub "TRNUID" w) = norm (Some u)
     /\ val (sub "ACCTID" (sub "CCACCTFROM" (sub "CCSTMTENDRQ" w))) = norm a
     /\ val (sub "DTSTART" (sub "CCSTMTENDRQ" w)) = dtext s
     /\ val (sub "DTEND" (sub "CCSTMTENDRQ" w)) = dtext e).
Proof. exact wrappers_carry. Qed.
Print Assumptions wrapper_carries_request.
