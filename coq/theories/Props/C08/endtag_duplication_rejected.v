(** C08 obligation: an end tag written twice *)
From OfxV Require Import Base.Prelude Base.SgmlBase Model.Sgml Model.SgmlSpec Proofs.SgmlNest Proofs.SgmlScan Proofs.SgmlFaithful Proofs.SgmlReject.
Local Open Scope N_scope.
Theorem endtag_duplication_rejected : forall ws0 r d, wf_doc d = true -> ok_rendering ws0 r d ->
  forall p u ws q, flatten r = (p ++ TClose u ws :: q)%list ->
  forall t', parse repaired (ws0 ++ render_toks (p ++ TClose u ws :: TClose u ws :: q)) <> OK (Some t').
Proof. exact endtag_duplication_rejected_l. Qed.
Print Assumptions endtag_duplication_rejected.
