(** C08 obligation: whatever text the parser accepts is properly nested *)
From OfxV Require Import Base.Prelude Base.SgmlBase Model.Sgml Model.SgmlSpec Proofs.SgmlNest Proofs.SgmlScan Proofs.SgmlFaithful Proofs.SgmlReject Proofs.SgmlCfg.
Local Open Scope N_scope.
(** For EVERY text [s] (no hypothesis): if feed+close return a tree, then every regex match passed the checks of feed(),
    and the sequence of start / data-element / empty-aggregate / end events they denote is properly nested, properly closed
    and single-rooted ([nested]: end tags name the open aggregate; only data elements omit end tags), with exactly the
    returned tree.  (Text that matches no alternative of the regex is skipped by finditer and is not part of [toks].)
    [g]: any source configuration with the repaired builder ([checked]); the regex variant is immaterial here. *)
Theorem parse_ok_implies_nested : forall (g : cfg) (s : text) (t : etree), checked g = true ->
  parse g s = OK (Some t) -> exists es, toks g s = OK es /\ nested es t.
Proof. intros g s t Hg. exact (parse_ok_implies_nested_g g s t Hg). Qed.
Print Assumptions parse_ok_implies_nested.
