(** C08 obligation: a stray end tag between any two tokens (or before the first, or after the last) *)
From OfxV Require Import Base.Prelude Base.SgmlBase Model.Sgml Model.SgmlSpec Proofs.SgmlNest Proofs.SgmlScan Proofs.SgmlFaithful Proofs.SgmlReject.
Local Open Scope N_scope.
Theorem stray_endtag_rejected : forall ws0 r d, wf_doc d = true -> ok_rendering ws0 r d ->
  forall p q v ws, flatten r = (p ++ q)%list -> wf_tag v = true -> blank ws = true ->
  chain_ok (p ++ TClose v ws :: q) = true ->
  forall t', parse repaired (ws0 ++ render_toks (p ++ TClose v ws :: q)) <> OK (Some t').
Proof. exact stray_endtag_rejected_l. Qed.
Print Assumptions stray_endtag_rejected.
