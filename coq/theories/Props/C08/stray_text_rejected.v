(** C08 obligation: text after an end tag *)
From OfxV Require Import Base.Prelude Base.SgmlBase Model.Sgml Model.SgmlSpec Proofs.SgmlNest Proofs.SgmlScan Proofs.SgmlFaithful Proofs.SgmlReject.
Local Open Scope N_scope.
(** ANY token chain (valid document or not) in which some end tag - of an aggregate, of an empty aggregate or of a data
    element - is followed by '<'-free text that is not blank is refused with an error. *)
Theorem stray_text_rejected : forall ws0 ts, blank ws0 = true -> forallb tok_shape ts = true -> chain_ok ts = true ->
  existsb stray_text ts = true -> forall o, parse repaired (ws0 ++ render_toks ts) <> OK o.
Proof. exact stray_text_rejected_l. Qed.
Print Assumptions stray_text_rejected.
