(** C08 obligation: a second top-level element (any further tokens after the document) *)
From OfxV Require Import Base.Prelude Base.SgmlBase Model.Sgml Model.SgmlSpec Proofs.SgmlNest Proofs.SgmlScan Proofs.SgmlFaithful Proofs.SgmlReject.
Local Open Scope N_scope.
Theorem second_root_rejected : forall ws0 r d, wf_doc d = true -> ok_rendering ws0 r d ->
  forall k ts', forallb tok_wf (k :: ts') = true -> chain_ok (flatten r ++ k :: ts') = true ->
  forall t', parse repaired (ws0 ++ render_toks (flatten r ++ k :: ts')) <> OK (Some t').
Proof. exact second_root_rejected_l. Qed.
Print Assumptions second_root_rejected.
