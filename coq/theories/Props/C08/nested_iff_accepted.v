(** C08 obligation: the repaired builder accepts exactly the properly nested event sequences *)
From OfxV Require Import Base.Prelude Base.SgmlBase Model.Sgml Model.SgmlSpec Proofs.SgmlNest Proofs.SgmlScan Proofs.SgmlFaithful Proofs.SgmlReject.
Local Open Scope N_scope.
Theorem nested_iff_accepted : forall es t, accept es = OK (Some t) <-> nested es t.
Proof. exact accept_iff_forest. Qed.
Print Assumptions nested_iff_accepted.
