(** C08 obligation: two end tags of different elements exchanged (adjacent or not) *)
From OfxV Require Import Base.Prelude Base.SgmlBase Model.Sgml Model.SgmlSpec Proofs.SgmlNest Proofs.SgmlScan Proofs.SgmlFaithful Proofs.SgmlReject.
Local Open Scope N_scope.
Theorem endtag_transposition_rejected : forall ws0 r d, wf_doc d = true -> ok_rendering ws0 r d ->
  forall p u w m v w' q, flatten r = (p ++ TClose u w :: m ++ TClose v w' :: q)%list -> u <> v ->
  chain_ok (p ++ TClose v w' :: m ++ TClose u w :: q) = true ->
  forall t', parse repaired (ws0 ++ render_toks (p ++ TClose v w' :: m ++ TClose u w :: q)) <> OK (Some t').
Proof. exact endtag_transposition_rejected_l. Qed.
Print Assumptions endtag_transposition_rejected.
