(** C08 obligation: an empty aggregate that loses its end tag *)
From OfxV Require Import Base.Prelude Base.SgmlBase Model.Sgml Model.SgmlSpec Proofs.SgmlNest Proofs.SgmlScan Proofs.SgmlFaithful Proofs.SgmlReject.
Local Open Scope N_scope.
Theorem empty_aggregate_endtag_deletion_rejected : forall ws0 r d, wf_doc d = true -> ok_rendering ws0 r d ->
  forall p u w1 w2 q, flatten r = (p ++ TEmpty u w1 w2 :: q)%list -> chain_ok (p ++ TOpen u (w1 ++ w2) :: q) = true ->
  forall t', parse repaired (ws0 ++ render_toks (p ++ TOpen u (w1 ++ w2) :: q)) <> OK (Some t').
Proof. exact endtag_deletion_empty_rejected_l. Qed.
Print Assumptions empty_aggregate_endtag_deletion_rejected.
