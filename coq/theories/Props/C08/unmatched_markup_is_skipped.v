(** C08: what the theorem does NOT say - markup that matches no alternative of the regex is skipped by finditer *)
From OfxV Require Import Base.Prelude Base.SgmlBase Model.Sgml Model.SgmlSpec Proofs.SgmlNest Proofs.SgmlScan Proofs.SgmlFaithful Proofs.SgmlReject.
Local Open Scope N_scope.
(** [nested (toks s) t] speaks about the matches.  A CDATA section that does not directly follow a start tag, a lower-case
    tag, text in front of the first tag: none is a match, none reaches the builder (recorded observation, notes/status/C08.md). *)
Theorem unmatched_markup_is_skipped :
  parse repaired (T "<A><B></B><![CDATA[x]]></A>") = OK (Some (Node (T "A") None [Node (T "B") None []]))
  /\ parse repaired (T "junk<A>x</A>") = OK (Some (Node (T "A") (Some (T "x")) []))
  /\ parse repaired (T "<A><b>1</b></A>") = OK (Some (Node (T "A") None [])).
Proof. vm_compute. repeat split; reflexivity. Qed.
Print Assumptions unmatched_markup_is_skipped.
