(** C08 obligation: a document cut off at any token boundary before its end is never returned as a tree *)
From OfxV Require Import Base.Prelude Base.SgmlBase Model.Sgml Model.SgmlSpec Proofs.SgmlNest Proofs.SgmlScan Proofs.SgmlFaithful Proofs.SgmlReject.
Local Open Scope N_scope.
Theorem truncation_rejected : forall ws0 r d, wf_doc d = true -> ok_rendering ws0 r d ->
  forall p k q, flatten r = (p ++ k :: q)%list -> forall t', parse repaired (ws0 ++ render_toks p) <> OK (Some t').
Proof. exact truncation_rejected_l. Qed.
Print Assumptions truncation_rejected.
