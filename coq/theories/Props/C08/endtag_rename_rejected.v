(** C08 obligation: an aggregate end tag that is misspelled or belongs to a different element *)
From OfxV Require Import Base.Prelude Base.SgmlBase Model.Sgml Model.SgmlSpec Proofs.SgmlNest Proofs.SgmlScan Proofs.SgmlFaithful Proofs.SgmlReject.
Local Open Scope N_scope.
Theorem endtag_rename_rejected : forall ws0 r d, wf_doc d = true -> ok_rendering ws0 r d ->
  forall p u ws q v, flatten r = (p ++ TClose u ws :: q)%list -> u <> v -> wf_tag v = true ->
  chain_ok (p ++ TClose v ws :: q) = true ->
  forall t', parse repaired (ws0 ++ render_toks (p ++ TClose v ws :: q)) <> OK (Some t').
Proof. exact endtag_rename_rejected_l. Qed.
Print Assumptions endtag_rename_rejected.
