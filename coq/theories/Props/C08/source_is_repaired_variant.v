(** C08 obligation: /repo's Parser.py, as translated on this run, IS the variant the theorems are about *)
From OfxV Require Import Base.Prelude Base.SgmlBase Model.Sgml Gen.SgmlGen.
Local Open Scope N_scope.
(** [source_is_pinned]: the normalised-AST hashes of TreeBuilder.__init__/start/end/close/feed/_feedmatch/_start/_groomstring, OFXTree.parse,
    utils.indent and utils.tostring_unclosed_elements are the ones Model/Sgml.v and Model/Serialize.v were transcribed from (tools/ofxv/translate_sgml.py). *)
(** [repo_cfg] is regenerated from the regex and from the start/end/close overrides of ofxtools.Parser.TreeBuilder; on the
    unrepaired tree it is [legacy] and this obligation fails; a pattern text that is neither of the two known ones is
    assumed to be a rewrite of the repaired one and the correspondence runs switch to their deep setting (see parse_ok_implies_nested_refuted_legacy). *)
Theorem source_is_repaired_variant : repo_cfg = repaired /\ source_is_pinned = true /\ py_isspace = space_points.
Proof. repeat split; reflexivity. Qed.
Print Assumptions source_is_repaired_variant.
