(** C08: on the UNREPAIRED builder (end() pops unchecked, close() ignores open elements) the theorem is false *)
From OfxV Require Import Base.Prelude Base.SgmlBase Model.Sgml Model.SgmlSpec Proofs.SgmlNest Proofs.SgmlScan Proofs.SgmlFaithful Proofs.SgmlReject.
Local Open Scope N_scope.
Definition refutes (s : text) : Prop :=
  exists t es, parse legacy s = OK (Some t) /\ toks legacy s = OK es /\ ~ nested es t.
Ltac refute := eexists _, _; split; [vm_compute; reflexivity|split; [vm_compute; reflexivity|]];
  let H := fresh "H" in intro H; apply run_forest in H; vm_compute in H; discriminate H.
Theorem parse_ok_implies_nested_refuted_legacy :
  refutes (T "<OFX><A><B>1<C>2</A>")       (* truncated *)
  /\ refutes (T "<OFX><A>1")               (* truncated *)
  /\ refutes (T "<OFX><A><B>1</OFX>")      (* </A> missing *)
  /\ refutes (T "<OFX><A><B>1</B></C></OFX>")  (* </A> misspelled *)
  /\ refutes (T "<OFX><A><B></A></B></OFX>").  (* end tags exchanged *)
Proof. repeat split; refute. Qed.
Print Assumptions parse_ok_implies_nested_refuted_legacy.
