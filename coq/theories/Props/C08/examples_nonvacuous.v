(** C08: the hypotheses of the obligations are inhabited; each fault class on a concrete document *)
From OfxV Require Import Base.Prelude Base.SgmlBase Model.Sgml Model.SgmlSpec Proofs.SgmlNest Proofs.SgmlScan Proofs.SgmlFaithful Proofs.SgmlReject.
Local Open Scope N_scope.
Definition ex_rend : rdoc :=
  RAgg (T "OFX") [10] [RAgg (T "A") [] [RLeaf (T "B") false [] (T "1") [] false [10]; RAgg (T "E") [32] [] []] [10];
                       RLeaf (T "C") true [] (T "2") [] true []] [10].
Definition bad (s : string) : Prop := forall t, parse repaired (T s) <> OK (Some t).
Theorem examples_nonvacuous :
  wf_doc (erase ex_rend) = true /\ rend_ok ex_rend = true
  /\ parse repaired (render [] ex_rend) = OK (Some (tree_of (erase ex_rend)))
  /\ (exists p k q, flatten ex_rend = (p ++ k :: q)%list /\ p <> [])
  /\ (exists p u ws q, flatten ex_rend = (p ++ TClose u ws :: q)%list /\ chain_ok (p ++ q) = true
        /\ chain_ok (p ++ TClose (T "ZZ") ws :: q) = true)
  /\ parse repaired (T "<OFX><A><B>1<C>2</A>") = Err Reject
  /\ parse repaired (T "<OFX><A><B>1</OFX>") = Err Reject
  /\ parse repaired (T "<OFX><A><B></A></B></OFX>") = Err Reject
  /\ parse repaired (T "<OFX></OFX>junk") = Err Reject
  /\ parse repaired (T "<OFX></OFX><OFX></OFX>") = Err Reject
  /\ parse repaired (T "") = OK None.
Proof.
  repeat split; try (vm_compute; reflexivity).
  - exists [TOpen (T "OFX") [10]], (TOpen (T "A") []). eexists. split; [vm_compute; reflexivity|discriminate].
  - exists [TOpen (T "OFX") [10]; TOpen (T "A") []; TLeaf (T "B") false [] (T "1") [] false [10]; TEmpty (T "E") [32] []], (T "A"), [10].
    eexists. split; [vm_compute; reflexivity|]. split; vm_compute; reflexivity.
Qed.
Print Assumptions examples_nonvacuous.
