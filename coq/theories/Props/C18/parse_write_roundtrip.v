(** C18 obligation (the file format as far as the property depends on it): what RawConfigParser.write emits for a clean configuration -
    [section] headers, "key = value" lines, a blank line after each section - the reader (_read with its comment / blank / continuation /
    header / option cases and strict duplicate detection) reads back as exactly that configuration. *)
From OfxV Require Import Base.Prelude Base.Digits Base.OfxgetBase Gen.OfxgetGen Model.OfxgetCfg.
From OfxV Require Import Proofs.OfxgetCfgMerge Proofs.OfxgetCfgParse Proofs.OfxgetCfgRoundtrip Proofs.OfxgetCfgValues Proofs.OfxgetCfgWrite
                         Proofs.OfxgetCfgPersist Proofs.OfxgetCfgUid Proofs.OfxgetCfgRefuted.
Local Open Scope N_scope.
Theorem parse_write_roundtrip_thm : forall c, clean_cfg c -> parse_text (cfg_write c) = OK c.
Proof. exact parse_write_roundtrip. Qed.
Print Assumptions parse_write_roundtrip_thm.
