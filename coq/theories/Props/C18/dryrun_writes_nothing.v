(** C18 obligation: dryrun_writes_nothing.  Whenever the merged "dryrun" is true, the run leaves ofxget.cfg alone ([OK None]),
    whatever else is set (--write included). *)
From OfxV Require Import Base.Prelude Base.Digits Base.OfxgetBase Gen.OfxgetGen Model.OfxgetCfg.
From OfxV Require Import Proofs.OfxgetCfgMerge Proofs.OfxgetCfgParse Proofs.OfxgetCfgKeys Proofs.OfxgetCfgThms.
Local Open Scope N_scope.
Theorem dryrun_writes_nothing : forall lookup uuid fi user cli a w,
  run_ofxget lookup uuid fi user cli = OK (a, w) -> py_truthy (get_or a (T "dryrun") PNone) = true -> w = OK None.
Proof. exact dryrun_run_l. Qed.
Print Assumptions dryrun_writes_nothing.
