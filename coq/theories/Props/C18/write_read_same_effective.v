(** C18 obligation: write_read_same_effective.  Run 1 (any command line [cli1], user file, FI database, OFX Home oracle, uuid) saves
    the settings ([OK (Some t')]); run 2 reads the new file with a command line that names the same nickname and none of the CONFIGURABLE
    options.  Then for EVERY CONFIGURABLE option (URL, version, format flags, identifiers, user, account lists) the value in effect in
    run 2 is the one in effect in run 1 - or, for clientuid only, the [DEFAULT] CLIENTUID of the file when run 1 had none.
    Explicit hypotheses (the stated domain and the recorded findings):
      - values in effect are clean for their type (clean_val: strings of one line without surrounding blanks - any other character,
        '%' included; integers of at most 4300 digits; booleans; non-empty lists of ids without , ' \ and surrounding blanks),
        the nickname is a clean section name other than DEFAULT, the user's existing file is clean (what the writer emits), the
        FI database has no [DEFAULT] entries (true of the bundled fi.cfg: og_fi_default_keys = []);
      - a URL is in effect in run 1;
      - reset_free: every option given on the command line of run 1 is either stored, or equals what is in effect without it
        (finding write_config:reset-not-persisted; witness reset_refuted);
      - the nickname's section exists already, or the user's [DEFAULT] holds no CONFIGURABLE option besides clientuid
        (finding read_config:default-section-ignored-without-server-section; witness default_section_refuted).
    Account ids outside the domain: witness list_quoting_refuted (finding write_list:unquoted-ids). *)
From OfxV Require Import Base.Prelude Base.Digits Base.OfxgetBase Gen.OfxgetGen Model.OfxgetCfg.
From OfxV Require Import Proofs.OfxgetCfgMerge Proofs.OfxgetCfgParse Proofs.OfxgetCfgRoundtrip Proofs.OfxgetCfgValues Proofs.OfxgetCfgWrite
                         Proofs.OfxgetCfgPersist Proofs.OfxgetCfgUid Proofs.OfxgetCfgRefuted.
Local Open Scope N_scope.
Theorem write_read_same_effective :
  forall (lookup : text -> option ohrec) (uuid fi : text) (user : option text) (cli1 cli2 : amap) (a1 a2 : args)
         (t' : text) (c2 : cfg) (s : text) (cf cu : cfg) (lib_cfg : amap),
    run_ofxget lookup uuid fi user cli1 = OK (a1, OK (Some t')) ->
    read_files empty_cfg [Some fi; Some t'] = OK c2 ->
    merge_config lookup cli2 c2 = OK a2 ->
    assoc (T "server") cli1 = Some (PStr s) ->
    assoc (T "server") cli2 = Some (PStr s) ->
    (forall o ty, In (o, ty) og_configurable -> assoc o cli2 = None) ->
    parse_text fi = OK cf -> c_defaults cf = [] ->
    parse_opt user = OK cu ->
    read_config (cfg_merge empty_cfg cf) s = OK lib_cfg ->
    clean_cfg cu -> clean_name s = true -> clean_value uuid = true ->
    (forall o ty v, In (o, ty) og_configurable -> args_get a1 o = Some v -> null_val v = false -> clean_val ty v = true) ->
    py_truthy (get_or a1 (T "url") PNone) = true ->
    (forall o ty v, In (o, ty) og_configurable -> assoc o cli1 = Some v ->
                    stored uuid a1 cu lib_cfg o ty = true \/ lower1 lookup cli1 s cf cu o = Some v) ->
    (has_key s (c_sections cu) || has_key s (c_sections cf) = true
     \/ forall o ty, In (o, ty) og_configurable -> o <> T "clientuid" -> assoc o (c_defaults cu) = None) ->
    forall o ty, In (o, ty) og_configurable ->
      args_get a2 o = args_get a1 o
      \/ (o = T "clientuid" /\ py_truthy (get_or a1 o PNone) = false /\ args_get a2 o = Some (PStr (duid uuid cu))).
Proof. exact persist_main. Qed.
Print Assumptions write_read_same_effective.
