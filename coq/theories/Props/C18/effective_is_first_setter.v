(** C18 obligation: effective_is_first_setter.  For every content of the five places (command line [cli], the user's file, the FI
    database file, the OFX Home oracle [lookup], DEFAULTS) - hence for every subset of them setting an option - and for every option
    independently: the value merge_config puts in effect is that of the first of
      command line, user file section, FI database section (then the files' [DEFAULT] entries: raw_sources), OFX Home (its keys, when an
      id is in effect and the lookup answers: oh_layer), built-in default
    that sets it; file values are read with the option's CONFIGURABLE type.  The one exception is spelled out: a URL given where the
    nickname goes, when nothing else supplies a URL, becomes the url and the nickname becomes None. *)
From OfxV Require Import Base.Prelude Base.Digits Base.OfxgetBase Gen.OfxgetGen Model.OfxgetCfg.
From OfxV Require Import Proofs.OfxgetCfgMerge Proofs.OfxgetCfgParse Proofs.OfxgetCfgKeys Proofs.OfxgetCfgThms.
Local Open Scope N_scope.
Theorem effective_is_first_setter : forall lookup cli fi user c a,
  read_files empty_cfg [Some fi; user] = OK c -> merge_config lookup cli c = OK a ->
  exists cf cu ucfg,
    parse_text fi = OK cf /\ parse_opt user = OK cu /\ user_layer cli c = OK ucfg /\
    (forall s, assoc (T "server") cli = Some (PStr s) -> forall o,
        match assoc o og_configurable, raw_sources cf cu s o with
        | Some ty, Some raw => exists v, typed ty raw = OK v /\ assoc o ucfg = Some v
        | _, _ => assoc o ucfg = None
        end) /\
    (assoc (T "server") cli = None -> ucfg = []) /\
    let ohl := oh_layer lookup [cli; ucfg; og_defaults] in
    let chain o := first_of [assoc o cli; assoc o ucfg; first_of (map (assoc o) ohl); assoc o og_defaults] in
    ((forall o, args_get a o = chain o)
     \/ (exists s, assoc (T "server") cli = Some (PStr s) /\ has_scheme s = true /\
                   py_truthy (match chain (T "url") with Some v => v | None => PNone end) = false /\
                   forall o, args_get a o =
                             if text_eqb o (T "server") then Some PNone
                             else if text_eqb o (T "url") then Some (PStr s) else chain o)).
Proof. exact effective_is_first_setter_full. Qed.
Print Assumptions effective_is_first_setter.
