(** C18 obligation: password_never_written.  "password" is not in the regenerated CONFIGURABLE table (finite check), and the keys of the
    configuration mk_server_cfg builds (= the left-hand sides RawConfigParser.write emits) are among: keys already in the user's file,
    keys of the parser's [DEFAULT] section, "clientuid", CONFIGURABLE option names - so "password" is never among them unless the
    user's own file already had such a key. *)
From OfxV Require Import Base.Prelude Base.Digits Base.OfxgetBase Gen.OfxgetGen Model.OfxgetCfg.
From OfxV Require Import Proofs.OfxgetCfgMerge Proofs.OfxgetCfgParse Proofs.OfxgetCfgKeys Proofs.OfxgetCfgThms.
Local Open Scope N_scope.
Theorem password_never_written :
  has_key (T "password") og_configurable = false /\
  forall uuid a memd user lib c cu,
    mk_server_cfg uuid a memd user lib = OK c -> parse_opt user = OK cu ->
    ~ In (T "password") (map fst memd) -> ~ In (T "password") (cfg_keys cu) ->
    ~ In (T "password") (cfg_keys c).
Proof. exact password_never_written_l. Qed.
Print Assumptions password_never_written.
