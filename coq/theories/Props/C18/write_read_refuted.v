(** C18: the three exclusions of write_read_same_effective are real: computed on the faithful model (value in effect in run 1, in run 2) *)
From OfxV Require Import Base.Prelude Base.Digits Base.OfxgetBase Gen.OfxgetGen Model.OfxgetCfg.
From OfxV Require Import Proofs.OfxgetCfgMerge Proofs.OfxgetCfgParse Proofs.OfxgetCfgRoundtrip Proofs.OfxgetCfgValues Proofs.OfxgetCfgWrite
                         Proofs.OfxgetCfgPersist Proofs.OfxgetCfgUid Proofs.OfxgetCfgRefuted.
Local Open Scope N_scope.
Theorem write_read_refuted :
  (* an option reset to its default is not stored *)
  two_runs no_ofxhome (T "U1") fi_plain (Some (T "[srv]" ++ nl ++ T "version = 102" ++ nl ++ nl))
           (cli_base ++ [(T "version", PInt 203); (T "write", PBool true)]) cli_base (T "version")
  = Some (Some (PInt 203), Some (PInt 102))
  (* an account id containing a comma comes back as two *)
  /\ two_runs no_ofxhome (T "U1") fi_plain None
           (cli_base ++ [(T "savings", PList [T "3, 4"]); (T "write", PBool true)]) cli_base (T "savings")
     = Some (Some (PList [T "3, 4"]), Some (PList [T "3"; T "4"]))
  (* a [DEFAULT] option only counts once the nickname's section exists *)
  /\ two_runs no_ofxhome (T "U1") (T "[NAMES]" ++ nl ++ T "1 = x" ++ nl ++ nl)
           (Some (T "[DEFAULT]" ++ nl ++ T "user = bob" ++ nl ++ nl))
           (cli_base ++ [(T "url", PStr (T "https://h/")); (T "write", PBool true)]) cli_base (T "user")
     = Some (Some (PStr []), Some (PStr (T "bob"))).
Proof. exact (conj reset_refuted (conj list_quoting_refuted default_section_refuted)). Qed.
Print Assumptions write_read_refuted.
