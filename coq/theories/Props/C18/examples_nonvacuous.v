(** C18: an in-domain run computed on the model: '%' in the URL, an account list of three ids, version, flag, user, password on the
    command line; the file written (no password in it); every CONFIGURABLE option has the same value on the next run (clientuid: the generated one);
    and the table facts the theorems rely on hold for the regenerated tables. *)
From OfxV Require Import Base.Prelude Base.Digits Base.OfxgetBase Gen.OfxgetGen Model.OfxgetCfg.
From OfxV Require Import Proofs.OfxgetCfgMerge Proofs.OfxgetCfgParse Proofs.OfxgetCfgRoundtrip Proofs.OfxgetCfgValues Proofs.OfxgetCfgWrite
                         Proofs.OfxgetCfgPersist Proofs.OfxgetCfgUid Proofs.OfxgetCfgRefuted.
Local Open Scope N_scope.
Theorem examples_nonvacuous :
  forallb (fun p => ex_same (fst p)) og_configurable = true
  /\ ex_file = Some (T "[DEFAULT]" ++ nl ++ T "clientuid = GEN-UUID" ++ nl ++ nl ++ T "[srv]" ++ nl
                     ++ T "url = https://ofx.example.com/%7Euser/ofx?y=%20" ++ nl ++ T "version = 102" ++ nl ++ T "pretty = true" ++ nl
                     ++ T "user = porky pig" ++ nl ++ T "checking = 12-34, 56.78, a b" ++ nl ++ nl)
  /\ table_facts = true /\ defaults_facts = true /\ space_facts = true /\ clientuid_key_facts = true
  /\ og_fi_default_keys = []
  /\ clean_val TStr (PStr (T "https://ofx.example.com/%7Euser/ofx?y=%20")) = true
  /\ clean_val TList (PList [T "12-34"; T "56.78"; T "a b"]) = true
  /\ clean_name (T "srv") = true /\ clean_cfg empty_cfg.
Proof.
  repeat split; try (vm_compute; reflexivity); try constructor.
Qed.
Print Assumptions examples_nonvacuous.
