(** C11 obligation: for every element (any type, parameters, required flag, ListElement nesting) and EVERY Python value, whatever unconvert returns
    conforms to the independent lexical rule of the declared type ([lexical_ok], Model/ScalarsLex.v): Y|N; [+-]?digits; plain decimal notation
    with at most one separator (no exponent, NaN or Infinity); a declared token; length within the declared limit.  Hence a value that cannot
    be written validly is refused rather than written.  Exposed for reuse by the schema engine's to_etree_leaves_lexical. *)
From OfxV Require Import Base.Prelude Base.Digits Gen.ScalarsGen Model.PyDecimal Model.Scalars Model.ScalarsLex Proofs.ScalarsText Proofs.PyDecimalProofs Proofs.ScalarsProofs Proofs.ScalarsLexProofs Proofs.ScalarsThms.
Local Open Scope N_scope.

Theorem unconvert_lexical : forall e v s w, unconvert e v = OK (Some s, w) -> lexical_ok (elem_sty e) s = true.
Proof. exact unconvert_lexical_l. Qed.
Print Assumptions unconvert_lexical.
