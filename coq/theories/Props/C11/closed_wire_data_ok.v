(** C11 obligation: element data as ET.tostring(tree, method="html") writes it (_serialize_html -> _escape_cdata) contains no raw '<' and no '&' that
    does not start &amp; &lt; &gt; -- for EVERY text; and it is exactly the character-wise escaping. *)
From OfxV Require Import Base.Prelude Base.Digits Gen.ScalarsGen Model.PyDecimal Model.Scalars Model.ScalarsLex Proofs.ScalarsText Proofs.PyDecimalProofs Proofs.ScalarsProofs Proofs.ScalarsLexProofs Proofs.ScalarsThms.
Local Open Scope N_scope.

Theorem closed_wire_data_ok : forall s, wire_data_ok (wire_datum WClosed s) = true /\ wire_datum WClosed s = flat_map esc1 s.
Proof. exact closed_wire_data_ok_l. Qed.
Print Assumptions closed_wire_data_ok.
