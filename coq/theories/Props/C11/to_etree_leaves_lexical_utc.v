(** C11 obligation, instance level with the date-time leaves included: for EVERY class table and element-type table, with the C09
    engine's writer for UTC values (what every converted instance holds) in the typed model, every piece of element data in the
    tree that to_etree returns either conforms to the lexical rule of an element type of the table, or is the date-time notation
    YYYYMMDDHHMMSS.XXX[+0:UTC] with every field in range (for every instant whose year has four digits: [dt_range]; below
    year 1000 the C library's %Y is not padded - C09's stated limit), or the time notation HHMMSS.XXX[+0:UTC]. *)
From OfxV Require Import Base.Prelude Model.Schema Model.Convert Model.Scalars Model.ScalarsLex Model.Typed Model.TypedDT
     Proofs.DateTimeMRead Proofs.TypedLexical Proofs.TypedDTRoundTrip Proofs.TypedDTLexical.
Theorem to_etree_leaves_lexical_utc :
  forall table S (i : inst pyval) e,
    to_etree pyval (unconv_typed table unconv_dt_utc) S i = OK e -> Forall (datum_ok_utc table) (texts e).
Proof. exact to_etree_leaves_lexical_utc_l. Qed.
Print Assumptions to_etree_leaves_lexical_utc.
