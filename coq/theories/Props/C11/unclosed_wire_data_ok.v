(** C11 obligation: element data as the REPAIRED tostring_unclosed_elements writes it (saxutils.escape, fixes/C11-3) contains no raw '<' and no '&' that
    does not start an entity -- for EVERY text -- and is the very datum the closed form writes. *)
From OfxV Require Import Base.Prelude Base.Digits Gen.ScalarsGen Model.PyDecimal Model.Scalars Model.ScalarsLex Proofs.ScalarsText Proofs.PyDecimalProofs Proofs.ScalarsProofs Proofs.ScalarsLexProofs Proofs.ScalarsThms.
Local Open Scope N_scope.

Theorem unclosed_wire_data_ok : forall s, wire_data_ok (wire_datum WUnclosed s) = true /\ wire_datum WUnclosed s = wire_datum WClosed s.
Proof. exact unclosed_wire_data_ok_l. Qed.
Print Assumptions unclosed_wire_data_ok.
