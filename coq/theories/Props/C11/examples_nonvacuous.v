(** C11: the obligations are not vacuous -- texts are written, they pass the lexical rule, invalid texts fail it, escaping happens *)
From OfxV Require Import Base.Prelude Base.Digits Gen.ScalarsGen Model.PyDecimal Model.Scalars Model.ScalarsLex Proofs.ScalarsText Proofs.PyDecimalProofs Proofs.ScalarsProofs Proofs.ScalarsLexProofs.
Local Open Scope N_scope.

Theorem examples_nonvacuous :
  unconvert (Elem (TDecimal None) false) (PDec (Fin false 1 2)) = OK (Some (T "100"), false)
  /\ unconvert (Elem (TDecimal None) false) (PDec (Fin true 15 (-9))) = OK (Some (T "-0.000000015"), false)
  /\ unconvert (Elem (TDecimal None) false) (PDec (Fin true 0 3)) = OK (Some (T "-0"), false)
  /\ unconvert (Elem (TDecimal (Some 2)) false) (PDec (Fin false 15065 (-2))) = OK (Some (T "150.65"), false)
  /\ unconvert (Elem (TDecimal None) false) (PDec (NaN false false 0)) = Err Reject
  /\ unconvert (Elem (TDecimal None) false) (PDec (Inf true)) = Err Reject
  /\ unconvert (Elem (TInteger None) false) (PBool true) = OK (Some (T "1"), false)
  /\ unconvert (Elem (TInteger (Some 3)) false) (PInt (-999)) = OK (Some (T "-999"), false)
  /\ lexical_ok (TDecimal None) (T "100") = true /\ lexical_ok (TDecimal None) (T "-0.000000015") = true /\ lexical_ok (TDecimal None) (T ",5") = true
  /\ lexical_ok (TDecimal None) (T "1E+2") = false /\ lexical_ok (TDecimal None) (T "NaN") = false /\ lexical_ok (TDecimal None) (T "1.2.3") = false
  /\ lexical_ok (TDecimal None) (T "1.") = false /\ lexical_ok (TDecimal None) [] = false /\ lexical_ok (TDecimal None) (T "-") = false
  /\ lexical_ok (TInteger None) (T "True") = false /\ lexical_ok (TInteger None) (T "-12") = true /\ lexical_ok TBool (T "Y") = true /\ lexical_ok TBool (T "y") = false
  /\ lexical_ok (TString (Some 3) true) (T "abcd") = false /\ lexical_ok (TOneOf [T "CALL"; T "PUT"]) (T "PUT") = true
  /\ wire_datum WUnclosed (T "p&a<ss") = T "p&amp;a&lt;ss" /\ wire_datum WClosed (T "1 < 2 && 3 > 2") = T "1 &lt; 2 &amp;&amp; 3 &gt; 2"
  /\ wire_data_ok (T "p&a<ss") = false /\ wire_data_ok (T "a&b;") = false /\ wire_data_ok (T "p&amp;a&lt;ss") = true.
Proof. vm_compute. repeat split; reflexivity. Qed.
Print Assumptions examples_nonvacuous.
