(** C11 obligation, instance level.  For EVERY class table, every instance (any depth, any members) and the concrete converters
    of the Scalars engine read through the element-type table (regenerated from /repo into Gen/TypedGen.v, or any other table):
    every piece of element data in the tree that to_etree returns was written by the converter of an element type, hence -
    by unconvert_lexical - conforms to the OFX lexical rule of a type of the table (Y|N; optional sign and digits; plain decimal
    notation, never exponent notation, NaN or Infinity; a declared token; length within the declared limit); the only other
    data is what the date-time writer returns (C09: dt_unconvert_shape / tm_unconvert_shape). *)
From OfxV Require Import Base.Prelude Model.Schema Model.Convert Model.Scalars Model.ScalarsLex Model.Typed Proofs.TypedLexical.
Theorem to_etree_leaves_lexical :
  forall table unconv_dt S (i : inst pyval) e,
    to_etree pyval (unconv_typed table unconv_dt) S i = OK e -> Forall (datum_ok table unconv_dt) (texts e).
Proof. exact to_etree_leaves_lexical_l. Qed.
Print Assumptions to_etree_leaves_lexical.
