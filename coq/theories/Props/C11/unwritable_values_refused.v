(** C11 obligation: values that cannot be written as valid OFX are refused rather than written: non-finite decimals (any scale), decimals off the
    declared quantum, strings over a strict limit, tokens outside the set, integers of n+1 digits of either sign, values of a wrong Python type. *)
From OfxV Require Import Base.Prelude Base.Digits Gen.ScalarsGen Model.PyDecimal Model.Scalars Model.ScalarsLex Proofs.ScalarsText Proofs.PyDecimalProofs Proofs.ScalarsProofs Proofs.ScalarsLexProofs Proofs.ScalarsThms.
Local Open Scope N_scope.

Theorem unwritable_values_refused : forall e,
  (forall sc d, elem_sty e = TDecimal sc -> is_finite d = false -> unconvert e (PDec d) = Err Reject) /\
  (forall n neg c ex, elem_sty e = TDecimal (Some n) -> ex <> quantum_exp n -> unconvert e (PDec (Fin neg c ex)) = Err Reject) /\
  (forall n s, elem_sty e = TString (Some n) true -> n < tlen s -> unconvert e (PStr s) = Err Reject) /\
  (forall valid s, elem_sty e = TOneOf valid -> ~ In s valid -> unconvert e (PStr s) = Err Reject) /\
  (forall n z, elem_sty e = TInteger (Some n) -> (Z.of_N (10 ^ n) <= Z.abs z)%Z -> unconvert e (PInt z) = Err Reject) /\
  (forall v, right_type (elem_sty e) v = false -> unconvert e v = Err Reject).
Proof. exact unwritable_values_refused_l. Qed.
Print Assumptions unwritable_values_refused.
