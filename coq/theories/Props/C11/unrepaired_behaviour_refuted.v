(** C11: the two behaviours the repairs removed are NOT lexically valid, shown on the model's transcription of them: Decimal written with str()
    (fixes/C11-1: 1E+2, 1E-7, NaN, -Infinity) and element data written as it is by tostring_unclosed_elements (fixes/C11-3: p&a<ss). *)
From OfxV Require Import Base.Prelude Base.Digits Gen.ScalarsGen Model.PyDecimal Model.Scalars Model.ScalarsLex Proofs.ScalarsText Proofs.PyDecimalProofs Proofs.ScalarsProofs Proofs.ScalarsLexProofs Proofs.ScalarsThms.
Local Open Scope N_scope.

Theorem unrepaired_behaviour_refuted :
  (exists d, lexical_ok (TDecimal None) (to_sci d) = false /\ is_finite d = true) /\
  (exists d, lexical_ok (TDecimal None) (to_sci d) = false /\ is_finite d = false) /\
  (exists s, wire_data_ok (wire_datum_unclosed_unrepaired s) = false).
Proof. exact unrepaired_behaviour_refuted_l. Qed.
Print Assumptions unrepaired_behaviour_refuted.
