(** C20 obligation: cusip_complete_validates *)
From OfxV Require Import Base.Prelude Base.Digits Model.Ident Proofs.IdentProofs.
Local Open Scope N_scope.
Theorem cusip_complete_validates : forall base c,
  cusip_checksum base = OK c -> validate_cusip (base ++ c) = OK true.
Proof. exact cusip_complete_validates_l. Qed.
Print Assumptions cusip_complete_validates.
