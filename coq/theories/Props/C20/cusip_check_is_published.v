(** C20 obligation: cusip_check_is_published *)
From OfxV Require Import Base.Prelude Base.Digits Model.Ident Proofs.IdentProofs.
Local Open Scope N_scope.
Theorem cusip_check_is_published : forall base vs,
  List.length base = 8%nat -> map_opt cusip_val base = Some vs ->
  cusip_checksum base = OK [48 + spec_check (cusip_spec_sum false vs)].
Proof. exact cusip_check_is_published_l. Qed.
Print Assumptions cusip_check_is_published.
