(** C20 obligation: isin_wrong_check_fails *)
From OfxV Require Import Base.Prelude Base.Digits Model.Ident Proofs.IdentProofs.
Local Open Scope N_scope.
Theorem isin_wrong_check_fails : forall agencies base c c0,
  isin_checksum agencies base = OK c -> c0 <> c -> validate_isin agencies (base ++ c0) = OK false.
Proof. exact isin_wrong_check_fails_l. Qed.
Print Assumptions isin_wrong_check_fails.
