(** C20 obligation: isin_wrong_length_never_validates *)
From OfxV Require Import Base.Prelude Base.Digits Model.Ident Proofs.IdentProofs.
Local Open Scope N_scope.
Theorem isin_wrong_length_never_validates : forall agencies s,
  List.length s <> 12%nat -> validate_isin agencies s = OK false.
Proof. exact isin_wrong_length_l. Qed.
Print Assumptions isin_wrong_length_never_validates.
