(** C20 obligation: isin_check_is_luhn *)
From OfxV Require Import Base.Prelude Base.Digits Model.Ident Proofs.IdentProofs.
Local Open Scope N_scope.
Theorem isin_check_is_luhn : forall agencies base vs,
  List.length base = 11%nat -> is_agency agencies (firstn 2 base) = true -> map_opt val36 base = Some vs ->
  isin_checksum agencies base = OK [48 + spec_check (luhn_sum true (rev (List.concat (map expand_digits vs))))].
Proof. exact isin_check_is_luhn_l. Qed.
Print Assumptions isin_check_is_luhn.
