(** C20 obligation: isin_unknown_prefix_never_validates *)
From OfxV Require Import Base.Prelude Base.Digits Model.Ident Proofs.IdentProofs.
Local Open Scope N_scope.
Theorem isin_unknown_prefix_never_validates : forall agencies s,
  is_agency agencies (firstn 2 s) = false -> validate_isin agencies s = OK false.
Proof. exact isin_unknown_prefix_l. Qed.
Print Assumptions isin_unknown_prefix_never_validates.
