(** C20 obligation: sedol2isin_valid_and_embeds *)
From OfxV Require Import Base.Prelude Base.Digits Model.Ident Proofs.IdentProofs Gen.IdentGen.
Local Open Scope N_scope.
Theorem sedol2isin_valid_and_embeds : forall base c nation,
  sedol_checksum base = OK c -> is_agency numbering_agencies nation = true ->
  exists i, sedol2isin numbering_agencies (base ++ c) nation = OK i /\ validate_isin numbering_agencies i = OK true
            /\ skipn 4 (firstn 11 i) = base ++ c /\ firstn 4 i = nation ++ [48; 48].
Proof. intros base c nation Hs HA.
  destruct (agencies_ok_use numbering_agencies nation ltac:(vm_compute; reflexivity) HA) as (Hne & HL & vsn & Hn).
  exact (sedol2isin_valid_and_embeds_l _ _ _ _ _ Hs Hne HA HL Hn). Qed.
Print Assumptions sedol2isin_valid_and_embeds.
