(** C20 obligation: sedol_check_is_published *)
From OfxV Require Import Base.Prelude Base.Digits Model.Ident Proofs.IdentProofs.
Local Open Scope N_scope.
Theorem sedol_check_is_published : forall base vs,
  List.length base = 6%nat -> existsb is_AEIO base = false -> map_opt val36 base = Some vs ->
  sedol_checksum base = OK [48 + spec_check (sedol_spec_sum sedol_weights vs)].
Proof. exact sedol_check_is_published_l. Qed.
Print Assumptions sedol_check_is_published.
