(** C20: the hypotheses of the obligations are inhabited (AAPL CUSIP 037833100, ISIN US0378331005, SEDOL 0263494) *)
From OfxV Require Import Base.Prelude Base.Digits Model.Ident Proofs.IdentProofs Gen.IdentGen.
Local Open Scope N_scope.
Theorem examples_nonvacuous :
  cusip_checksum (T "03783310") = OK (T "0") /\ validate_cusip (T "037833100") = OK true
  /\ cusip_checksum (T "0378331*") = OK (T "1")
  /\ isin_checksum numbering_agencies (T "US037833100") = OK (T "5")
  /\ validate_isin numbering_agencies (T "US0378331005") = OK true
  /\ sedol_checksum (T "026349") = OK (T "4")
  /\ cusip2isin numbering_agencies (T "037833100") [] = OK (T "US0378331005")
  /\ sedol2isin numbering_agencies (T "0263494") [] = OK (T "GB0002634946")
  /\ agencies_ok numbering_agencies = true.
Proof. vm_compute. repeat split; reflexivity. Qed.
Print Assumptions examples_nonvacuous.
