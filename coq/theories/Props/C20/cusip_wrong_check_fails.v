(** C20 obligation: cusip_wrong_check_fails *)
From OfxV Require Import Base.Prelude Base.Digits Model.Ident Proofs.IdentProofs.
Local Open Scope N_scope.
Theorem cusip_wrong_check_fails : forall base c c0,
  cusip_checksum base = OK c -> c0 <> c -> validate_cusip (base ++ c0) = OK false.
Proof. exact cusip_wrong_check_fails_l. Qed.
Print Assumptions cusip_wrong_check_fails.
