(** C20 obligation: isin_complete_validates *)
From OfxV Require Import Base.Prelude Base.Digits Model.Ident Proofs.IdentProofs.
Local Open Scope N_scope.
Theorem isin_complete_validates : forall agencies base c,
  isin_checksum agencies base = OK c -> validate_isin agencies (base ++ c) = OK true.
Proof. exact isin_complete_validates_l. Qed.
Print Assumptions isin_complete_validates.
