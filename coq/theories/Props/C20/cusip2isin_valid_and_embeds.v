(** C20 obligation: cusip2isin_valid_and_embeds *)
From OfxV Require Import Base.Prelude Base.Digits Model.Ident Proofs.IdentProofs Gen.IdentGen.
Local Open Scope N_scope.
(** over the agency table REGENERATED from /repo: every prefix the library accepts works for every valid alphanumeric CUSIP *)
Theorem cusip2isin_valid_and_embeds : forall cusip nation vsc,
  validate_cusip cusip = OK true -> map_opt val36 cusip = Some vsc -> is_agency numbering_agencies nation = true ->
  exists i, cusip2isin numbering_agencies cusip nation = OK i /\ validate_isin numbering_agencies i = OK true
            /\ firstn 9 (skipn 2 i) = cusip /\ firstn 2 i = nation.
Proof. intros cusip nation vsc Hv Hc HA.
  destruct (agencies_ok_use numbering_agencies nation ltac:(vm_compute; reflexivity) HA) as (Hne & HL & vsn & Hn).
  exact (cusip2isin_valid_and_embeds_l _ _ _ _ _ Hv Hne HA HL Hn Hc). Qed.
Print Assumptions cusip2isin_valid_and_embeds.
