(** C20 obligation: cusip_wrong_length_never_validates *)
From OfxV Require Import Base.Prelude Base.Digits Model.Ident Proofs.IdentProofs.
Local Open Scope N_scope.
Theorem cusip_wrong_length_never_validates : forall s,
  List.length s <> 9%nat -> validate_cusip s = OK false.
Proof. exact cusip_wrong_length_l. Qed.
Print Assumptions cusip_wrong_length_never_validates.
