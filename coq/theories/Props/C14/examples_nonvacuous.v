(** C14: the hypotheses of the obligations are inhabited, and the model really exhibits each behaviour the theorems speak about:
    a normal statement call posts the anonymous profile request to the configured URL and then the credentialed request to the
    advertised URL with the cookie set by the first answer only if the host matches; a dry run posts nothing; a second client never
    sees the first client's cookie; a profile advertising two URLs stops the call before any credentialed request. *)
From OfxV Require Import Base.Prelude Model.HttpClient Model.HttpClientCases Proofs.HttpClientProofs.
Local Open Scope N_scope.
Definition cfg0 : cfg := Cfg (Url 0 0) 5 (Some 1) (Some 1) true 0.
Definition cfg1 : cfg := Cfg (Url 0 0) 6 (Some 2) (Some 2) true 0.
Definition p1 : profile := Profile 1 10 [MsgSet SBank (Url 0 1) false].
Definition p2 : profile := Profile 2 11 [MsgSet SBank (Url 2 0) false; MsgSet SCc (Url 3 0) false].
Definition wex : world := world_of_list
  [Rs true true [(1, 100)] (RProfile p1); Rs true true [(2, 200)] ROpaque;
   Rs true true [(1, 300)] ROpaque;
   Rs true true [] RUpToDate; Rs true true [] ROpaque;
   Rs true true [] (RProfile p2)].
Definition opsex : list (nat * op) :=
  [(0%nat, Op KStmt MNormal 9); (0%nat, Op KAcct MDry 9); (1%nat, Op KTax MSkip 8); (0%nat, Op KStmt MNormal 9); (0%nat, Op KStmt MNormal 9)].
Theorem examples_nonvacuous :
  keys_not_shared [cfg0; cfg1]
  /\ map (fun ev => map (fun x => (rq_url (fst x), rq_cookies (fst x), has_credentials (rq_body (fst x)))) (e_xchg ev))
         (snd (run wex (init [cfg0; cfg1]) opsex))
     = [ [ (Url 0 0, [], false); (Url 0 1, [(1, 100)], true) ];
         [];
         [ (Url 0 0, [], true) ];
         [ (Url 0 0, [(1, 100); (2, 200)], false); (Url 0 1, [(1, 100); (2, 200)], true) ] ;
         [ (Url 0 0, [(1, 100); (2, 200)], false) ] ]
  /\ map e_result (snd (run wex (init [cfg0; cfg1]) opsex))
     = [OK (OAnswer 1); OK ODry; OK (OAnswer 2); OK (OAnswer 4); Err Crash]
  /\ service_url p1 = Some (Url 0 1) /\ service_url p2 = None.
Proof.
  split.
  - intros c c' [<-|[<-|[]]] [<-|[<-|[]]] E; try reflexivity; discriminate.
  - vm_compute. repeat split; reflexivity.
Qed.
Print Assumptions examples_nonvacuous.
