(** C14 obligation: every call is exactly one exchange per request it makes - the anonymous profile request to the configured URL first
    (unless dry run / skip_profile), then the request asked for, carrying the configured user and the given password; each is a POST
    with Content-Type application/x-ofx, the fixed Accept header and the configured user agent.  [shape], [wf_rq] in Proofs/HttpClientProofs.v. *)
From OfxV Require Import Base.Prelude Model.HttpClient Proofs.HttpClientProofs.
Local Open Scope N_scope.
Theorem one_post_per_request : forall (w : world) (st : state) (k : nat) (o : op) (cl : client),
  nth_error (s_clients st) k = Some cl ->
  let '(st', xs, res) := step w st k o in
  Forall (fun x => wf_rq (cl_cfg cl) (fst x)) xs
  /\ s_nreq st' = (s_nreq st + List.length xs)%nat
  /\ shape (cl_cfg cl) o xs res.
Proof. exact one_post_per_request_l. Qed.
Print Assumptions one_post_per_request.
