(** C14 obligation: over every finite history on any number of client instances, a cookie appears in a request of client k only if an
    EARLIER answer TO CLIENT k from the same host set it; no exchange of another client can put a cookie into k's requests. *)
From OfxV Require Import Base.Prelude Model.HttpClient Proofs.HttpClientProofs.
Local Open Scope N_scope.
Theorem cookies_never_cross_clients : forall (w : world) (cfgs : list cfg) (ops : list (nat * op)) pre ev post,
  snd (run w (init cfgs) ops) = (pre ++ ev :: post)%list ->
  forall c, nth_error cfgs (e_client ev) = Some c ->
  forall xs1 x xs2, e_xchg ev = (xs1 ++ x :: xs2)%list ->
  forall nv, In nv (rq_cookies (fst x)) ->
  exists x0, In (e_client ev, x0) (flat pre ++ tag (e_client ev) xs1)
    /\ u_host (rq_url (fst x0)) = u_host (rq_url (fst x)) /\ rs_transport (snd x0) = true /\ In nv (rs_cookies (snd x0)).
Proof. exact cookies_never_cross_clients_l. Qed.
Print Assumptions cookies_never_cross_clients.
