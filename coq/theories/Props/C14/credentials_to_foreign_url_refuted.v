(** C14 / C15 finding 18 pinned on the faithful model: two clients configured without ORG/FID for DIFFERENT URLs share the cache file
    None-None.profrs; after client A fetched its profile, client B (whose own server answers "up to date" and never sent any profile)
    posts the user's id and password to the URL that A's server advertised.  So the hypothesis of credentials_only_to_advertised_url
    cannot be dropped. *)
From OfxV Require Import Base.Prelude Model.HttpClient Proofs.HttpClientProofs.
Local Open Scope N_scope.
Theorem credentials_to_foreign_url_refuted :
  exists pre ev post x c,
    snd (run w18 (init [cfgA18; cfgB18]) ops18) = (pre ++ ev :: post)%list
    /\ key_of cfgA18 = key_of cfgB18 /\ c_url cfgA18 <> c_url cfgB18
    /\ nth_error [cfgA18; cfgB18] (e_client ev) = Some c /\ In x (e_xchg ev)
    /\ has_credentials (rq_body (fst x)) = true /\ o_mode (e_op ev) = MNormal
    /\ rq_url (fst x) = Url 2 0 /\ c_url c = Url 1 0
    /\ profiles_sent (pre ++ [ev]) (c_url c) = []
    /\ ~ event_ok [cfgA18; cfgB18] (pre ++ [ev]) ev.
Proof. exact credentials_to_foreign_url_refuted_l. Qed.
Print Assumptions credentials_to_foreign_url_refuted.
