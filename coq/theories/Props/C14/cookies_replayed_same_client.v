(** C14 obligation: over every finite history, a request of a client that persists cookies (the default) carries exactly what the jar
    built from the answers given EARLIER TO THAT CLIENT holds for the host - in particular a cookie some earlier answer from that host
    set, and that no later answer from that host to this client set again, is replayed.  (With persist_cookies false no cookie
    processor is installed and the clause is vacuous: hypothesis [c_persist c = true].) *)
From OfxV Require Import Base.Prelude Model.HttpClient Proofs.HttpClientProofs.
Local Open Scope N_scope.
Theorem cookies_replayed_same_client : forall (w : world) (cfgs : list cfg) (ops : list (nat * op)) pre ev post,
  snd (run w (init cfgs) ops) = (pre ++ ev :: post)%list ->
  forall c, nth_error cfgs (e_client ev) = Some c -> c_persist c = true ->
  forall xs1 x xs2, e_xchg ev = (xs1 ++ x :: xs2)%list ->
  let k := e_client ev in
  let hist := (flat pre ++ tag k xs1)%list in
  rq_cookies (fst x) = jar_get (jar_spec hist k) (u_host (rq_url (fst x)))
  /\ forall a x0 b n v, hist = (a ++ (k, x0) :: b)%list ->
       u_host (rq_url (fst x0)) = u_host (rq_url (fst x)) -> rs_transport (snd x0) = true ->
       NoDup (map fst (rs_cookies (snd x0))) -> In (n, v) (rs_cookies (snd x0)) ->
       (forall y, In (k, y) b -> u_host (rq_url (fst y)) = u_host (rq_url (fst x)) -> rs_transport (snd y) = true ->
                  ~ In n (map fst (rs_cookies (snd y)))) ->
       In (n, v) (rq_cookies (fst x)).
Proof. exact cookies_replayed_l. Qed.
Print Assumptions cookies_replayed_same_client.
