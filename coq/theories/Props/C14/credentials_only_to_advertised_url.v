(** C14 obligation: over EVERY finite history of calls on any number of clients against an arbitrary server, a profile request goes to
    the configured URL without credentials, and a request carrying credentials goes to the configured URL (skip_profile) or to the
    single URL advertised by a profile that the server AT THE CLIENT'S CONFIGURED URL delivered earlier in the history or in this call.
    Hypothesis made explicit: clients that share a cache key (org, fid) share the URL (finding 18; refuted without it, see
    credentials_to_foreign_url_refuted.v). *)
From OfxV Require Import Base.Prelude Model.HttpClient Proofs.HttpClientProofs.
Local Open Scope N_scope.
Theorem credentials_only_to_advertised_url : forall (w : world) (cfgs : list cfg) (ops : list (nat * op)),
  keys_not_shared cfgs ->
  forall pre ev post, snd (run w (init cfgs) ops) = (pre ++ ev :: post)%list ->
  forall c, nth_error cfgs (e_client ev) = Some c ->
  forall x, In x (e_xchg ev) ->
    (b_kind (rq_body (fst x)) = KProfile -> rq_url (fst x) = c_url c /\ has_credentials (rq_body (fst x)) = false)
    /\ (b_kind (rq_body (fst x)) <> KProfile ->
          (o_mode (e_op ev) = MSkip /\ rq_url (fst x) = c_url c)
          \/ (o_mode (e_op ev) = MNormal /\ exists p, service_url p = Some (rq_url (fst x)) /\ In p (profiles_sent (pre ++ [ev]) (c_url c)))).
Proof. intros w cfgs ops HK pre ev post E. exact (credentials_only_to_advertised_url_l w cfgs ops HK pre ev post E). Qed.
Print Assumptions credentials_only_to_advertised_url.
