(** C14 obligation: a dry run performs no network request (and changes neither the cookie jars, nor the cache, nor the request counter),
    for every kind of call, every state, every server; and so does every history made of dry runs only. *)
From OfxV Require Import Base.Prelude Model.HttpClient Proofs.HttpClientProofs.
Local Open Scope N_scope.
Theorem dryrun_sends_nothing : forall (w : world) (st : state) (k : nat) (o : op),
  o_mode o = MDry -> (exists r, step w st k o = (st, [], r))
  /\ forall ops, all_dry ops -> fst (run w st ops) = st /\ flat (snd (run w st ops)) = [].
Proof. intros w st k o H. split; [exact (dryrun_sends_nothing_l w st k o H) | intros ops Ho; exact (dryrun_history_l w st ops Ho)]. Qed.
Print Assumptions dryrun_sends_nothing.
