(** C14 obligation over the constants REGENERATED from /repo/ofxtools/Client.py on every run: the Content-Type is application/x-ofx, the
    Accept header admits it, cookies persist by default in a plain CookieJar with the stdlib's default policy (what the cookie probes of the correspondence run expect), the default user id is the anonymous placeholder, and the cache file name is
    built from ORG and FID only (what [key_of] models).  Breaks (fail closed) if the source changes any of these. *)
From OfxV Require Import Base.Prelude Base.ClientBase Gen.ClientGen.
Local Open Scope N_scope.
Theorem generated_constants_as_modelled :
  header_content_type = T "application/x-ofx"
  /\ accept_admits header_accept header_content_type = true
  /\ auth_placeholder = T "anonymous00000000000000000000000"
  /\ default_persist_cookies = true
  /\ cookie_policy_is_default = true
  /\ default_userid_is_placeholder = true
  /\ cache_key_is_org_fid = true.
Proof. vm_compute. repeat split; reflexivity. Qed.
Print Assumptions generated_constants_as_modelled.
