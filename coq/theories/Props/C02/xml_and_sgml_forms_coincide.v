(** C02 obligation: the XML form (all end tags) and the SGML form (no end tags on data elements) parse alike *)
From OfxV Require Import Base.Prelude Base.SgmlBase Model.Sgml Model.SgmlSpec Proofs.SgmlNest Proofs.SgmlScan Proofs.SgmlFaithful Proofs.SgmlReject.
Local Open Scope N_scope.
(** [plain_rendering true d]: every end tag, no blanks; [plain_rendering false d]: data elements without end tag.
    The SGML form is a rendering unless a data element is the last child of an aggregate of its own name. *)
Theorem xml_and_sgml_forms_coincide : forall d, wf_doc d = true -> rend_ok (plain_rendering false d) = true ->
  parse repaired (render [] (plain_rendering false d)) = parse repaired (render [] (plain_rendering true d))
  /\ parse repaired (render [] (plain_rendering true d)) = OK (Some (tree_of d)).
Proof.
  intros d Hd Hs. split; [|apply xml_rendering_faithful_l; exact Hd].
  apply (all_renderings_agree_l d); [exact Hd| |].
  - split; [apply erase_plain|]. split; [exact Hs|reflexivity].
  - split; [apply erase_plain|]. split; [apply rend_ok_xml|reflexivity].
Qed.
Print Assumptions xml_and_sgml_forms_coincide.
