(** C02 / Serialize obligation: what ET.tostring(method="html") writes is one of the renderings C02 quantifies over *)
From OfxV Require Import Base.Prelude Base.SgmlBase Model.Sgml Model.SgmlSpec Model.Serialize Proofs.SgmlFaithful Proofs.SerializeProofs Gen.SgmlGen.
Local Open Scope N_scope.
(** [e]: a tree as Aggregate.to_etree builds it ([ser_ok]: OFX tags that the html writer treats as ordinary elements - not in
    HTML_EMPTY, not script/style -, data elements with trimmed non-empty text, aggregates without text), written plain or after
    utils.indent.  [wire_doc e] is the document with element text entity-escaped.  [html_empty] is regenerated from ET.HTML_EMPTY. *)
Theorem html_is_render : forall (e : etree) (pretty : bool), ser_ok html_empty e = true ->
  exists r, wf_doc (wire_doc e) = true /\ ok_rendering [] r (wire_doc e)
            /\ html_text html_empty (if pretty then indent 0 (embed e) else embed e) = render [] r.
Proof. intros e pretty. exact (html_is_render_l html_empty e pretty). Qed.
Print Assumptions html_is_render.
