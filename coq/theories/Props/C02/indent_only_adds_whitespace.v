(** C02 / Serialize obligation: utils.indent changes nothing but blank text and tails *)
From OfxV Require Import Base.Prelude Base.SgmlBase Model.Sgml Model.SgmlSpec Model.Serialize Proofs.SgmlFaithful Proofs.SerializeProofs Gen.SgmlGen.
Local Open Scope N_scope.
(** after [indent] (at any level) the tree still has the serializable shape - aggregate text and all tails blank, data
    untouched - and denotes the same document *)
Theorem indent_only_adds_whitespace : forall (e : etree) (level : nat), ser_ok html_empty e = true ->
  shape_ok html_empty (indent level (embed e)) = true /\ wire_it (indent level (embed e)) = wire_doc e.
Proof. intros e level. exact (indent_only_adds_whitespace_l html_empty e level). Qed.
Print Assumptions indent_only_adds_whitespace.
