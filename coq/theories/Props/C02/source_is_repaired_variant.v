(** C02 obligation: /repo's TreeBuilder.regex, as translated on this run, IS the repaired variant the theorems are about
    (parse_render_faithful holds for every builder variant; the corollaries stated for [repaired] need C08's repair too), and the
    whitespace class of the model is the interpreter's *)
From OfxV Require Import Base.Prelude Base.SgmlBase Model.Sgml Gen.SgmlGen.
Local Open Scope N_scope.
(** [source_is_pinned]: the normalised-AST hashes of TreeBuilder.__init__/start/end/close/feed/_feedmatch/_start/_groomstring, OFXTree.parse,
    utils.indent and utils.tostring_unclosed_elements are the ones Model/Sgml.v and Model/Serialize.v were transcribed from (tools/ofxv/translate_sgml.py). *)
(** [repo_cfg] is regenerated from the regex pattern/flags and the overrides of ofxtools.Parser.TreeBuilder; on the
    unrepaired tree it is [legacy] and this obligation fails; a pattern text that is neither of the two known ones is
    assumed to be a rewrite of the repaired one and the correspondence runs switch to their deep setting (the theorems then say nothing about /repo). *)
Theorem source_is_repaired_variant : cdata_lazy repo_cfg = true /\ source_is_pinned = true /\ py_isspace = space_points.
Proof. repeat split; reflexivity. Qed.
Print Assumptions source_is_repaired_variant.
