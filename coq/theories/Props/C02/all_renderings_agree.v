(** C02 obligation: all renderings of one document parse to one and the same result *)
From OfxV Require Import Base.Prelude Base.SgmlBase Model.Sgml Model.SgmlSpec Proofs.SgmlNest Proofs.SgmlScan Proofs.SgmlFaithful Proofs.SgmlReject Proofs.SgmlCfg.
Local Open Scope N_scope.
Theorem all_renderings_agree : forall g d ws1 r1 ws2 r2, cdata_lazy g = true ->
  wf_doc d = true -> ok_rendering ws1 r1 d -> ok_rendering ws2 r2 d ->
  parse g (render ws1 r1) = parse g (render ws2 r2).
Proof. exact all_renderings_agree_g. Qed.
Print Assumptions all_renderings_agree.
