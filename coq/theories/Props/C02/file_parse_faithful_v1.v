(** C02 obligation over the BYTES of a version-1 (SGML) file: every valid header h, every tolerated layout l, the body in the codec cd the header's CHARSET declares (latin_1, cp1252, utf_8).
    ANY rendering r of ANY well-formed document d (end tags of data elements written or not, CDATA, arbitrary white space; the root
    closed by its end tag and followed by ASCII white space only) is split by parse_header into the header and the message, and the
    tokenizer and tree builder return exactly the document's tree: header engine (C05) and tokenizer engine (C02) composed; this is
    the path OFXTree.parse takes.  Hypotheses shown inhabited by the Example of Props/C03/file_places_typed_values_v1.v. *)
From OfxV Require Import Base.Prelude Base.Digits Base.SgmlBase Model.Sgml Model.SgmlSpec Model.Header Model.HeaderLayout Gen.HeaderGen
     Proofs.HeaderParse Proofs.FileRoundTrip Proofs.FilePlaces.
Local Open Scope N_scope.
Theorem file_parse_faithful_v1 : forall l h cd (d : doc) (r : rdoc) encbody,
  valid1 h = true -> lay1_ok l h = true -> spec_codec (h1_charset h) = Some cd ->
  wf_doc d = true -> ok_rendering [] r d -> ends_tag r = true -> all_ws (last_ws r) = true ->
  encode_opt cd (render [] r) = Some encbody ->
  exists msg, parse_header (file1 l h encbody) = OK (H1 h, msg) /\ parse repaired msg = OK (Some (tree_of d)).
Proof. exact file_parse_faithful_v1_l. Qed.
Print Assumptions file_parse_faithful_v1.
