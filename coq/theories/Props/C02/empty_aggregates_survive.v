(** C02 obligation: an empty aggregate, however spaced, stays an (empty) element of its own *)
From OfxV Require Import Base.Prelude Base.SgmlBase Model.Sgml Model.SgmlSpec Proofs.SgmlNest Proofs.SgmlScan Proofs.SgmlFaithful Proofs.SgmlReject.
Local Open Scope N_scope.
Theorem empty_aggregates_survive : forall t ws0 ws1 ws2,
  wf_tag t = true -> blank ws0 = true -> blank ws1 = true -> blank ws2 = true ->
  parse repaired (render ws0 (RAgg t ws1 [] ws2)) = OK (Some (Node t None [])).
Proof.
  intros t ws0 ws1 ws2 Ht H0 H1 H2. apply (parse_render_faithful_l ws0 (RAgg t ws1 [] ws2) (Agg t [])).
  - cbn [wf_doc forallb]. rewrite Ht. reflexivity.
  - split; [reflexivity|]. split; [|exact H0]. cbn [rend_ok forallb rev]. rewrite H1, H2. reflexivity.
Qed.
Print Assumptions empty_aggregates_survive.
