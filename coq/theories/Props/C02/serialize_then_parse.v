(** C02 / Serialize obligation: written by either serializer, plain or pretty-printed, then parsed: the tree that was written *)
From OfxV Require Import Base.Prelude Base.SgmlBase Model.Sgml Model.SgmlSpec Model.Serialize Proofs.SgmlFaithful Proofs.SerializeProofs Gen.SgmlGen.
Local Open Scope N_scope.
Theorem serialize_then_parse : forall (e : etree) (pretty : bool), ser_ok html_empty e = true ->
  parse repaired (html_text html_empty (if pretty then indent 0 (embed e) else embed e)) = OK (Some (tree_of (wire_doc e)))
  /\ (sgml_ok (wire_doc e) = true ->
      parse repaired (unclosed_text true (if pretty then indent 0 (embed e) else embed e)) = OK (Some (tree_of (wire_doc e)))).
Proof.
  intros e pretty H. split; [exact (serialize_then_parse_l html_empty e pretty H)|].
  exact (unclosed_then_parse_l html_empty e pretty H).
Qed.
Print Assumptions serialize_then_parse.
