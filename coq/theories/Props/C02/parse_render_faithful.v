(** C02 obligation: every rendering of every well-formed document parses to exactly the document's tree *)
From OfxV Require Import Base.Prelude Base.SgmlBase Model.Sgml Model.SgmlSpec Proofs.SgmlNest Proofs.SgmlScan Proofs.SgmlFaithful Proofs.SgmlReject Proofs.SgmlCfg.
Local Open Scope N_scope.
(** [r] is document [d] with one wire rendering chosen per node (arbitrary isspace text [ws0] in front, after every
    start tag, around data, after every end tag; data elements with or without end tag; data plain or CDATA-wrapped);
    [ok_rendering] carries the only side conditions: blanks are blanks, CDATA-wrapped data contains no "]]>", and a data
    element that is the last child of an aggregate of its own name keeps its end tag.  No bound on size or content.
    [g]: any source configuration with the repaired regex ([cdata_lazy]); the builder variant is immaterial here. *)
Theorem parse_render_faithful : forall (g : cfg) (ws0 : text) (r : rdoc) (d : doc), cdata_lazy g = true ->
  wf_doc d = true -> ok_rendering ws0 r d -> parse g (render ws0 r) = OK (Some (tree_of d)).
Proof. exact parse_render_faithful_g. Qed.
Print Assumptions parse_render_faithful.
