(** C02 obligation: every rendering of every well-formed document parses to exactly the document's tree *)
From OfxV Require Import Base.Prelude Base.SgmlBase Model.Sgml Model.SgmlSpec Proofs.SgmlNest Proofs.SgmlScan Proofs.SgmlFaithful Proofs.SgmlReject.
Local Open Scope N_scope.
(** [r] is document [d] with one wire rendering chosen per node (arbitrary isspace text [ws0] in front, after every
    start tag, around data, after every end tag; data elements with or without end tag; data plain or CDATA-wrapped);
    [ok_rendering] carries the only side conditions: blanks are blanks, CDATA-wrapped data contains no "]]>", and a data
    element that is the last child of an aggregate of its own name keeps its end tag.  No bound on size or content. *)
Theorem parse_render_faithful : forall (ws0 : text) (r : rdoc) (d : doc),
  wf_doc d = true -> ok_rendering ws0 r d -> parse repaired (render ws0 r) = OK (Some (tree_of d)).
Proof. exact parse_render_faithful_l. Qed.
Print Assumptions parse_render_faithful.
