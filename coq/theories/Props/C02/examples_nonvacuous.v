(** C02: the hypotheses of the obligations are inhabited, and the model computes *)
From OfxV Require Import Base.Prelude Base.SgmlBase Model.Sgml Model.SgmlSpec Model.Serialize Proofs.SgmlNest Proofs.SgmlScan Proofs.SgmlFaithful Proofs.SgmlReject Proofs.SerializeProofs Gen.SgmlGen.
Local Open Scope N_scope.
Definition ex_doc : doc :=
  Agg (T "OFX") [Agg (T "SIGNONMSGSRSV1") [Agg (T "SONRS") [Agg (T "STATUS") [Leaf (T "CODE") (T "0"); Leaf (T "SEVERITY") (T "INFO")];
     Leaf (T "DTSERVER") (T "20051029101003"); Agg (T "FI") []; Leaf (T "MEMO") (T "AT&amp;T a>b ]]")]]].
Definition ex_rend : rdoc :=
  RAgg (T "OFX") [10] [RAgg (T "SIGNONMSGSRSV1") [13; 10; 32] [RAgg (T "SONRS") [] [RAgg (T "STATUS") [9]
     [RLeaf (T "CODE") false [] (T "0") [] false [10]; RLeaf (T "SEVERITY") true [32] (T "INFO") [10] true [32; 32]] [];
     RLeaf (T "DTSERVER") false [32] (T "20051029101003") [32] true [10]; RAgg (T "FI") [10; 32] [] [12288];
     RLeaf (T "MEMO") false [] (T "AT&amp;T a>b ]]") [] false [10]] [10]] [10]] [133].
Definition ex_tree : etree :=
  Node (T "OFX") None [Node (T "STATUS") None [Node (T "CODE") (Some (T "0")) []; Node (T "MESSAGE") (Some (T "AT&T <ok>")) []];
                       Node (T "FI") None []].
Theorem examples_nonvacuous :
  ser_ok html_empty ex_tree = true
  /\ html_text html_empty (embed ex_tree) = T "<OFX><STATUS><CODE>0</CODE><MESSAGE>AT&amp;T &lt;ok&gt;</MESSAGE></STATUS><FI></FI></OFX>"
  /\ parse repaired (html_text html_empty (indent 0 (embed ex_tree))) = OK (Some (tree_of (wire_doc ex_tree)))
  /\ sgml_ok (wire_doc (Node (T "OFX") None [Node (T "CODE") (Some (T "0")) []])) = true
  /\ unclosed_text true (indent 0 (embed (Node (T "OFX") None [Node (T "CODE") (Some (T "0")) []])))
      = (T "<OFX>" ++ [10] ++ T "<CODE>0" ++ [10] ++ T "</OFX>" ++ [10])%list
  /\
  wf_doc ex_doc = true /\ erase ex_rend = ex_doc /\ rend_ok ex_rend = true
  /\ parse repaired (render [10; 32] ex_rend) = OK (Some (tree_of ex_doc))
  /\ parse repaired (render [] (plain_rendering true ex_doc)) = OK (Some (tree_of ex_doc))
  /\ rend_ok (plain_rendering false ex_doc) = true
  /\ chain_ok (flatten ex_rend) = true /\ forallb tok_wf (flatten ex_rend) = true.
Proof. vm_compute. repeat split; reflexivity. Qed.
Print Assumptions examples_nonvacuous.
