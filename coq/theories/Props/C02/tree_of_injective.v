(** C02 obligation: nothing dropped, merged, re-parented or invented - the tree determines the document *)
From OfxV Require Import Base.Prelude Base.SgmlBase Model.Sgml Model.SgmlSpec Proofs.SgmlNest Proofs.SgmlScan Proofs.SgmlFaithful Proofs.SgmlReject.
Local Open Scope N_scope.
Theorem tree_of_injective : forall d1 d2, tree_of d1 = tree_of d2 -> d1 = d2.
Proof. exact tree_of_injective_l. Qed.
Print Assumptions tree_of_injective.
