(** C02 obligation (the byte layer around the body text): for text of Unicode scalar values (what a Python str of real text
    holds: no lone surrogates), the two writers' encoders - errors="strict" of tostring_unclosed_elements and
    errors="xmlcharrefreplace" of ET.tostring - produce the same UTF-8 bytes, and the reader's strict UTF-8 decoder (Model/Header.v,
    codec 2) returns exactly the text: nothing is lost or altered between the serialised text and what TreeBuilder.feed is given. *)
From OfxV Require Import Base.Prelude Model.Serialize Model.Header Proofs.FileRoundTrip.
Theorem utf8_layer_roundtrip : forall s, scalar_text s = true ->
  utf8_strict s = OK (utf8_xcr s) /\ decode_opt 2 (utf8_xcr s) = Some s.
Proof. exact utf8_layer_roundtrip_l. Qed.
Print Assumptions utf8_layer_roundtrip.
