(** C02 obligation: the finditer skip-counter lemma (both source variants) *)
From OfxV Require Import Base.Prelude Base.SgmlBase Model.Sgml Model.SgmlSpec Proofs.SgmlNest Proofs.SgmlScan Proofs.SgmlFaithful Proofs.SgmlReject.
Local Open Scope N_scope.
(** [scan] models re.finditer as structural recursion with a skip counter: skipping exactly the characters of a
    consumed match resumes the scan at the text behind it. *)
Theorem scan_skip : forall g (p r : text), scan g (List.length p) (p ++ r) = scan g 0 r.
Proof. exact SgmlScan.scan_skip. Qed.
Print Assumptions scan_skip.
