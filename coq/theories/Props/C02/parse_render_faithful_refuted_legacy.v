(** C02: on the UNREPAIRED regex (greedy, single-line CDATA body, no blanks around the section) the theorem is false *)
From OfxV Require Import Base.Prelude Base.SgmlBase Model.Sgml Model.SgmlSpec Proofs.SgmlNest Proofs.SgmlScan Proofs.SgmlFaithful Proofs.SgmlReject.
Local Open Scope N_scope.
Definition two_cdata : rdoc := RAgg (T "R") [] [RLeaf (T "A") true [] (T "x") [] true []; RLeaf (T "B") true [] (T "y") [] true []] [].
Definition multiline_cdata : rdoc := RAgg (T "R") [] [RLeaf (T "A") true [] [97; 10; 98] [] true []] [].
Definition spaced_cdata : rdoc := RAgg (T "R") [] [RLeaf (T "A") true [10; 32] (T "x") [10] true []] [].
Definition refutes (r : rdoc) : Prop :=
  wf_doc (erase r) = true /\ ok_rendering [] r (erase r) /\ parse legacy (render [] r) <> OK (Some (tree_of (erase r))).
Theorem parse_render_faithful_refuted_legacy :
  refutes two_cdata            (* <R><A><![CDATA[x]]></A><B><![CDATA[y]]></B></R> : the two sections are glued, IndexError *)
  /\ refutes multiline_cdata   (* the body "a\nb" is not matched: A is returned as an empty aggregate *)
  /\ refutes spaced_cdata.     (* blanks between the tags and the section: likewise *)
Proof. repeat split; try (vm_compute; reflexivity); vm_compute; discriminate. Qed.
Print Assumptions parse_render_faithful_refuted_legacy.
