(** C02 obligation: renderings of different documents never parse alike *)
From OfxV Require Import Base.Prelude Base.SgmlBase Model.Sgml Model.SgmlSpec Proofs.SgmlNest Proofs.SgmlScan Proofs.SgmlFaithful Proofs.SgmlReject Proofs.SgmlCfg.
Local Open Scope N_scope.
Theorem renderings_distinguish_documents : forall g d1 d2 ws1 r1 ws2 r2, cdata_lazy g = true ->
  wf_doc d1 = true -> wf_doc d2 = true -> ok_rendering ws1 r1 d1 -> ok_rendering ws2 r2 d2 ->
  parse g (render ws1 r1) = parse g (render ws2 r2) -> d1 = d2.
Proof. exact same_tree_same_doc_g. Qed.
Print Assumptions renderings_distinguish_documents.
