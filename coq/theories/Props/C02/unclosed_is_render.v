(** C02 / Serialize obligation: what utils.tostring_unclosed_elements writes (element text escaped, repair C11-3) is a rendering *)
From OfxV Require Import Base.Prelude Base.SgmlBase Model.Sgml Model.SgmlSpec Model.Serialize Proofs.SgmlFaithful Proofs.SerializeProofs Gen.SgmlGen.
Local Open Scope N_scope.
(** [sgml_ok]: the document has an SGML form at all - no empty aggregate (the writer emits a bare start tag for it) and no data
    element that closes an aggregate of its own name. *)
Theorem unclosed_is_render : forall (e : etree) (pretty : bool), ser_ok html_empty e = true -> sgml_ok (wire_doc e) = true ->
  exists r, wf_doc (wire_doc e) = true /\ ok_rendering [] r (wire_doc e)
            /\ unclosed_text true (if pretty then indent 0 (embed e) else embed e) = render [] r.
Proof. intros e pretty. exact (unclosed_is_render_l html_empty e pretty). Qed.
Print Assumptions unclosed_is_render.
