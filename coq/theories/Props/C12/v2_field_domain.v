(** C12 obligation: v2_field_domain.  For EVERY text: OFXHeaderV2.parse either raises the header error, or a header object
    exists and then OFXHEADER reads 200, VERSION reads one of 200 201 202 203 210 211 220, SECURITY is NONE or TYPE1, both
    UIDs have at most 36 characters. *)
From OfxV Require Import Base.Prelude Base.Digits Gen.HeaderGen Model.Header Model.HeaderLayout
  Proofs.HeaderChars Proofs.HeaderInit Proofs.HeaderV2 Proofs.HeaderSound Proofs.HeaderReject Proofs.HeaderReject2.
Local Open Scope N_scope.
Theorem v2_field_domain : forall s,
  parse_v2 s = Err Reject \/
  exists oh ve se ol ne fin a,
    search_v2 s = Some (oh, (ve, (se, (ol, (ne, fin))))) /\ parse_v2 s = OK (a, len s - len fin) /\ v2_domain oh ve se ol ne a.
Proof. exact v2_field_domain_l. Qed.
Print Assumptions v2_field_domain.
