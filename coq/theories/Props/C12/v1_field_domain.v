(** C12 obligation: v1_field_domain.  For EVERY text: OFXHeaderV1.parse either raises the header error, or the pattern
    matched with values oh..ne and a header object exists - and then each value is in its domain: OFXHEADER reads 100,
    DATA is OFXSGML, VERSION reads a number below 1000, SECURITY / ENCODING / CHARSET are tokens of the specification,
    COMPRESSION is absent or NONE, both UIDs have at most 36 characters; the object's fields are those values.  So a
    field outside its domain never yields a header object, and no other exception is possible. *)
From OfxV Require Import Base.Prelude Base.Digits Gen.HeaderGen Model.Header Model.HeaderLayout
  Proofs.HeaderChars Proofs.HeaderInit Proofs.HeaderV2 Proofs.HeaderSound Proofs.HeaderReject Proofs.HeaderReject2.
Local Open Scope N_scope.
Theorem v1_field_domain : forall s,
  parse_v1 s = Err Reject \/
  exists oh da ve se en ch co ol ne fin a,
    search_v1 s = Some (oh, (da, (ve, (se, (en, (ch, (co, (ol, (ne, fin)))))))))
    /\ parse_v1 s = OK (a, len s - len fin) /\ v1_domain oh da ve se en ch co ol ne a.
Proof. exact v1_field_domain_l. Qed.
Print Assumptions v1_field_domain.
