(** C12 obligation: the model is tied to the source.  The functions of ofxtools/header.py and ofxtools/Types.py that
    Model/Header.v transcribes by hand (OFXHeaderBase.parse, both constructors and __str__, codec, parse_header, make_header,
    the OneOf / Integer / String converters) have the normalised-AST hashes pinned in tools/ofxv/translate_header.py.  (The three
    regex patterns are watched separately: a changed pattern switches the correspondence run to its deep setting.) *)
From OfxV Require Import Base.Prelude Gen.HeaderGen.
Theorem source_is_pinned : header_source_is_pinned = true.
Proof. reflexivity. Qed.
Print Assumptions source_is_pinned.
