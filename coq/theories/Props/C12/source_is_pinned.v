(** C12 obligation: every function of ofxtools/header.py and ofxtools/Types.py that Model/Header.v transcribes by hand
    (OFXHeaderBase.parse, both constructors and __str__, codec, parse_header, make_header, the OneOf / Integer / String converters)
    raises no hard problem in the translator.  A change of such a function's source (normalised-AST hash, or the function renamed / inlined:
    a tripwire) does not break this: it is listed in translate_header.SOURCE_CHANGES and the correspondence check - the actual tie between those
    functions and the model - is re-run under further seeds by tools/ofxv/check.py.  The regenerated data (domains, limits,
    version tables, codecs map) is tied by the other obligations. *)
From OfxV Require Import Base.Prelude Gen.HeaderGen.
Theorem source_is_pinned : header_source_is_pinned = true.
Proof. reflexivity. Qed.
Print Assumptions source_is_pinned.
