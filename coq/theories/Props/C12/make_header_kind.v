(** C12 obligation: make_header_kind.  make_header(version, security, oldfileuid, newfileuid), version an int or a str:
    (1) a result is a flat-text header exactly when int(version) is 100..199 and an XML header exactly when it is one of the
        seven supported 2xx versions; its version field is that number; nothing but the header error can be raised;
    (2) not a number, not 1xx/2xx, or an unsupported 2xx: the header error;
    (3) valid arguments (security None/""/NONE/TYPE1, UIDs None/""/[A-Za-z0-9_-]{1,36}) are accepted, with the class defaults. *)
From OfxV Require Import Base.Prelude Base.Digits Gen.HeaderGen Model.Header Model.HeaderLayout
  Proofs.HeaderChars Proofs.HeaderInit Proofs.HeaderV2 Proofs.HeaderSound Proofs.HeaderReject Proofs.HeaderReject2.
Local Open Scope N_scope.
Theorem make_header_kind : forall v se ol ne,
  match make_header v se ol ne with
  | OK (H1 a) => exists z, py_int v = Some z /\ (100 <= z < 200)%Z /\ h1_version a = z /\ h1_ofxheader a = 100%Z
                           /\ exists t, str_hdr (H1 a) = T "OFXHEADER:100" ++ t
  | OK (H2 a) => exists z, py_int v = Some z /\ In z spec_v2_versions /\ h2_version a = z /\ h2_ofxheader a = 200%Z
                           /\ exists t, str_hdr (H2 a) = T "<?xml " ++ t
  | Err Reject => True
  | Err Crash => False
  end
  /\ (py_int v = None -> make_header v se ol ne = Err Reject)
  /\ (forall z, py_int v = Some z -> ~ (100 <= z < 300)%Z -> make_header v se ol ne = Err Reject)
  /\ (forall z, py_int v = Some z -> (200 <= z < 300)%Z -> ~ In z spec_v2_versions -> make_header v se ol ne = Err Reject)
  /\ (forall z, py_int v = Some z -> (100 <= z < 200)%Z ->
      opt_valid (fun s => mem_text s spec_security) se = true -> opt_valid uid_ok ol = true -> opt_valid uid_ok ne = true ->
      make_header v se ol ne = OK (H1 (Hdr1 100 (T "OFXSGML") z (or_text se (T "NONE")) (T "USASCII") (T "NONE") (T "NONE")
                                          (or_text ol (T "NONE")) (or_text ne (T "NONE")))))
  /\ (forall z, py_int v = Some z -> In z spec_v2_versions ->
      opt_valid (fun s => mem_text s spec_security) se = true -> opt_valid uid_ok ol = true -> opt_valid uid_ok ne = true ->
      make_header v se ol ne = OK (H2 (Hdr2 200 z (or_text se (T "NONE")) (or_text ol (T "NONE")) (or_text ne (T "NONE"))))).
Proof.
  intros v se ol ne. destruct (make_header_refuses v se ol ne) as [R1 [R2 R3]].
  split; [exact (make_header_kind_l v se ol ne)|]. split; [exact R1|]. split; [exact R2|]. split; [exact R3|].
  split; intros z; [apply make_header_accepts_v1|apply make_header_accepts_v2].
Qed.
Print Assumptions make_header_kind.
