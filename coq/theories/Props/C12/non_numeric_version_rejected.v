(** C12 obligation: non_numeric_version_rejected.  A version that int() cannot read is refused by make_header; a header
    text whose VERSION value (any non-empty text without whitespace, colon, quote or '<') contains a character that is not
    a decimal digit is refused by the parser of either kind - always with the header error. *)
From OfxV Require Import Base.Prelude Base.Digits Gen.HeaderGen Model.Header Model.HeaderLayout
  Proofs.HeaderChars Proofs.HeaderInit Proofs.HeaderV2 Proofs.HeaderSound Proofs.HeaderReject Proofs.HeaderReject2.
Local Open Scope N_scope.
Theorem non_numeric_version_rejected :
  (forall s se ol ne, int_of_text s = None -> make_header (VStr s) se ol ne = Err Reject)
  /\ (forall h x, valid1 h = true -> value_ok x = true -> forallb is_decimal x = false ->
        parse_v1 (render1 (set_nth 2 (T "VERSION", x) (fields1 h))) = Err Reject)
  /\ (forall h x, valid2 h = true -> value_ok x = true -> forallb is_decimal x = false ->
        parse_v2 (render2 (set_nth 1 (T "VERSION", x) (fields2 h))) = Err Reject).
Proof.
  split; [|split; [exact v1_non_numeric_version_rejected|exact v2_non_numeric_version_rejected]].
  intros s se ol ne H. apply (proj1 (make_header_refuses (VStr s) se ol ne)). exact H.
Qed.
Print Assumptions non_numeric_version_rejected.
