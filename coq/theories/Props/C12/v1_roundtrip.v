(** C12 obligation: v1_roundtrip.  For every valid version-1 header (OFXHEADER 100, DATA OFXSGML, any version of at most
    three digits - in particular 100..199 -, SECURITY NONE/TYPE1, the three ENCODING and CHARSET tokens, COMPRESSION NONE,
    UIDs over [A-Za-z0-9_-]{1,36}), OFXHeaderV1.parse(str(h)) returns h itself, and the match ends right after the
    NEWFILEUID value (4 = the two trailing CRLF). *)
From OfxV Require Import Base.Prelude Base.Digits Gen.HeaderGen Model.Header Model.HeaderLayout
  Proofs.HeaderChars Proofs.HeaderInit Proofs.HeaderV2 Proofs.HeaderSound Proofs.HeaderReject Proofs.HeaderReject2.
Local Open Scope N_scope.
Theorem v1_roundtrip : forall h, valid1 h = true -> parse_v1 (str_v1 h) = OK (h, len (str_v1 h) - 4).
Proof. exact v1_roundtrip_l. Qed.
Print Assumptions v1_roundtrip.
