(** C12: the hypotheses of the obligations are inhabited, and the corruption statements are not vacuous (concrete inputs). *)
From OfxV Require Import Base.Prelude Base.Digits Gen.HeaderGen Model.Header Model.HeaderLayout
  Proofs.HeaderChars Proofs.HeaderInit Proofs.HeaderV2 Proofs.HeaderSound Proofs.HeaderReject Proofs.HeaderReject2.
Local Open Scope N_scope.
Definition ex1 : hdr1 := Hdr1 100 (T "OFXSGML") 102 (T "TYPE1") (T "USASCII") (T "1252") (T "NONE") (T "NONE") (T "a-B_9").
Definition ex2 : hdr2 := Hdr2 200 203 (T "NONE") (T "NONE") (T "0123456789abcdefghijklmnopqrstuvwxyz").
Theorem examples_nonvacuous :
  valid1 ex1 = true /\ valid2 ex2 = true
  /\ parse_v1 (str_v1 ex1) = OK (ex1, len (str_v1 ex1) - 4) /\ parse_v2 (str_v2 ex2) = OK (ex2, len (str_v2 ex2))
  /\ make_header (VStr (T "160")) (Some (T "TYPE1")) None (Some (T "x")) =
       OK (H1 (Hdr1 100 (T "OFXSGML") 160 (T "TYPE1") (T "USASCII") (T "NONE") (T "NONE") (T "NONE") (T "x")))
  /\ make_header (VInt 220) None None None = OK (H2 (Hdr2 200 220 (T "NONE") (T "NONE") (T "NONE")))
  /\ make_header (VInt 300) None None None = Err Reject /\ make_header (VInt 204) None None None = Err Reject
  /\ make_header (VStr (T "1O2")) None None None = Err Reject
  /\ parse_v1 (render1 (remove_nth 1 (fields1 ex1))) = Err Reject
  /\ parse_v1 (render1 (remove_nth 6 (fields1 ex1))) = OK (ex1, 123)
  /\ parse_v1 (render1 (swap_nth 7 8 (fields1 ex1))) = Err Reject
  /\ parse_v1 (render1 (set_nth 3 (T "SECURITY", T "TYPE2") (fields1 ex1))) = Err Reject
  /\ parse_v1 (render1 (set_nth 2 (T "VERSION", T "1O2") (fields1 ex1))) = Err Reject
  /\ parse_v2 (render2 (set_nth 1 (T "VERSION", T "204") (fields2 ex2))) = Err Reject
  /\ value_ok (T "1O2") = true /\ forallb is_decimal (T "1O2") = false.
Proof. vm_compute. repeat split; reflexivity. Qed.
Print Assumptions examples_nonvacuous.
