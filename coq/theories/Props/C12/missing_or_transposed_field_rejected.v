(** C12 obligation: missing_or_transposed_field_rejected.  str(h) is the rendering of the header's own list of
    (NAME, value) lines / attributes; deleting any mandatory one (version 1: all but COMPRESSION, whose omission the library
    tolerates; version 2: all five) or exchanging any two makes the parser raise the header error, for every valid header
    (all versions, security levels, UIDs). *)
From OfxV Require Import Base.Prelude Base.Digits Gen.HeaderGen Model.Header Model.HeaderLayout
  Proofs.HeaderChars Proofs.HeaderInit Proofs.HeaderV2 Proofs.HeaderSound Proofs.HeaderReject Proofs.HeaderReject2.
Local Open Scope N_scope.
Theorem missing_or_transposed_field_rejected :
  (forall h, str_v1 h = render1 (fields1 h)) /\ (forall h, str_v2 h = render2 (fields2 h))
  /\ (forall h i, valid1 h = true -> (i < 9)%nat -> i <> 6%nat -> parse_v1 (render1 (remove_nth i (fields1 h))) = Err Reject)
  /\ (forall h i j, valid1 h = true -> (i < j < 9)%nat -> parse_v1 (render1 (swap_nth i j (fields1 h))) = Err Reject)
  /\ (forall h i, valid2 h = true -> (i < 5)%nat -> parse_v2 (render2 (remove_nth i (fields2 h))) = Err Reject)
  /\ (forall h i j, valid2 h = true -> (i < j < 5)%nat -> parse_v2 (render2 (swap_nth i j (fields2 h))) = Err Reject).
Proof.
  split; [exact str_v1_render|]. split; [exact str_v2_render|]. split; [exact v1_missing_rejected|].
  split; [exact v1_transposed_rejected|]. split; [exact v2_missing_rejected|exact v2_transposed_rejected].
Qed.
Print Assumptions missing_or_transposed_field_rejected.
