(** C12 obligation: v2_roundtrip.  For every valid version-2 header (OFXHEADER 200, one of the seven supported versions,
    SECURITY NONE/TYPE1, UIDs over [A-Za-z0-9_-]{1,36}), OFXHeaderV2.parse(str(h)) returns h itself; the match takes the
    whole text (the pattern ends with optional whitespace). *)
From OfxV Require Import Base.Prelude Base.Digits Gen.HeaderGen Model.Header Model.HeaderLayout
  Proofs.HeaderChars Proofs.HeaderInit Proofs.HeaderV2 Proofs.HeaderSound Proofs.HeaderReject Proofs.HeaderReject2.
Local Open Scope N_scope.
Theorem v2_roundtrip : forall h, valid2 h = true -> parse_v2 (str_v2 h) = OK (h, len (str_v2 h)).
Proof. exact v2_roundtrip_l. Qed.
Print Assumptions v2_roundtrip.
