(** C03 obligation.  The converter of String / NagString elements holds the DENOTED text of every non-empty text written with
    entity tokens, and applies the declared length limit to the decoded text (a token counts as the one character it stands
    for): no warning, no rejection, whenever the decoded text fits. *)
From OfxV Require Import Base.Prelude Model.Scalars Proofs.EntityDecode.
Theorem entity_text_held_decoded :
  forall len strict required l,
    segs_ok l = true -> written l <> [] ->
    (forall n, len = Some n -> (tlen (denoted l) <= n)%N) ->
    convert_string len strict required (PStr (written l)) = OK (PStr (denoted l), false).
Proof. exact convert_string_decodes. Qed.
Print Assumptions entity_text_held_decoded.
