(** C03 obligation over the BYTES of a version-1 (SGML) file: for every valid version-1 header h and tolerated layout l of it, every
    well-formed document d in ANY wire rendering r (end tags of data elements written or not, CDATA, any white space; the root closed
    by its end tag and followed by ASCII white space only), encoded with the codec cd the header's CHARSET declares (latin_1, cp1252 or
    utf_8): parse_header hands over the header and the rendering without its trailing white space, the tokenizer and tree builder return
    the document's tree, and when that tree converts, every attribute of the model holds what the converter of its declared element type
    makes of the text of the child carrying its tag ([placed]: typed_field_ok, one field per declared attribute).
    The example beneath shows the header / rendering / encoding hypotheses are met by a concrete cp1252 file with non-ASCII data. *)
From OfxV Require Import Base.Prelude Base.Digits Base.SgmlBase Model.Schema Model.Convert Model.Sgml Model.SgmlSpec Model.Scalars Model.Typed Model.TypedDT
     Model.Header Model.HeaderLayout Gen.HeaderGen Proofs.HeaderParse Proofs.WireRoundTrip Proofs.TypedPlaces Proofs.FileRoundTrip Proofs.FilePlaces.
Local Open Scope N_scope.
Theorem file_places_typed_values_v1 :
  forall l h cd table zeros tzs S (d : doc) (r : rdoc) tag x ch cn fs ms w encbody,
    valid1 h = true -> lay1_ok l h = true -> spec_codec (h1_charset h) = Some cd ->
    wf_doc d = true -> ok_rendering [] r d -> ends_tag r = true -> all_ws (last_ws r) = true ->
    encode_opt cd (render [] r) = Some encbody ->
    tree_of d = up (Node tag x ch) ->
    from_etree pyval (conv_typed table (conv_dt_m zeros tzs)) S (Node tag x ch) = OK (Inst pyval cn fs ms, w) ->
    exists msg, parse_header (file1 l h encbody) = OK (H1 h, msg)
                /\ parse repaired msg = OK (Some (up (Node tag x ch)))
                /\ placed table zeros tzs S tag ch cn fs.
Proof. exact file_places_typed_values_v1_l. Qed.
Print Assumptions file_places_typed_values_v1.

Definition h_1252 : hdr1 := Hdr1 100%Z (T "OFXSGML") 102%Z (T "NONE") (T "USASCII") (T "1252") (T "NONE") (T "NONE") (T "NONE").
Definition lay_plain : lay1 := lay1_str.
Definition r_ex : rdoc := RAgg (T "STATUS") [10] [RLeaf (T "CODE") false [] (T "0") [] false [10]; RLeaf (T "MESSAGE") false [] [8364; 32; 53; 233] [] true []] [13; 10].
Definition b_ex : text := match encode_opt 1 (render [] r_ex) with Some b => b | None => [] end.
Example file_hypotheses_met :
  valid1 h_1252 = true /\ lay1_ok lay_plain h_1252 = true /\ spec_codec (h1_charset h_1252) = Some 1
  /\ wf_doc (erase r_ex) = true /\ rend_ok r_ex = true /\ ends_tag r_ex = true /\ all_ws (last_ws r_ex) = true
  /\ encode_opt 1 (render [] r_ex) = Some b_ex /\ existsb (fun c => c =? 128) b_ex = true
  /\ parse_header (file1 lay_plain h_1252 b_ex) = OK (H1 h_1252, (render_toks (flatten (drop_ws r_ex))))
  /\ parse repaired (render_toks (flatten (drop_ws r_ex))) = OK (Some (tree_of (erase r_ex))).
Proof. vm_compute. repeat split; reflexivity. Qed.
