(** C03 obligation ("character data with &amp; &lt; &gt; &nbsp; &apos; &quot; decoded").  For EVERY text made of ampersand-free
    stretches and entity tokens - any number of each, in any order, of any length - the un-escaping String._convert_str performs
    (the sequential str.replace passes of saxutils.unescape over the entity table REGENERATED from /repo on this run) yields the
    text with each token replaced by the character it stands for and nothing else changed; the table is the six entities the
    property names (second conjunct; finite).  Tokens decode ONCE: "&amp;lt;" is `Ent 5` followed by `Plain "lt;"` and denotes
    "&lt;".  Texts with a bare '&' that starts no token are outside this statement (the OFX notation has none; the
    correspondence run covers how the code treats them). *)
From OfxV Require Import Base.Prelude Model.Scalars Gen.ScalarsGen Proofs.EntityDecode.
Theorem entities_decoded :
  (forall l, segs_ok l = true -> string_unescape (written l) = denoted l) /\
  map (fun kv => (fst kv, snd kv)) all_ents =
    [ (T "&lt;", T "<"); (T "&gt;", T ">"); (T "&nbsp;", T " "); (T "&apos;", T "'"); (T "&quot;", [34%N]); (T "&amp;", T "&") ].
Proof. split; [exact string_unescape_decodes | exact entity_table_as_stated]. Qed.
Print Assumptions entities_decoded.
