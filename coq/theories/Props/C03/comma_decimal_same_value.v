(** C03 obligation ("decimals with '.' or ',' separator").  For EVERY text: decimal.Decimal refuses any text containing a comma
    (first conjunct: through white-space stripping, underscores, Unicode digits, signs, inf/nan/snan payloads, integer and
    fraction digits and the exponent - no bound on the text), hence the converter of Decimal elements (Types.Decimal._convert_str:
    try Decimal(value), on InvalidOperation Decimal(value.replace(",", "."))) gives a text with commas exactly the outcome -
    value at the declared scale, or refusal - of the same text written with points (second conjunct). *)
From OfxV Require Import Base.Prelude Model.PyDecimal Model.Scalars Proofs.CommaDecimal.
Theorem comma_decimal_same_value :
  (forall s, In 44%N s -> of_string s = Err Crash) /\
  (forall scale required s,
     convert_decimal scale required (PStr s) = convert_decimal scale required (PStr (comma_to_dot s))).
Proof. split; [exact comma_rejected_by_decimal | exact convert_decimal_comma_is_dot]. Qed.
Print Assumptions comma_decimal_same_value.
