(** C03 obligation.  For EVERY class table, converter oracle and document: what conversion hands to the class constructor
    is exactly the list of values denoted by the children the class defines - taken in document order after groom (vendor
    tags dropped, first FROM/YIELD renamed), each child giving nothing (Unsupported), its data text, or its own conversion.
    Nothing is dropped, merged, invented or re-ordered on the way from the element tree to the constructor. *)
From OfxV Require Import Base.Prelude Model.Schema Model.Convert Proofs.ConvertPlaces.
Theorem from_etree_is_construct_of_denoted :
  forall sval conv S tag x ch i w,
    from_etree sval conv S (Node tag x ch) = OK (i, w) ->
    exists c dargs dkw,
      lookup_tag S tag = Some c
      /\ Convert.map_res (entry_value sval (from_etree sval conv S)) (filter is_list_entry (entries c false ch)) = OK dargs
      /\ Convert.map_res (entry_value sval (from_etree sval conv S)) (filter (fun en => negb (is_list_entry en)) (entries c false ch)) = OK (map snd dkw)
      /\ map fst dkw = map entry_name (filter (fun en => negb (is_list_entry en)) (entries c false ch))
      /\ construct sval conv S tag dargs dkw = OK i.
Proof. exact from_etree_is_construct_of_denoted_l. Qed.
Print Assumptions from_etree_is_construct_of_denoted.
