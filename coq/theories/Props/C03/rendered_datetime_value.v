(** C03 obligation (date-times normalised to UTC, against the independent reference): under an element declared DateTime, the text
    of ANY rendering of a calendar-valid date-time in the OFX notations (YYYYMMDD alone or with HHMMSS, .XXX, [offset]) is assigned
    exactly the instant it denotes (days-from-civil arithmetic, offset subtracted), as microseconds since 1970-01-01T00:00Z. *)
From OfxV Require Import Base.Prelude Base.Digits Model.Schema Model.Calendar Model.DateTimeM Model.Scalars Model.Typed Model.TypedDT
     Proofs.DateTimeMRead Proofs.DateTimeMGen Proofs.TypedPlaces Gen.DateTimeGen.
Local Open Scope Z_scope.
Theorem rendered_datetime_value :
  forall table t req y mo d (ts : option time_spec) v,
    lookup_ety table t = Some (EDateTime req) -> date_ok y mo d -> (forall t', ts = Some t' -> time_ok nd_zeros t') ->
    0 <= dt_denoted y mo d ts < MAXORDINAL * US_DAY ->
    typed_value_of table nd_zeros tzs t (render_dt y mo d ts) v -> v = Some (PDT (dt_denoted y mo d ts - EPOCH_US)).
Proof. exact (fun table => rendered_datetime_value table nd_zeros tzs nd_zeros_ascii). Qed.
Print Assumptions rendered_datetime_value.
