(** C03 obligation at the level of the document TEXT (composition with C02's parse_render_faithful and the typed placement
    theorem): for every well-formed document d, whatever wire rendering it is given in (XML, SGML without end tags of data elements,
    mixtures, any white space, CDATA), the tokenizer and tree builder return its tree, and when that tree converts, every attribute
    of the model holds what the converter of its declared element type makes of the text of the child carrying its tag
    ([typed_field_ok], concrete converters of the C10 / C09 engines), one field per declared attribute. *)
From OfxV Require Import Base.Prelude Base.SgmlBase Model.Schema Model.Convert Model.Sgml Model.SgmlSpec Model.Scalars Model.Typed Model.TypedDT
     Proofs.SgmlFaithful Proofs.ConvertSound Proofs.ConvertPlaces Proofs.WireRoundTrip Proofs.TypedPlaces.
Theorem document_places_typed_values :
  forall table zeros tzs S (d : doc) (ws0 : text) (r : rdoc) tag x ch cn fs ms w,
    wf_doc d = true -> ok_rendering ws0 r d -> tree_of d = up (Node tag x ch) ->
    from_etree pyval (conv_typed table (conv_dt_m zeros tzs)) S (Node tag x ch) = OK (Inst pyval cn fs ms, w) ->
    parse repaired (render ws0 r) = OK (Some (up (Node tag x ch)))
    /\ exists c dkw,
         lookup_tag S tag = Some c /\ cn = tag
         /\ Convert.map_res (entry_value pyval (from_etree pyval (conv_typed table (conv_dt_m zeros tzs)) S))
              (filter (fun en => negb (is_list_entry en)) (entries c false ch)) = OK (map snd dkw)
         /\ map fst dkw = map entry_name (filter (fun en => negb (is_list_entry en)) (entries c false ch))
         /\ Forall2 (typed_field_ok table zeros tzs dkw) (spec_no_list c) fs.
Proof.
  intros table zeros tzs S d ws0 r tag x ch cn fs ms w Hd Hr Ht Hf. split.
  - rewrite <- Ht. apply parse_render_faithful_l; assumption.
  - exact (from_etree_places_typed_values_l table zeros tzs S tag x ch cn fs ms w Hf).
Qed.
Print Assumptions document_places_typed_values.
