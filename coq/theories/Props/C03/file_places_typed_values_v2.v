(** C03 obligation over the BYTES of a version-2 (XML) file: for every valid version-2 header h and tolerated layout l of it (XML
    declaration with any of its pseudo-attributes, either quote, leading blank lines, white space between the parts), every well-formed
    document d in ANY wire rendering r (the root closed by its end tag and followed by ASCII white space only), UTF-8 encoded:
    parse_header hands over the header and the message text, the tokenizer and tree builder return the document's tree, and when that
    tree converts, every attribute of the model holds what the converter of its declared element type makes of the text of the child
    carrying its tag ([placed]).  The example shows the hypotheses are met by a concrete file with multi-byte data. *)
From OfxV Require Import Base.Prelude Base.Digits Base.SgmlBase Model.Schema Model.Convert Model.Sgml Model.SgmlSpec Model.Scalars Model.Typed Model.TypedDT
     Model.Header Model.HeaderLayout Gen.HeaderGen Proofs.HeaderParse Proofs.WireRoundTrip Proofs.TypedPlaces Proofs.FileRoundTrip Proofs.FilePlaces.
Local Open Scope N_scope.
Theorem file_places_typed_values_v2 :
  forall l h table zeros tzs S (d : doc) (r : rdoc) tag x ch cn fs ms w encbody,
    valid2 h = true -> lay2_ok l = true ->
    wf_doc d = true -> ok_rendering [] r d -> ends_tag r = true -> all_ws (last_ws r) = true ->
    encode_opt 2 (render [] r) = Some encbody ->
    tree_of d = up (Node tag x ch) ->
    from_etree pyval (conv_typed table (conv_dt_m zeros tzs)) S (Node tag x ch) = OK (Inst pyval cn fs ms, w) ->
    exists msg, parse_header (file2 l h encbody) = OK (H2 h, msg)
                /\ parse repaired msg = OK (Some (up (Node tag x ch)))
                /\ placed table zeros tzs S tag ch cn fs.
Proof. exact file_places_typed_values_v2_l. Qed.
Print Assumptions file_places_typed_values_v2.

Definition h_220 : hdr2 := Hdr2 200%Z 220%Z (T "NONE") (T "NONE") (T "NONE").
Definition r_ex : rdoc := RAgg (T "STATUS") [10] [RLeaf (T "CODE") false [] (T "0") [] true [10]; RLeaf (T "MESSAGE") false [] [8364; 32; 53; 128176] [] true []] [13; 10].
Definition b_ex : text := match encode_opt 2 (render [] r_ex) with Some b => b | None => [] end.
Example file_hypotheses_met :
  valid2 h_220 = true /\ lay2_ok lay2_str = true
  /\ wf_doc (erase r_ex) = true /\ rend_ok r_ex = true /\ ends_tag r_ex = true /\ all_ws (last_ws r_ex) = true
  /\ encode_opt 2 (render [] r_ex) = Some b_ex /\ existsb (fun c => c =? 240) b_ex = true
  /\ parse_header (file2 lay2_str h_220 b_ex) = OK (H2 h_220, (render [] r_ex))
  /\ parse repaired (render [] r_ex) = OK (Some (tree_of (erase r_ex))).
Proof. vm_compute. repeat split; reflexivity. Qed.
