(** C03 obligation: each attribute of the converted instance holds what the converter of its DECLARED type makes of the
    value denoted by the child carrying its tag (field_rel: text -> conv t text; aggregate -> the child's own conversion,
    of the declared class; absent or Unsupported -> None), in the attribute the tag names; list members are the denoted
    values of the repeated children in document order; the model holds nothing else (fields = spec_no_list, one to one). *)
From OfxV Require Import Base.Prelude Model.Schema Model.Convert Proofs.ConvertSound Proofs.ConvertPlaces.
Theorem from_etree_places_values :
  forall sval conv S tag x ch cn fs ms w,
    from_etree sval conv S (Node tag x ch) = OK (Inst sval cn fs ms, w) ->
    exists c dargs dkw,
      lookup_tag S tag = Some c /\ cn = tag
      /\ Convert.map_res (entry_value sval (from_etree sval conv S)) (filter (is_list_entry) (entries c false ch)) = OK dargs
      /\ Convert.map_res (entry_value sval (from_etree sval conv S)) (filter (fun en => negb (is_list_entry en)) (entries c false ch)) = OK (map snd dkw)
      /\ map fst dkw = map entry_name (filter (fun en => negb (is_list_entry en)) (entries c false ch))
      /\ Forall2 (field_rel sval conv S dkw) (spec_no_list c) fs
      /\ apply_args sval conv c dargs = OK ms.
Proof. exact from_etree_places_values_l. Qed.
Print Assumptions from_etree_places_values.
