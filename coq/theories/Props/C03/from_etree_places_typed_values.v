(** C03 obligation with the CONCRETE converters (typed schema model; any class table, any element-type table): in a converted
    instance, every attribute whose tag a data child of the document carries holds what the converter of the attribute's DECLARED
    element type makes of that child's text ([typed_value_of]: the Scalars engine's convert for Bool / String / NagString / OneOf /
    Integer / Decimal - with None for an optional empty value - and the C09 engine's dt_convert / tm_convert for DateTime / Time,
    held as instants), in the attribute the tag names, one field per declared attribute.  What those converters make of a text is
    stated against independent references in C10's obligations and C09's dt_convert_denotes / tm_convert_denotes
    (rendered_datetime_value composes the latter here). *)
From OfxV Require Import Base.Prelude Model.Schema Model.Convert Model.Scalars Model.Typed Model.TypedDT Proofs.ConvertSound Proofs.ConvertPlaces Proofs.TypedPlaces.
Theorem from_etree_places_typed_values :
  forall table zeros tzs S tag x ch cn fs ms w,
    from_etree pyval (conv_typed table (conv_dt_m zeros tzs)) S (Node tag x ch) = OK (Inst pyval cn fs ms, w) ->
    exists c dkw,
      lookup_tag S tag = Some c /\ cn = tag
      /\ Convert.map_res (entry_value pyval (from_etree pyval (conv_typed table (conv_dt_m zeros tzs)) S))
           (filter (fun en => negb (is_list_entry en)) (entries c false ch)) = OK (map snd dkw)
      /\ map fst dkw = map entry_name (filter (fun en => negb (is_list_entry en)) (entries c false ch))
      /\ Forall2 (typed_field_ok table zeros tzs dkw) (spec_no_list c) fs.
Proof. exact from_etree_places_typed_values_l. Qed.
Print Assumptions from_etree_places_typed_values.
