(** C13 obligation over the REGENERATED class table (finite, exhaustive, kernel-evaluated): every concrete class satisfies the
    class condition of the theorem above (exported, unique attribute names, tags that survive case mapping, children named after
    their class, repeated children adjacent and correctly placed in the sequence, ElementList shape) 
    (the rename of MAIL / MFINFO / STOCKINFO included) except TAX1099INT_V100 (recorded finding). *)
From OfxV Require Import Base.Prelude Model.Schema Model.SchemaWf Proofs.RoundTrip3 Proofs.RoundTrip6 Gen.SchemaGen Gen.SchemaS.
Local Open Scope string_scope.
Theorem class_conditions_generated :
  map ci_name (filter (fun c => concrete c && negb (rt_class_okb c)) S) = ["TAX1099INT_V100"]
  /\ (forall c, rt_class_okb c = true -> rt_class_ok c (class_lb c) (class_ub c)).
Proof. split; [vm_compute; reflexivity|exact rt_class_okb_sound_l]. Qed.
Print Assumptions class_conditions_generated.
