(** C13 obligation: the Gallina model of Aggregate._superdict / spec / effective mutexes / list attributes equals what the
    interpreter itself computes, for every Aggregate subclass of the regenerated table. *)
From OfxV Require Import Base.Prelude Model.Schema Gen.SchemaGen Gen.SchemaS.
Theorem spec_model_matches_python : py_mismatches S py_table = [] /\ List.length py_table = List.length (filter (fun c => mem "Aggregate" (ci_mro c) && negb (String.eqb (ci_name c) "Aggregate")) S).
Proof. vm_compute. split; reflexivity. Qed.
Print Assumptions spec_model_matches_python.
