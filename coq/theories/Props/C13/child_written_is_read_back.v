(** C13 obligation (the generic theorem that gives the W-checks their meaning): for EVERY class table and converter pair, every
    child a valid instance holds - element, sub-aggregate or repeated member - is written by to_etree so that from_etree reads
    it back into the same attribute (the whole instance comes back, silently).  Its class-table hypothesis [rt_class_ok] is the
    decidable condition of the next obligation, evaluated on the table regenerated from /repo. *)
From OfxV Require Import Base.Prelude Model.Schema Model.Convert Proofs.RoundTrip3 Proofs.RoundTrip5.
Theorem child_written_is_read_back :
  forall sval (conv : N -> sin sval -> result (option sval)) (unconv : N -> sval -> result text) (S : schema) (i : inst sval),
    valid sval conv unconv S i -> forall e, to_etree sval unconv S i = OK e -> from_etree sval conv S e = OK (i, []).
Proof. exact roundtrip_tree_l. Qed.
Print Assumptions child_written_is_read_back.
