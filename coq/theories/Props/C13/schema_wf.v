(** C13 obligation (finite, exhaustive, kernel-evaluated on the table regenerated from /repo):
    the class table is well-formed: no witness of any W-check outside the recorded findings. *)
From OfxV Require Import Base.Prelude Model.Schema Model.SchemaWf Proofs.SchemaKnown Gen.SchemaGen Gen.SchemaS.
Theorem schema_wf : wf_schema_except S raw_classes known_witnesses = [] /\ translator_complete = true.
Proof. vm_compute. split; reflexivity. Qed.
Print Assumptions schema_wf.
