(** Case format of the C19 correspondence run: one `ofxget stmt|stmtend` invocation (FI database text, user
    file, extractns(parse_args(argv)), the answers DateTime().convert gave for the date texts involved, the
    account-information reply served for --all) and what the IMPLEMENTATION did: the statement requests found
    in the request document (printed by --dryrun or received by the fake server), or an error.
    [acase_ok] runs the model (merge_config of OfxgetCfg, then request_stmt / request_stmtend) and compares. *)
From OfxV Require Import Base.Prelude Base.Digits Base.OfxgetBase Gen.OfxgetGen Model.OfxgetCfg Model.OfxgetAccts.
Local Open Scope N_scope.

Inductive acase :=
  ACase (cmd : N)                      (* 0 = stmt, 1 = stmtend *)
        (fi : text) (user : option text) (cli : amap)
        (conv : dict (result Z))       (* oracle table for DateTime().convert; texts not listed: Reject *)
        (r : reply)
        (exp : result (list docrq)).

Definition oZ_eqb := option_eqb Z.eqb.
Definition otext_eqb := option_eqb text_eqb.
Definition obool_eqb := option_eqb Bool.eqb.
Definition docrq_eqb (a b : docrq) : bool :=
  kind_eqb (o_kind a) (o_kind b) && otext_eqb (o_inst a) (o_inst b) && text_eqb (o_acctid a) (o_acctid b)
  && otext_eqb (o_accttype a) (o_accttype b)
  && option_eqb (fun x y => oZ_eqb (fst (fst x)) (fst (fst y)) && oZ_eqb (snd (fst x)) (snd (fst y)) && Bool.eqb (snd x) (snd y))
                (o_inctran a) (o_inctran b)
  && oZ_eqb (o_dtstart a) (o_dtstart b) && oZ_eqb (o_dtend a) (o_dtend b)
  && obool_eqb (o_incoo a) (o_incoo b)
  && option_eqb (fun x y => oZ_eqb (fst x) (fst y) && Bool.eqb (snd x) (snd y)) (o_incpos a) (o_incpos b)
  && obool_eqb (o_incbal a) (o_incbal b).

Definition conv_of (tbl : dict (result Z)) (s : text) : result Z :=
  match assoc s tbl with Some r => r | None => Err Reject end.

Definition acase_model (c : acase) : result (list docrq) :=
  match c with
  | ACase cmd fi user cli conv r _ =>
    bind (read_files empty_cfg [Some fi; user]) (fun ucfg =>
    bind (merge_config (fun _ => None) cli ucfg) (fun a =>
    if cmd =? 0 then request_stmt (conv_of conv) r a else request_stmtend (conv_of conv) r a))
  end.

Definition acase_ok (c : acase) : bool :=
  match c with
  | ACase _ _ _ _ _ _ exp => result_eqb false (list_eqb docrq_eqb) (acase_model c) exp
  end.
