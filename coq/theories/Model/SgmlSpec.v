(** Specification vocabulary of C02 / C08 (no proofs):
      [forest]       the grammar of properly nested, properly closed event sequences and the trees they denote
                     (data elements and empty aggregates are single events; an aggregate needs the end tag that
                     names it);
      [doc]          OFX message bodies as trees; [wf_doc]: tags over A-Z 0-9 . _, leaf data non-empty, trimmed, free of '<';
      [rdoc]         a document together with ONE choice of wire rendering per node: blanks after every start tag, around
                     data, after every end tag; data elements with or without end tag, data plain or CDATA-wrapped;
      [render]       the text of a rendering; [tok] / [flatten] / [render_tok]: the same text token by token;
      [ok_rendering] the side conditions: every blank string consists of isspace characters, CDATA-wrapped data is
                     free of "]]>", and a data element that is the last child of an aggregate OF THE SAME NAME keeps its
                     end tag (otherwise "<T><T>x</T>" is read by any SGML reader as the data element's end tag). *)
From OfxV Require Import Base.Prelude Base.SgmlBase Model.Sgml.
Local Open Scope N_scope.

Inductive forest : list ev -> list etree -> Prop :=
| f_nil : forest [] []
| f_leaf t x es ts : forest es ts -> forest (ELeaf t x :: es) (Node t (Some x) [] :: ts)
| f_empty t es ts : forest es ts -> forest (EEmpty t :: es) (Node t None [] :: ts)
| f_agg t es1 ch es2 ts : forest es1 ch -> forest es2 ts ->
    forest (EOpen t :: es1 ++ EClose t :: es2) (Node t None ch :: ts).
(** a properly nested single-rooted event sequence *)
Definition nested (es : list ev) (t : etree) : Prop := forest es [t].

(** ------------------------------------------------------------ documents *)
Inductive doc := Agg (t : text) (ch : list doc) | Leaf (t x : text).
Fixpoint tree_of (d : doc) : etree :=
  match d with
  | Agg t ch => Node t None (map tree_of ch)
  | Leaf t x => Node t (Some x) []
  end.

Definition is_ofxch (c : N) : bool :=
  ((65 <=? c) && (c <=? 90)) || ((48 <=? c) && (c <=? 57)) || (c =? 46) || (c =? 95).
Definition wf_tag (t : text) : bool := nonempty t && forallb is_ofxch t.
Definition blank (w : text) : bool := forallb is_space w.
(** non-empty, first and last character not blank: [x.strip() == x != ""] *)
Definition stripped (x : text) : bool :=
  match x with [] => false | c :: _ => negb (is_space c) && negb (is_space (last x 0)) end.
Definition wf_data (x : text) : bool := stripped x && forallb not_lt x.
Fixpoint wf_doc (d : doc) : bool :=
  match d with
  | Agg t ch => wf_tag t && forallb wf_doc ch
  | Leaf t x => wf_tag t && wf_data x
  end.

(** ------------------------------------------------------------ renderings *)
Inductive rdoc :=
| RAgg (t ws1 : text) (ch : list rdoc) (ws2 : text)                      (* <t> ws1 children </t> ws2 *)
| RLeaf (t : text) (cd : bool) (w1 x w2 : text) (closed : bool) (w3 : text).
   (* <t> w1 x w2 [</t>] w3     or     <t> w1 <![CDATA[x]]> w2 [</t>] w3 *)
Fixpoint erase (r : rdoc) : doc :=
  match r with
  | RAgg t _ ch _ => Agg t (map erase ch)
  | RLeaf t _ _ x _ _ _ => Leaf t x
  end.

Inductive tok :=
| TOpen (t ws : text)
| TEmpty (t ws1 ws2 : text)
| TLeaf (t : text) (cd : bool) (w1 x w2 : text) (closed : bool) (w3 : text)
| TClose (t ws : text).
Fixpoint flatten (r : rdoc) : list tok :=
  match r with
  | RLeaf t cd w1 x w2 cl w3 => [TLeaf t cd w1 x w2 cl w3]
  | RAgg t ws1 [] ws2 => [TEmpty t ws1 ws2]
  | RAgg t ws1 ch ws2 => TOpen t ws1 :: (flat_map flatten ch ++ [TClose t ws2])%list
  end.
Definition endtag (t : text) : text := (LT :: SL :: t ++ [GT])%list.
Definition render_tok (k : tok) : text :=
  match k with
  | TOpen t ws => LT :: t ++ GT :: ws
  | TEmpty t w1 w2 => LT :: t ++ GT :: w1 ++ endtag t ++ w2
  | TLeaf t cd w1 x w2 cl w3 =>
    LT :: t ++ GT :: w1 ++ (if cd then CDO ++ x ++ CDC else x) ++ w2 ++ (if cl then endtag t else []) ++ w3
  | TClose t ws => endtag t ++ ws
  end%list.
Definition render_toks (ts : list tok) : text := flat_map render_tok ts.
Definition render (ws0 : text) (r : rdoc) : text := (ws0 ++ render_toks (flatten r))%list.

Fixpoint has_close (s : text) : bool :=
  match s with
  | [] => false
  | _ :: s' => match strip_prefix CDC s with Some _ => true | None => has_close s' end
  end.
Definition open_leaf_named (t : text) (r : rdoc) : bool :=
  match r with RLeaf u _ _ _ _ false _ => text_eqb t u | _ => false end.
Fixpoint rend_ok (r : rdoc) : bool :=
  match r with
  | RLeaf _ cd w1 x w2 _ w3 => blank w1 && blank w2 && blank w3 && (if cd then negb (has_close x) else true)
  | RAgg t ws1 ch ws2 =>
    blank ws1 && blank ws2 && forallb rend_ok ch
    && negb (match rev ch with c :: _ => open_leaf_named t c | [] => false end)
  end.
Definition ok_rendering (ws0 : text) (r : rdoc) (d : doc) : Prop :=
  erase r = d /\ rend_ok r = true /\ blank ws0 = true.

(** ------------------------------------------------------------ tokens: well-formedness, adjacency, expected match *)
Definition tok_wf (k : tok) : bool :=
  match k with
  | TOpen t ws => wf_tag t && blank ws
  | TEmpty t w1 w2 => wf_tag t && blank w1 && blank w2
  | TLeaf t cd w1 x w2 _ w3 =>
    wf_tag t && wf_data x && blank w1 && blank w2 && blank w3 && (if cd then negb (has_close x) else true)
  | TClose t ws => wf_tag t && blank ws
  end.
(** the same shape, but what trails an END TAG may be any '<'-free text (stray text when it is not blank) *)
Definition tok_shape (k : tok) : bool :=
  match k with
  | TOpen t ws => wf_tag t && blank ws
  | TEmpty t w1 j => wf_tag t && blank w1 && forallb not_lt j
  | TLeaf t cd w1 x w2 cl w3 =>
    wf_tag t && wf_data x && blank w1 && blank w2 && (if cl then forallb not_lt w3 else blank w3)
    && (if cd then negb (has_close x) else true)
  | TClose t j => wf_tag t && forallb not_lt j
  end.
(** non-blank text directly after an end tag *)
Definition stray_text (k : tok) : bool :=
  match k with
  | TClose _ j | TEmpty _ _ j | TLeaf _ _ _ _ _ true j => negb (blank j)
  | _ => false
  end.
(** after a start tag or a data element without end tag, the end tag of the same name would be read as ITS end tag *)
Definition adj (a b : tok) : bool :=
  match a, b with
  | TOpen t _, TClose u _ => negb (text_eqb t u)
  | TLeaf t _ _ _ _ false _, TClose u _ => negb (text_eqb t u)
  | _, _ => true
  end.
Fixpoint chain_ok (ts : list tok) : bool :=
  match ts with
  | a :: (b :: _) as r => adj a b && chain_ok r
  | _ => true
  end.
Definition match_of (k : tok) : rawmatch :=
  match k with
  | TOpen t ws => {| m_tag := t; m_cdata := []; m_text := ws; m_closed := false; m_tail := [] |}
  | TEmpty t w1 w2 => {| m_tag := t; m_cdata := []; m_text := w1; m_closed := true; m_tail := w2 |}
  | TLeaf t false w1 x w2 true w3 =>
    {| m_tag := t; m_cdata := []; m_text := (w1 ++ x ++ w2)%list; m_closed := true; m_tail := w3 |}
  | TLeaf t false w1 x w2 false w3 =>
    {| m_tag := t; m_cdata := []; m_text := (w1 ++ x ++ w2 ++ w3)%list; m_closed := false; m_tail := [] |}
  | TLeaf t true w1 x w2 true w3 => {| m_tag := t; m_cdata := x; m_text := []; m_closed := true; m_tail := w3 |}
  | TLeaf t true w1 x w2 false w3 => {| m_tag := t; m_cdata := x; m_text := []; m_closed := false; m_tail := [] |}
  | TClose t ws => {| m_tag := SL :: t; m_cdata := []; m_text := ws; m_closed := false; m_tail := [] |}
  end.
Definition ev_of_tok (k : tok) : ev :=
  match k with
  | TOpen t _ => EOpen t
  | TEmpty t _ _ => EEmpty t
  | TLeaf t _ _ x _ _ _ => ELeaf t x
  | TClose t _ => EClose t
  end.
