(** Generic model of ofxtools/models/base.py, parametric in the class table (Model/Schema.v) and in the
    element converters (section variables [conv] / [unconv]: the scalar types are the subject of C09/C10):
      construct   = Aggregate.__init__  (validate_args incl. the per-class hooks, the setattr loop through the
                    converters, SubAggregate.convert's isinstance test over the MRO, Unsupported.__set__ discarding,
                    _apply_args for plain aggregates and for ElementList, _apply_residual_kwargs)       base.py:91-196, 565-570
      from_etree  = Aggregate.from_etree / _convert / groom (+ the MAIL/MFINFO/STOCKINFO renames)       base.py:198-331
      to_etree    = Aggregate.to_etree / _listAppend / ungroom                                           base.py:333-380, 572-578
    Warnings (UnknownTagWarning) are an output of from_etree.   Definitions only. *)
From OfxV Require Import Base.Prelude Model.Schema.
Local Open Scope string_scope.

(** xml.etree element without attributes and tails: tag, text, children *)
Inductive etree := Node (tag : string) (txt : option text) (ch : list etree).
Definition etag (e : etree) : string := match e with Node t _ _ => t end.
Definition etext (e : etree) : option text := match e with Node _ x _ => x end.
Definition echildren (e : etree) : list etree := match e with Node _ _ c => c end.
(** truthiness of elem.text *)
Definition text_truthy (x : option text) : bool := match x with Some (_ :: _) => true | _ => false end.

Section Conv.
  (** scalar Python values (bool, int, str, Decimal, datetime, time) are opaque here *)
  Variable sval : Type.
  (** what a converter is given: a str, or an already-native value *)
  Inductive sin := SText (s : text) | SNat (v : sval).
  (** Element.convert for a non-None input: OK None models "" -> None; the [required] flag is part of the type id *)
  Variable conv : N -> sin -> result (option sval).
  (** Element.unconvert for a non-None value *)
  Variable unconv : N -> sval -> result text.

  Inductive inst := Inst (cls : string) (fields : list (string * fval)) (members : list member)
  with fval := FNone | FVal (v : sval) | FSub (i : inst)
  with member := MAgg (i : inst) | MStr (s : text) | MVal (v : option sval).

  Definition icls (i : inst) : string := match i with Inst c _ _ => c end.
  Definition ifields (i : inst) := match i with Inst _ f _ => f end.
  Definition imembers (i : inst) := match i with Inst _ _ m => m end.

  (** a keyword / positional argument value as the constructor sees it *)
  Inductive kwval := KNone | KText (s : text) | KNat (v : sval) | KInst (i : inst).

  (** bool(value) as the hooks use it: Aggregate subclasses list, so an instance without members is falsy;
      native scalars are taken as truthy (they only reach hooks on string fields, where the converter rejects them anyway) *)
  Definition truthy (v : option kwval) : bool :=
    match v with
    | None | Some KNone => false
    | Some (KText s) => match s with [] => false | _ => true end
    | Some (KNat _) => true
    | Some (KInst i) => match imembers i with [] => false | _ => true end
    end.
  Definition arg_clsname (a : kwval) : string :=
    match a with KInst i => icls i | KText _ => "str" | KNat _ => "<native>" | KNone => "NoneType" end.
  Definition kw_has (kw : list (string * kwval)) (k : string) : bool := mem k (map fst kw).
  (** kwargs.get(m) not in (None, ""): a group member given as the empty string is absent (it converts to None), since the repair
      "fix: an empty string does not count as a member of a mutex group" *)
  Definition kw_notnone (kw : list (string * kwval)) (k : string) : bool :=
    match assoc k kw with None | Some KNone | Some (KText []) => false | Some _ => true end.

  Definition last_n (n : nat) (s : string) : string :=
    let l := String.length s in substring (l - n) n s.
  Definition all_equal (l : list string) : bool :=
    match l with [] => true | x :: t => forallb (String.eqb x) t end.
  Fixpoint has_dup (l : list string) : bool :=
    match l with [] => false | x :: t => mem x t || has_dup t end.
  Definition starts_with (p s : string) : bool := String.eqb (substring 0 (String.length p) s) p.

  (** the sixteen validate_args overrides; true = passes *)
  Definition run_hook (h : hook_id) (args : list kwval) (kw : list (string * kwval)) : bool :=
    match h with
    | HAtLeastOne => match args with [] => false | _ => true end
    | HAcctInfo => match args with [] => false | _ => negb (has_dup (map arg_clsname args)) end
    | HTax1099Rs => existsb (fun a => starts_with "TAX1099" (arg_clsname a)) args
    | HExtdPmt => mem "EXTDPMTINV" (map arg_clsname args) || kw_has kw "extdpmtdsc"
    | HExtdPayee => if truthy (assoc "payeeid" kw) then truthy (assoc "idscope" kw) && truthy (assoc "name" kw) else true
    | HSonRq =>
      let u := truthy (assoc "userid" kw) in let p := truthy (assoc "userpass" kw) in let k := truthy (assoc "userkey" kw) in
      ((u && p) || k) && negb ((u || p) && k)
    | HContribSecurity =>
      all_equal (map (last_n 3) (filter (fun k => negb (String.eqb k "secid")) (map fst kw)))
      && Nat.leb 2 (List.length kw)
    | HTax1099R =>
      if kw_has kw "irasepsimp" then true
      else negb (existsb (kw_has kw) ["grossdist"; "taxamt"; "fedtaxwh"; "sttaxwh"; "lcltaxwh"])
    | HTax1099Misc => negb (kw_has kw "STTAXWH" && negb (kw_has kw "PAYERSTATE"))
    | HOfx => all_equal (map (last_n 7) (map fst kw))
    end.

  Definition count_present (kw : list (string * kwval)) (g : list string) : nat :=
    List.length (filter (kw_notnone kw) g).

  Section WithSchema.
    Variable S : schema.

    Definition isinstance (i : inst) (target : string) : bool :=
      match find_cls S (icls i) with Some c => mem target (ci_mro c) | None => false end.

    (** one attribute of the setattr loop: value taken from kwargs (popped), converted *)
    Definition set_field (kw : list (string * kwval)) (ka : string * attr) : result (string * fval) :=
      let (k, a) := ka in
      let v := match assoc k kw with Some v => v | None => KNone end in
      match a with
      | AUnsupported => OK (k, FNone)
      | ASub target req =>
        match v with
        | KNone => if req then Err Reject else OK (k, FNone)
        | KInst i => if isinstance i target then OK (k, FSub i) else Err Reject
        | _ => Err Reject
        end
      | AElem t req =>
        match v with
        | KNone => if req then Err Reject else OK (k, FNone)
        | KInst _ => Err Reject
        | KText s => match conv t (SText s) with OK (Some x) => OK (k, FVal x) | OK None => OK (k, FNone) | Err e => Err e end
        | KNat x => match conv t (SNat x) with OK (Some y) => OK (k, FVal y) | OK None => OK (k, FNone) | Err e => Err e end
        end
      | _ => Err Crash   (* list attributes are filtered out before *)
      end.

    Fixpoint set_fields (kw : list (string * kwval)) (sp : list (string * attr)) : result (list (string * fval)) :=
      match sp with
      | [] => OK []
      | ka :: t => bind (set_field kw ka) (fun f => bind (set_fields kw t) (fun r => OK (f :: r)))
      end.

    (** Aggregate._apply_args: membership by lower-cased class name; anything that is not an Aggregate is refused
        (list elements belong to ElementList, which overrides the method) *)
    Definition apply_arg_plain (c : cinfo) (a : kwval) : result member :=
      match a with
      | KInst i => if mem (lower (icls i)) (listaggregates c) then OK (MAgg i) else Err Reject
      | _ => Err Reject
      end.
    (** ElementList._apply_args: converter.convert(member) *)
    Definition apply_arg_elist (t : N) (a : kwval) : result member :=
      match a with
      | KNone => Err Reject        (* converter.convert(None): ListElement converters are not required -> None; kept out of the domain *)
      | KInst _ => Err Reject
      | KText s => rmap MVal (conv t (SText s))
      | KNat x => rmap MVal (conv t (SNat x))
      end.
    Fixpoint map_res {A B} (f : A -> result B) (l : list A) : result (list B) :=
      match l with [] => OK [] | x :: t => bind (f x) (fun y => bind (map_res f t) (fun r => OK (y :: r))) end.

    Definition apply_args (c : cinfo) (args : list kwval) : result (list member) :=
      if ci_elist c then
        match filter (fun ka => is_listelem (snd ka)) (ci_spec c) with
        | [(_, AListElem t)] => map_res (apply_arg_elist t) args
        | _ => Err Crash                                   (* assert len(self.listaggregates) == 1 *)
        end
      else map_res (apply_arg_plain c) args.

    (** Aggregate.__init__ *)
    Definition construct (cn : string) (args : list kwval) (kw : list (string * kwval)) : result inst :=
      match find_cls S cn with
      | None => Err Crash
      | Some c =>
        if negb (match ci_hook c with Some h => run_hook h args kw | None => true end) then Err Reject
        else if negb (forallb (fun g => Nat.leb (count_present kw g) 1) (ci_optmx c)) then Err Reject
        else if negb (forallb (fun g => Nat.eqb (count_present kw g) 1) (ci_reqmx c)) then Err Reject
        else
          bind (set_fields kw (spec_no_list c)) (fun fields =>
          bind (apply_args c args) (fun members =>
          (* _apply_residual_kwargs: every keyword must have been consumed *)
          if forallb (fun k => mem k (map fst (spec_no_list c))) (map fst kw) then OK (Inst cn fields members)
          else Err Reject))
      end.

    (** ungroom renames the first child carrying the python tag back to the wire tag (to_etree emits it once) *)
    Fixpoint rename_first (src dst : string) (ch : list etree) : list etree :=
      match ch with
      | [] => []
      | Node t x c :: r => if String.eqb t src then Node dst x c :: r else Node t x c :: rename_first src dst r
      end.
    (** accumulator of functools.reduce: args and kwargs (both reversed), previous index + 1, previous is list member,
        warnings (reversed); plus [renamed]: some child carrying the wire tag has been met.
        groom is applied on the fly (so that the recursion stays structural on the children): a child whose tag contains
        '.' is skipped, EVERY child tagged with the wire name is read under the python name (groom renames all of them, as its
        docstring says, since the repair "fix: groom renames every YIELD / FROM child": a second one is then a repeated
        non-repeatable child and the document is rejected). *)
    Definition acc := (list kwval * list (string * kwval) * nat * bool * list string * bool)%type.
    Definition acc0 : acc := ([], [], 0%nat, false, [], false).

    Definition groomed_tag (c : cinfo) (renamed : bool) (t : string) : string * bool :=
      match ci_rename c with
      | Some (wire, py) => if String.eqb t wire then (py, true) else (t, renamed)
      | None => (t, renamed)
      end.

    Definition step (fe : etree -> result (inst * list string)) (c : cinfo) (st : result acc) (e : etree) : result acc :=
      match st with
      | Err k => Err k
      | OK (args, kw, prev1, prevl, ws, renamed) =>
        let (tag, renamed') := groomed_tag c renamed (etag e) in
        if has_dot tag then OK (args, kw, prev1, prevl, ws, renamed')
        else
        let a := lower tag in
        match index_of a (map fst (ci_spec c)), assoc a (ci_spec c) with
        | Some idx, Some at_ =>
          let isl := is_list_attr at_ in
          if (Nat.ltb idx prev1 && negb (isl && prevl))%bool then Err Reject          (* index <= prev_index *)
          else
            let rv : result (kwval * list string) :=
              if is_unsup at_ then OK (KNone, [])
              else if text_truthy (etext e) then OK (match etext e with Some s => KText s | None => KNone end, [])
              else if negb (String.eqb tag (etag e)) then Err Reject   (* renamed child without data: the python tag names no class (W-rename) *)
              else match fe e with OK (i, w) => OK (KInst i, w) | Err k => Err k end in
            match rv with
            | Err k => Err k
            | OK (v, w) =>
              if isl then OK (v :: args, kw, Datatypes.S idx, true, (rev w ++ ws)%list, renamed')
              else if kw_has kw a then Err Reject
              else OK (args, (a, v) :: kw, Datatypes.S idx, false, (rev w ++ ws)%list, renamed')
            end
        | _, _ => OK (args, kw, prev1, prevl, tag :: ws, renamed')                     (* UnknownTagWarning, accumulator unchanged *)
        end
      end.

    Fixpoint from_etree (e : etree) : result (inst * list string) :=
      match e with
      | Node tag _ ch =>
        match lookup_tag S tag with
        | None => Err Reject                                   (* OFXSpecError: ofxtools.models doesn't define tag *)
        | Some c =>
          match fold_left (step from_etree c) ch (OK acc0) with
          | Err k => Err k
          | OK (args, kw, _, _, ws, _) => rmap (fun i => (i, rev ws)) (construct tag (rev args) (rev kw))
          end
        end
      end.

    (** ungroom: rename the first child carrying the python tag back to the wire tag *)
    Definition ungroom (c : cinfo) (ch : list etree) : list etree :=
      match ci_rename c with Some (wire, py) => rename_first py wire ch | None => ch end.

    Definition lookup_field (fs : list (string * fval)) (k : string) : fval :=
      match assoc k fs with Some v => v | None => FNone end.

    (** number of non-list attributes standing before the first list attribute (None: the class has no list attribute,
        and then members are never written) *)
    Fixpoint split_at (sp : list (string * attr)) : option nat :=
      match sp with
      | [] => None
      | (_, a) :: t => if is_list_attr a then Some 0%nat else option_map Datatypes.S (split_at t)
      end.
    Definition the_listelem (c : cinfo) : option (string * N) :=
      match filter (fun ka => is_listelem (snd ka)) (ci_spec c) with
      | [(k, AListElem t)] => Some (k, t)
      | _ => None
      end.
    Definition leaf (k : string) (t : N) (x : sval) : result (list etree) :=
      rmap (fun s => [Node (upper k) (Some s) []]) (unconv t x).

    (** Aggregate.to_etree.  All list members are written where the first list attribute stands (the HACK of
        base.py:341-351); fields are stored in spec_no_list order by [construct], and are walked in that order. *)
    Fixpoint to_etree (i : inst) : result etree :=
      match i with
      | Inst cn fs ms =>
        match find_cls S cn with
        | None => Err Crash
        | Some c =>
          let member_tree := fun (m : member) =>
            match m with
            | MAgg j => if ci_elist c then Err Crash else rmap (fun e => [e]) (to_etree j)
            | MVal (Some v) => match (if ci_elist c then the_listelem c else None) with Some (k, t) => leaf k t v | None => Err Crash end
            | _ => Err Crash
            end in
          let mems := fix mems (l : list member) : result (list etree) :=
            match l with [] => OK [] | m :: t => bind (member_tree m) (fun e => bind (mems t) (fun r => OK (e ++ r)%list)) end in
          let item := fun (p : string * fval) =>
            match p with
            | (k, FNone) => OK []
            | (k, FSub j) => rmap (fun e => [e]) (to_etree j)
            | (k, FVal x) => match assoc k (ci_spec c) with Some (AElem t _) => leaf k t x | _ => Err Crash end
            end in
          let rest := fix rest (l : list (string * fval)) : result (list etree) :=
            match l with [] => OK [] | p :: t => bind (item p) (fun e => bind (rest t) (fun r => OK (e ++ r)%list)) end in
          let emit := fix emit (l : list (string * fval)) (k : option nat) {struct l} : result (list etree) :=
            match l with
            | [] => match k with Some _ => mems ms | None => OK [] end
            | p :: t =>
              match k with
              | Some O => bind (mems ms) (fun m => bind (item p) (fun e => bind (rest t) (fun r => OK (m ++ e ++ r)%list)))
              | Some (Datatypes.S k') => bind (item p) (fun e => bind (emit t (Some k')) (fun r => OK (e ++ r)%list))
              | None => bind (item p) (fun e => bind (emit t None) (fun r => OK (e ++ r)%list))
              end
            end in
          rmap (fun ch => Node cn None (ungroom c ch)) (emit fs (split_at (ci_spec c)))
        end
      end.
  End WithSchema.
End Conv.
