(** C16: the explicit PATH WALKS the shortcuts are compared with, the (boolean) side conditions under which the theorems of
    Proofs/LookupShortcuts.v hold (every attribute the walk reads is a stored spec attribute: what __init__ guarantees;
    evaluated on every real instance by the correspondence run), and the table of shortcuts AS SPECIFIED (written by hand from
    the property text / DESIGN.md, C16) that the regenerated descriptors of Gen/LookupGen.v must equal.   Definitions only. *)
From OfxV Require Import Base.Prelude Model.Schema Model.Convert Model.Shortcuts Model.Lookup.
Local Open Scope string_scope.

Section Walk.
  Variable sval : Type.
  Variable S : schema.
  Variable tb : ltab.
  Notation inst := (inst sval).
  Notation fval := (fval sval).
  Notation member := (member sval).

  (** a is a spec attribute of w's class (not Unsupported) and w's dictionary holds it *)
  Definition stored_b (w : inst) (a : string) : bool :=
    match find_cls S (icls sval w) with
    | Some c => match assoc a (ci_spec c) with
                | Some AUnsupported | None => false
                | Some _ => match assoc a (ifields sval w) with Some _ => true | None => false end
                end
    | None => false
    end.
  (** name n is not a spec attribute of class cn and resolves at class level to kind k *)
  Definition class_level_b (cn n : string) (k : ckind -> bool) : bool :=
    match find_cls S cn with
    | Some c => match assoc n (ci_spec c) with
                | Some _ => false
                | None => match class_attr tb cn n with Some x => k x | None => false end
                end
    | None => false
    end.

  (** ---- message sets: the statement (or closing statement) of every wrapper that has one, in document order ---- *)
  Definition wrapped_of (tests : list (string * string)) (m : member) : list inst :=
    match m with
    | MAgg _ w => match first_test sval S tests w with
                  | Some (_, a) => match assoc a (ifields sval w) with Some (FSub _ x) => [x] | _ => [] end
                  | None => []
                  end
    | _ => []
    end.
  Definition walk_members (tests : list (string * string)) (ms : list member) : list inst := flat_map (wrapped_of tests) ms.

  Definition member_ok_b (st : list string) (ea : bool) (tests : list (string * string)) (m : member) : bool :=
    match m with
    | MAgg _ w => match first_test sval S tests w with
                  | None => negb ea
                  | Some (_, a) => stored_b w a && match assoc a (ifields sval w) with Some (FVal _ _) => false | _ => true end
                                   && forallb (stored_b w) st
                  end
    | _ => negb ea
    end.
  Definition wrapped_desc (cn n : string) : option (list string * bool * list (string * string)) :=
    match class_attr tb cn n with Some (KShortcut (SCWrapped st ea tests)) => Some (st, ea, tests) | _ => None end.
  Definition wrapped_ok_b (n : string) (j : inst) : bool :=
    class_level_b (icls sval j) n (fun _ => true)
    && match wrapped_desc (icls sval j) n with
       | Some (st, ea, tests) => forallb (member_ok_b st ea tests) (imembers sval j)
       | None => false
       end.
  Definition walk_of (n : string) (j : inst) : list inst :=
    match wrapped_desc (icls sval j) n with Some (_, _, tests) => walk_members tests (imembers sval j) | None => [] end.

  (** ---- OFX.statements: the message sets named by the descriptor, in its order ---- *)
  Definition concat_desc (cn n : string) : option (list string * string) :=
    match class_attr tb cn n with Some (KShortcut (SCConcat attrs n')) => Some (attrs, n') | _ => None end.
  Definition concat_field_ok_b (n' : string) (i : inst) (a : string) : bool :=
    stored_b i a && match assoc a (ifields sval i) with
                    | Some (FNone _) => true
                    | Some (FSub _ j) => wrapped_ok_b n' j
                    | _ => false
                    end.
  Definition concat_ok_b (n : string) (i : inst) : bool :=
    class_level_b (icls sval i) n (fun _ => true)
    && match concat_desc (icls sval i) n with
       | Some (attrs, n') => forallb (concat_field_ok_b n' i) attrs
       | None => false
       end.
  Definition concat_walk (n : string) (i : inst) : list inst :=
    match concat_desc (icls sval i) n with
    | Some (attrs, n') => flat_map (fun a => match assoc a (ifields sval i) with Some (FSub _ j) => walk_of n' j | _ => [] end) attrs
    | None => []
    end.

  (** ---- securities: the members of every SECLIST, in document order ---- *)
  Definition sec_members (A : string) (ms : list member) : list (pyobj sval) :=
    flat_map (fun m => match m with
                       | MAgg _ w => if isinstance sval S w A then map (obj_of_member sval) (imembers sval w) else []
                       | _ => [] end) ms.
  Definition members_desc (cn n : string) : option string :=
    match class_attr tb cn n with Some (KShortcut (SCMembersOf A)) => Some A | _ => None end.
  Definition sec_of (n : string) (j : inst) : list (pyobj sval) :=
    match members_desc (icls sval j) n with Some A => sec_members A (imembers sval j) | None => [] end.
  Definition truthy_desc (cn n : string) : option (string * string) :=
    match class_attr tb cn n with Some (KShortcut (SCTruthyVia a n')) => Some (a, n') | _ => None end.
  Definition truthy_ok_b (n : string) (i : inst) : bool :=
    class_level_b (icls sval i) n (fun _ => true)
    && match truthy_desc (icls sval i) n with
       | Some (a, n') => stored_b i a && match assoc a (ifields sval i) with
                                         | Some (FNone _) => true
                                         | Some (FSub _ j) => class_level_b (icls sval j) n' (fun k => match k with KShortcut (SCMembersOf _) => true | _ => false end)
                                         | _ => false
                                         end
       | None => false
       end.
  Definition truthy_walk (n : string) (i : inst) : list (pyobj sval) :=
    match truthy_desc (icls sval i) n with
    | Some (a, n') => match assoc a (ifields sval i) with Some (FSub _ j) => sec_of n' j | _ => [] end
    | None => []
    end.
End Walk.

(** ---- the shortcuts as specified (property text; DESIGN.md, C16): what Gen/LookupGen.class_extra must be ---- *)
Definition staple_spec : list string := ["trnuid"; "cltcookie"].
Definition cur3 : list (string * ckind) :=
  [ ("currate", KShortcut (SCCur "currency" "origcurrency" (Some "currate")));
    ("cursym", KShortcut (SCCur "currency" "origcurrency" (Some "cursym")));
    ("curtype", KShortcut (SCCur "currency" "origcurrency" None)) ].
Definition stmt_msgsets : list string :=
  ["bankmsgsrqv1"; "creditcardmsgsrqv1"; "invstmtmsgsrqv1"; "bankmsgsrsv1"; "creditcardmsgsrsv1"; "invstmtmsgsrsv1"].
Definition shortcuts_spec : list (string * list (string * ckind)) :=
  [ ("STMTTRNRS", [("statement", KShortcut (SCAlias "stmtrs"))]);
    ("CCSTMTTRNRS", [("statement", KShortcut (SCAlias "ccstmtrs"))]);
    ("CCSTMTENDTRNRS", [("statement", KShortcut (SCAlias "ccstmtendrs"))]);
    ("INVSTMTTRNRS", [("statement", KShortcut (SCAlias "invstmtrs"))]);
    ("PROFTRNRS", [("profile", KShortcut (SCAlias "profrs"))]);
    ("SONRS", [("fid", KShortcut (SCVia "fi" "fid")); ("org", KShortcut (SCVia "fi" "org"))]);
    ("STMTTRN", cur3);
    ("STMTRS", [("account", KShortcut (SCAlias "bankacctfrom")); ("balance", KShortcut (SCAlias "ledgerbal")); ("transactions", KShortcut (SCAlias "banktranlist"))]);
    ("CCSTMTRS", [("account", KShortcut (SCAlias "ccacctfrom")); ("balance", KShortcut (SCAlias "ledgerbal")); ("transactions", KShortcut (SCAlias "banktranlist"))]);
    ("CLOSING", cur3); ("STPCHKNUM", cur3);
    ("BANKMSGSRQV1", [("statements", KShortcut (SCWrapped [] false [("STMTTRNRQ", "stmtrq"); ("STMTENDTRNRQ", "stmtendrq")]))]);
    ("BANKMSGSRSV1", [("statements", KShortcut (SCWrapped staple_spec false [("STMTTRNRS", "stmtrs"); ("STMTENDTRNRS", "stmtendrs")]))]);
    ("CREDITCARDMSGSRQV1", [("statements", KShortcut (SCWrapped [] false [("CCSTMTTRNRQ", "ccstmtrq"); ("CCSTMTENDTRNRQ", "ccstmtendrq")]))]);
    ("CREDITCARDMSGSRSV1", [("statements", KShortcut (SCWrapped staple_spec true [("CCSTMTTRNRS", "ccstmtrs"); ("CCSTMTENDTRNRS", "ccstmtendrs")]))]);
    ("INVBUY", cur3); ("INVSELL", cur3); ("INCOME", cur3); ("INVEXPENSE", cur3); ("MARGININTEREST", cur3); ("REINVEST", cur3);
    ("RETOFCAP", cur3); ("SPLIT", cur3);
    ("INVSTMTRS", [("account", KShortcut (SCAlias "invacctfrom")); ("balances", KShortcut (SCAlias "invbal"));
                   ("positions", KShortcut (SCAlias "invposlist")); ("transactions", KShortcut (SCAlias "invtranlist"))]);
    ("INVSTMTMSGSRQV1", [("statements", KShortcut (SCWrapped [] false [("INVSTMTTRNRQ", "invstmtrq")]))]);
    ("INVSTMTMSGSRSV1", [("statements", KShortcut (SCWrapped staple_spec false [("INVSTMTTRNRS", "invstmtrs")]))]);
    ("SECLISTMSGSRSV1", [("securities", KShortcut (SCMembersOf "SECLIST"))]);
    ("OFX", [("securities", KShortcut (SCTruthyVia "seclistmsgsrsv1" "securities"));
             ("signon", KShortcut (SCSignon "signonmsgsrqv1" "sonrq" "signonmsgsrsv1" "sonrs"));
             ("statements", KShortcut (SCConcat stmt_msgsets "statements"))]) ].

(** decidable equality of the tables *)
Definition opt_str_eqb (a b : option string) : bool := option_eqb String.eqb a b.
Definition shortcut_eqb (a b : shortcut) : bool :=
  match a, b with
  | SCAlias x, SCAlias y => String.eqb x y
  | SCVia x1 x2, SCVia y1 y2 => String.eqb x1 y1 && String.eqb x2 y2
  | SCCur x1 x2 w, SCCur y1 y2 w' => String.eqb x1 y1 && String.eqb x2 y2 && opt_str_eqb w w'
  | SCSignon a1 a2 a3 a4, SCSignon b1 b2 b3 b4 => String.eqb a1 b1 && String.eqb a2 b2 && String.eqb a3 b3 && String.eqb a4 b4
  | SCTruthyVia x1 x2, SCTruthyVia y1 y2 => String.eqb x1 y1 && String.eqb x2 y2
  | SCConcat l n, SCConcat l' n' => strs_eqb l l' && String.eqb n n'
  | SCWrapped st ea t, SCWrapped st' ea' t' => strs_eqb st st' && Bool.eqb ea ea' && list_eqb (pair_eqb String.eqb String.eqb) t t'
  | SCMembersOf x, SCMembersOf y => String.eqb x y
  | _, _ => false
  end.
Definition ckind_eqb (a b : ckind) : bool :=
  match a, b with KShortcut x, KShortcut y => shortcut_eqb x y | KOther, KOther => true | _, _ => false end.
Definition extra_eqb (a b : list (string * list (string * ckind))) : bool :=
  list_eqb (pair_eqb String.eqb (list_eqb (pair_eqb String.eqb ckind_eqb))) a b.

(** the reads a shortcut makes through `self.` are non-list spec attributes of the class carrying it (so that they are
    descriptor reads, [own_get]); checked on the regenerated tables *)
Definition self_reads (sc : shortcut) : list string :=
  match sc with
  | SCAlias a | SCVia a _ | SCTruthyVia a _ => [a]
  | SCCur a1 a2 _ => [a1; a2]
  | SCSignon a1 _ a2 _ => [a1; a2]
  | SCConcat attrs _ => attrs
  | _ => []
  end.
Definition reads_ok (S : schema) (extra : list (string * list (string * ckind))) : bool :=
  forallb (fun ce =>
    match find_cls S (fst ce) with
    | None => false
    | Some c => forallb (fun nk =>
        negb (mem (fst nk) (map fst (ci_spec c)))
        && match snd nk with
           | KShortcut sc => forallb (fun a => match assoc a (ci_spec c) with
                                               | Some (AElem _ _) | Some (ASub _ _) | Some AUnsupported => true
                                               | _ => false end) (self_reads sc)
           | KOther => true
           end) (snd ce)
    end) extra.
