(** Vocabulary of the C12 / C05 statements (executable definitions only): what the property calls a valid header
    (the OFX specification's own tables, NOT the library's generated ones: a token dropped from a validator breaks a
    proof instead of weakening a statement), the UID alphabet, and the file layouts the library tolerates. *)
From OfxV Require Import Base.Prelude Base.Digits Gen.HeaderGen Model.Header.
Local Open Scope N_scope.

(** the UID alphabet of the property: [A-Za-z0-9_-] *)
Definition uidc (c : N) : bool :=
  ((48 <=? c) && (c <=? 57)) || ((65 <=? c) && (c <=? 90)) || ((97 <=? c) && (c <=? 122)) || (c =? 95) || (c =? 45).
(** ASCII whitespace the layouts are made of: space, tab, CR, LF *)
Definition wsc (c : N) : bool := (c =? 32) || (c =? 9) || (c =? 13) || (c =? 10).
(** the same without LF (inside a physical line) *)
Definition blankc (c : N) : bool := (c =? 32) || (c =? 9) || (c =? 13).
Definition uid_ok (u : text) : bool := forallb uidc u && negb (len u =? 0) && (len u <=? 36).

Definition mem_text (t : text) (l : list text) : bool := existsb (text_eqb t) l.
Definition spec_security : list text := [T "NONE"; T "TYPE1"].
Definition spec_encoding : list text := [T "USASCII"; T "UNICODE"; T "UTF-8"].
Definition spec_charset : list text := [T "ISO-8859-1"; T "1252"; T "NONE"].
Definition spec_v2_versions : list Z := [200; 201; 202; 203; 210; 211; 220]%Z.

(** a valid version-1 header: the fixed tokens, a version of at most three digits, the UIDs over the alphabet *)
Definition valid1 (h : hdr1) : bool :=
  (h1_ofxheader h =? 100)%Z && text_eqb (h1_data h) (T "OFXSGML")
  && (0 <=? h1_version h)%Z && (h1_version h <? 1000)%Z
  && mem_text (h1_security h) spec_security && mem_text (h1_encoding h) spec_encoding
  && mem_text (h1_charset h) spec_charset && text_eqb (h1_compression h) (T "NONE")
  && uid_ok (h1_old h) && uid_ok (h1_new h).
Definition valid2 (h : hdr2) : bool :=
  (h2_ofxheader h =? 200)%Z && existsb (Z.eqb (h2_version h)) spec_v2_versions
  && mem_text (h2_security h) spec_security && uid_ok (h2_old h) && uid_ok (h2_new h).

(** * version-1 file layouts *)
(** NAME ":" blanks value *)
Definition fld (name w v : text) : text := name ++ 58 :: w ++ v.
Record lay1 := Lay1 {
  l_lines : list text;           (* leading blank lines (each without its LF) *)
  l_indent : text;               (* blanks before OFXHEADER on its line *)
  l_w1 : text; l_w2 : text; l_w3 : text; l_w4 : text; l_w5 : text; l_w6 : text; l_w7 : text; l_w8 : text; l_w9 : text;   (* after each colon *)
  l_s1 : text; l_s2 : text; l_s3 : text; l_s4 : text; l_s5 : text; l_s6 : text; l_s7 : text; l_s8 : text;               (* between fields *)
  l_comp : bool;                 (* COMPRESSION field present *)
  l_gap : text                   (* between the NEWFILEUID value and the body *)
}.
Definition lead_text (ls : list text) : text := List.concat (map (fun x => x ++ [10]) ls).
Definition v1_tail_text (l : lay1) (h : hdr1) : text :=
  fld (T "OLDFILEUID") (l_w8 l) (h1_old h) ++ l_s8 l ++ fld (T "NEWFILEUID") (l_w9 l) (h1_new h).
Definition v1_ctail_text (l : lay1) (h : hdr1) : text :=
  if l_comp l then fld (T "COMPRESSION") (l_w7 l) (h1_compression h) ++ l_s7 l ++ v1_tail_text l h else v1_tail_text l h.
(** from OFXHEADER to the last character of the NEWFILEUID value *)
Definition hdr_fields (l : lay1) (h : hdr1) : text :=
  fld (T "OFXHEADER") (l_w1 l) (dec_of_Z (h1_ofxheader h)) ++ l_s1 l ++
  fld (T "DATA") (l_w2 l) (h1_data h) ++ l_s2 l ++
  fld (T "VERSION") (l_w3 l) (dec_of_Z (h1_version h)) ++ l_s3 l ++
  fld (T "SECURITY") (l_w4 l) (h1_security h) ++ l_s4 l ++
  fld (T "ENCODING") (l_w5 l) (h1_encoding h) ++ l_s5 l ++
  fld (T "CHARSET") (l_w6 l) (h1_charset h) ++ l_s6 l ++ v1_ctail_text l h.
Definition hdr_text (l : lay1) (h : hdr1) : text := l_indent l ++ hdr_fields l h.
(** the bytes of a version-1 file: the header is ASCII, the body is given encoded *)
Definition file1 (l : lay1) (h : hdr1) (encbody : text) : text :=
  lead_text (l_lines l) ++ hdr_text l h ++ l_gap l ++ encbody.

Definition count_lf (s : text) : nat := List.length (filter (N.eqb 10) s).
Definition all_ws (s : text) : bool := forallb wsc s.
Definition all_blank (s : text) : bool := forallb blankc s.
(** the tolerated layouts: at most seven leading blank lines (the scanner gives up after eight); whitespace only
    after colons, between fields and before the body; the header within the nine physical lines the scanner reads *)
Definition lay1_ok (l : lay1) (h : hdr1) : bool :=
  (List.length (l_lines l) <=? 7)%nat && forallb all_blank (l_lines l) && all_blank (l_indent l)
  && all_ws (l_w1 l) && all_ws (l_w2 l) && all_ws (l_w3 l) && all_ws (l_w4 l) && all_ws (l_w5 l) && all_ws (l_w6 l)
  && all_ws (l_w7 l) && all_ws (l_w8 l) && all_ws (l_w9 l)
  && all_ws (l_s1 l) && all_ws (l_s2 l) && all_ws (l_s3 l) && all_ws (l_s4 l) && all_ws (l_s5 l) && all_ws (l_s6 l)
  && all_ws (l_s7 l) && all_ws (l_s8 l) && all_ws (l_gap l)
  && (count_lf (hdr_text l h) <=? 8)%nat.
(** the layout of str(header): nothing after the colons, CRLF between fields, COMPRESSION present *)
Definition lay1_str : lay1 :=
  Lay1 [] [] [] [] [] [] [] [] [] [] [] CRLF CRLF CRLF CRLF CRLF CRLF CRLF CRLF true (CRLF ++ CRLF).
(** a body as the property describes it: from the first '<' to the last '>' *)
Definition body_ok (b : text) : bool :=
  match b, rev b with c :: _, d :: _ => (c =? 60) && (d =? 62) | _, _ => false end.

(** * version-2 file layouts *)
(** the XML declaration: each of the three pseudo-attributes present (with its own quote, 34 or 39) or absent *)
Record lay2 := Lay2 {
  m_lines : list text;           (* leading blank lines *)
  m_ver : option N;              (* quote of version="1.0", None = attribute absent *)
  m_enc : option N;              (* quote of encoding="UTF-8" *)
  m_sa : option N;               (* quote of standalone="no" *)
  m_a : text;                    (* between the XML declaration and the OFX declaration *)
  m_b : text                     (* between the OFX declaration and the body *)
}.
Definition xml_part (name val : text) (q : option N) : text :=
  match q with Some c => 32 :: name ++ 61 :: c :: val ++ [c] | None => [] end.
Definition xml_decl_gen (v e s : option N) : text :=
  T "<?xml" ++ xml_part (T "version") (T "1.0") v ++ xml_part (T "encoding") (T "UTF-8") e ++ xml_part (T "standalone") (T "no") s
  ++ (match v, e, s with None, None, None => [32] | _, _, _ => [] end) ++ T "?>".
Definition xml_decl_q (q : N) : text := xml_decl_gen (Some q) (Some q) (Some q).
Definition ofx_decl (h : hdr2) : text :=
  T "<?OFX OFXHEADER=""" ++ dec_of_Z (h2_ofxheader h) ++ T """ VERSION=""" ++ dec_of_Z (h2_version h) ++
  T """ SECURITY=""" ++ h2_security h ++ T """ OLDFILEUID=""" ++ h2_old h ++ T """ NEWFILEUID=""" ++ h2_new h ++ T """?>".
Definition head2 (l : lay2) (h : hdr2) : text :=
  lead_text (m_lines l) ++ xml_decl_gen (m_ver l) (m_enc l) (m_sa l) ++ m_a l ++ ofx_decl h ++ m_b l.
Definition file2 (l : lay2) (h : hdr2) (encbody : text) : text := head2 l h ++ encbody.
Definition quote_ok (o : option N) : bool := match o with Some c => (c =? 34) || (c =? 39) | None => true end.
Definition lay2_ok (l : lay2) : bool :=
  (List.length (m_lines l) <=? 7)%nat && forallb all_blank (m_lines l)
  && quote_ok (m_ver l) && quote_ok (m_enc l) && quote_ok (m_sa l) && all_ws (m_a l) && all_ws (m_b l).
Definition lay2_str : lay2 := Lay2 [] (Some 34) (Some 34) (Some 34) CRLF CRLF.

(** * header texts built from an arbitrary list of (NAME, value) lines: corruption, omission, transposition *)
Definition names9 : list text :=
  [T "OFXHEADER"; T "DATA"; T "VERSION"; T "SECURITY"; T "ENCODING"; T "CHARSET"; T "COMPRESSION"; T "OLDFILEUID"; T "NEWFILEUID"].
Definition names8 : list text :=
  [T "OFXHEADER"; T "DATA"; T "VERSION"; T "SECURITY"; T "ENCODING"; T "CHARSET"; T "OLDFILEUID"; T "NEWFILEUID"].
Definition names5 : list text := [T "OFXHEADER"; T "VERSION"; T "SECURITY"; T "OLDFILEUID"; T "NEWFILEUID"].
(** "NAME:value" lines joined and followed by CRLF, then one more CRLF: the shape of OFXHeaderV1.__str__ *)
Fixpoint render1 (fs : list (text * text)) : text :=
  match fs with
  | [] => CRLF
  | (n, v) :: r => n ++ 58 :: v ++ CRLF ++ render1 r
  end.
Definition fields1 (h : hdr1) : list (text * text) :=
  [(T "OFXHEADER", dec_of_Z (h1_ofxheader h)); (T "DATA", h1_data h); (T "VERSION", dec_of_Z (h1_version h));
   (T "SECURITY", h1_security h); (T "ENCODING", h1_encoding h); (T "CHARSET", h1_charset h);
   (T "COMPRESSION", h1_compression h); (T "OLDFILEUID", h1_old h); (T "NEWFILEUID", h1_new h)].
(** the shape of OFXHeaderV2.__str__: XML declaration, CRLF, the OFX declaration with its attributes, CRLF *)
Fixpoint render2_attrs (fs : list (text * text)) : text :=
  match fs with
  | [] => []
  | (n, v) :: r => 32 :: n ++ T "=""" ++ v ++ 34 :: render2_attrs r
  end.
Definition render2 (fs : list (text * text)) : text :=
  xml_decl ++ CRLF ++ T "<?OFX" ++ render2_attrs fs ++ T "?>" ++ CRLF.
Definition fields2 (h : hdr2) : list (text * text) :=
  [(T "OFXHEADER", dec_of_Z (h2_ofxheader h)); (T "VERSION", dec_of_Z (h2_version h)); (T "SECURITY", h2_security h);
   (T "OLDFILEUID", h2_old h); (T "NEWFILEUID", h2_new h)].
(** a value as a field corruption may leave it: not empty, no whitespace, no colon, no quote, no '<' *)
Definition plainc (c : N) : bool := negb (is_space c) && negb (c =? 58) && negb (c =? 34) && negb (c =? 60).
Definition value_ok (v : text) : bool := forallb plainc v && negb (len v =? 0).
Definition fs_ok (names : list text) (fs : list (text * text)) : bool :=
  forallb (fun nv => mem_text (fst nv) names && value_ok (snd nv)) fs.
(** list surgery *)
Fixpoint remove_nth {A} (n : nat) (l : list A) : list A :=
  match n, l with O, _ :: r => r | S k, x :: r => x :: remove_nth k r | _, [] => [] end.
Fixpoint set_nth {A} (n : nat) (y : A) (l : list A) : list A :=
  match n, l with O, _ :: r => y :: r | S k, x :: r => x :: set_nth k y r | _, [] => [] end.
Definition swap_nth {A} (i j : nat) (l : list A) : list A :=
  match nth_error l i, nth_error l j with
  | Some a, Some b => set_nth j a (set_nth i b l)
  | _, _ => l
  end.
(** [w] occurs in [l] as a contiguous window *)
Fixpoint is_prefix (w l : list text) : bool :=
  match w, l with [], _ => true | a :: w', b :: l' => text_eqb a b && is_prefix w' l' | _ :: _, [] => false end.
Fixpoint has_window (w l : list text) : bool :=
  is_prefix w l || match l with [] => false | _ :: r => has_window w r end.
