(** Case format of the C09 correspondence run.  Each case holds an input and the outcome the IMPLEMENTATION
    produced (field tuples / text; errors merged into "an error"); [dcase_ok] runs the model on the input and
    compares, and on [convert] cases additionally compares the independent reference [denote_dt]/[denote_tm]
    with the implementation (both directions: accepted <-> denotes, same instant) whenever every decimal digit
    of the text is ASCII. *)
From OfxV Require Import Base.Prelude Base.Digits Model.Calendar Model.DateTimeM.
Local Open Scope N_scope.

(** field tuple from naturals (case files are written in N scope) *)
Definition F (y mo d h mi s us : N) : dtf :=
  mkdtf (Z.of_N y) (Z.of_N mo) (Z.of_N d) (Z.of_N h) (Z.of_N mi) (Z.of_N s) (Z.of_N us).
(** aware value: fields, utcoffset() as sign and seconds ([None]: naive), tzname() *)
Definition V (f : dtf) (off : option (bool * N)) (name : option text) : aware :=
  mkaware f (match off with Some (neg, n) => Some (if neg then (- Z.of_N n)%Z else Z.of_N n) | None => None end) name.

Inductive dcase :=
| CConvDT (s : text) (exp : result dtf)      (* DateTime().convert(str) -> UTC fields *)
| CConvTM (s : text) (exp : result dtf)      (* Time().convert(str) -> UTC time of day (date fields 0) *)
| CUnDT (v : aware) (exp : result text)      (* DateTime().unconvert(datetime) *)
| CUnTM (v : aware) (exp : result text)      (* Time().unconvert(time) (date fields of v ignored) *)
| CConvVal (v : aware) (accepted : bool).    (* DateTime().convert(datetime) / Time().convert(time): returned unchanged? *)

Definition tod_us (f : dtf) : Z := (((f_h f * 60 + f_mi f) * 60 + f_s f) * 1000000 + f_us f)%Z.
Definition ref_agrees (den : option Z) (exp : result dtf) (inst : dtf -> Z) : bool :=
  match exp, den with
  | OK f, Some i => (inst f =? i)%Z
  | Err _, None => true
  | _, _ => false
  end.

Definition dcase_ok (zeros : list N) (tzs : list (text * Z)) (c : dcase) : bool :=
  match c with
  | CConvDT s exp =>
    result_eqb false dtf_eqb (dt_convert zeros tzs s) exp
    && (if plain_digits zeros s then ref_agrees (denote_dt tzs s) exp us_of_fields else true)
  | CConvTM s exp =>
    result_eqb false dtf_eqb (tm_convert zeros tzs s) exp
    && (if plain_digits zeros s then ref_agrees (denote_tm tzs s) exp tod_us else true)
  | CUnDT v exp => result_eqb false text_eqb (dt_unconvert v) exp
  | CUnTM v exp => result_eqb false text_eqb (tm_unconvert v) exp
  | CConvVal v accepted => Bool.eqb (is_ok (dt_convert_value v)) accepted
  end.
