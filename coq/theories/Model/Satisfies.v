(** The independent validator of C04: a boolean, declarative reading of a class's declarations, run over every
    instance the real constructors return (at every depth).  [Proofs/SatisfiesRefl.v] shows it reflects [satisfies]. *)
From OfxV Require Import Base.Prelude Model.Schema Model.Convert.
Local Open Scope string_scope.

Section Sat.
  Variable sval : Type.
  Variable S : schema.
  Notation inst := (inst sval).
  Notation fval := (fval sval).
  Notation member := (member sval).

  Definition field_decl_okb (ka : string * attr) (f : string * fval) : bool :=
    String.eqb (fst f) (fst ka) &&
    match snd ka, snd f with
    | AUnsupported, FNone _ => true
    | ASub _ req, FNone _ | AElem _ req, FNone _ => negb req
    | ASub target _, FSub _ j => isinstance sval S j target
    | AElem _ _, FVal _ _ => true
    | _, _ => false
    end.
  Definition member_decl_okb (c : cinfo) (m : member) : bool :=
    match m with
    | MAgg _ j => negb (ci_elist c) && mem (lower (icls sval j)) (listaggregates c)
    | MStr _ _ => false
    | MVal _ _ => ci_elist c
    end.
  Fixpoint forall2b {A B} (f : A -> B -> bool) (l : list A) (l' : list B) : bool :=
    match l, l' with [], [] => true | a :: t, b :: t' => f a b && forall2b f t t' | _, _ => false end.
  Definition field_presentb (fs : list (string * fval)) (k : string) : bool :=
    match assoc k fs with Some (FNone _) | None => false | Some _ => true end.
  Definition satisfies_b (i : inst) : bool :=
    match find_cls S (icls sval i) with
    | None => false
    | Some c =>
      forall2b field_decl_okb (spec_no_list c) (ifields sval i)
      && forallb (member_decl_okb c) (imembers sval i)
      && forallb (fun g => Nat.leb (List.length (filter (field_presentb (ifields sval i)) g)) 1) (ci_optmx c)
      && forallb (fun g => Nat.eqb (List.length (filter (field_presentb (ifields sval i)) g)) 1) (ci_reqmx c)
    end.
  (** at every depth *)
  Fixpoint deep_satisfies_b (i : inst) : bool :=
    match i with
    | Inst _ cn fs ms =>
      satisfies_b (Inst sval cn fs ms)
      && (fix go (l : list (string * fval)) : bool :=
            match l with [] => true | (_, FSub _ j) :: t => deep_satisfies_b j && go t | _ :: t => go t end) fs
      && (fix go (l : list member) : bool :=
            match l with [] => true | MAgg _ j :: t => deep_satisfies_b j && go t | _ :: t => go t end) ms
    end.
End Sat.
