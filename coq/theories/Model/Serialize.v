(** Engine [Serialize]: executable model of the three writers used by OFXClient.serialize (Client.py:948-962).

      [indent]            = ofxtools.utils.indent                       utils.py:101-119  (incl. the rebinding of
                            [elem] by the for loop: the last child's tail is reset to the parent's indentation)
      [html_text]         = xml.etree.ElementTree._serialize_html for trees without attributes, comments,
                            processing instructions and namespaces; [escape_cdata] = ET._escape_cdata;
                            [he] = ET.HTML_EMPTY (regenerated: Gen.SgmlGen.html_empty): such elements get no end tag;
                            the text of script / style elements is written unescaped
      [tostring_html]     = ET.tostring(tree, encoding="utf_8", method="html"): [html_text] encoded with
                            errors="xmlcharrefreplace" (what ElementTree.write uses): lone surrogates become &#N;
      [unclosed_text]     = ofxtools.utils.tostring_unclosed_elements   utils.py:123-138  (a childless element is
                            written "<TAG>text tail" - also an empty aggregate; an element with children writes its
                            TAIL, not its text, after the start tag and again after the end tag).  [esc = false] is
                            the function as it stands in the unrepaired tree, [esc = true] with element text passed
                            through xml.sax.saxutils.escape (repair fixes/C11-3-unclosed-escape.diff)
      [tostring_unclosed] = the same as bytes: bytes(text, "utf_8") is strict, a lone surrogate is UnicodeEncodeError

    Elements carry a tail here ([itree]) because [indent] writes tails; [embed] injects the tail-free [etree] of the
    parser / of Aggregate.to_etree.  DOMAIN ([ser_domain]): every tag is ASCII and does not begin with "{" (str.lower()
    is modelled on ASCII; "{uri}tag" names go through the namespace machinery, which is not modelled); code points
    are < 0x110000.  Outside this domain the functions below say nothing about the implementation.  Definitions only. *)
From OfxV Require Import Base.Prelude Base.SgmlBase.
Local Open Scope N_scope.

Inductive itree := INode (tag : text) (txt : option text) (tail : option text) (ch : list itree).
Fixpoint embed (e : etree) : itree :=
  match e with Node t x ch => INode t x None (map embed ch) end.

(** Python truthiness of an Optional[str]; [s or ""] *)
Definition truthy (o : option text) : bool := match o with Some (_ :: _) => true | _ => false end.
Definition or_empty (o : option text) : text := match o with Some s => s | None => [] end.
(** [not s or not s.strip()] *)
Definition blankish (o : option text) : bool := negb (nonempty (strip (or_empty o))).

Definition AMP : text := [38; 97; 109; 112; 59].   (* &amp; *)
Definition LTE : text := [38; 108; 116; 59].       (* &lt; *)
Definition GTE : text := [38; 103; 116; 59].       (* &gt; *)
Definition escape_cdata (s : text) : text := replace1 62 GTE (replace1 60 LTE (replace1 38 AMP s)).

Definition lower_ascii (s : text) : text := map (fun c => if (65 <=? c) && (c <=? 90) then c + 32 else c) s.
Definition mem_text (x : text) (l : list text) : bool := existsb (text_eqb x) l.
Definition SCRIPT : text := [115; 99; 114; 105; 112; 116].
Definition STYLE : text := [115; 116; 121; 108; 101].

Fixpoint tags_ok (e : itree) : bool :=
  match e with INode t _ _ ch =>
    forallb (fun c => c <? 128) t && negb (match t with 123 :: _ => true | _ => false end)
    && (fix go (l : list itree) : bool := match l with [] => true | c :: r => tags_ok c && go r end) ch
  end.
Definition ser_domain (e : itree) : bool := tags_ok e.

(** ---------------------------------------------------------------- utils.indent *)
Fixpoint spaces2 (level : nat) : text := match level with O => [] | S k => 32 :: 32 :: spaces2 k end.
Definition ind (level : nat) : text := 10 :: spaces2 level.
Definition set_tail (tl : option text) (e : itree) : itree := match e with INode t x _ ch => INode t x tl ch end.
Definition itail (e : itree) : option text := match e with INode _ _ tl _ => tl end.
(** the statement after the for loop: [elem] is now the last child *)
Fixpoint fix_last (i : text) (l : list itree) : list itree :=
  match l with
  | [] => []
  | [e] => [if blankish (itail e) then set_tail (Some i) e else e]
  | e :: r => e :: fix_last i r
  end.
Fixpoint indent (level : nat) (e : itree) {struct e} : itree :=
  match e with INode t x tl ch =>
    let i := ind level in
    match ch with
    | [] => INode t x (if negb (Nat.eqb level 0) && blankish tl then Some i else tl) []
    | _ :: _ =>
      let x' := if blankish x then Some (i ++ [32; 32])%list else x in
      let tl' := if blankish tl then Some i else tl in
      let ch' := (fix go (l : list itree) : list itree :=
                    match l with [] => [] | c :: r => indent (S level) c :: go r end) ch in
      INode t x' tl' (fix_last i ch')
    end
  end.

(** ---------------------------------------------------------------- ET.tostring(method="html") *)
Fixpoint html_text (he : list text) (e : itree) {struct e} : text :=
  match e with INode t x tl ch =>
    let lt := lower_ascii t in
    ([60] ++ t ++ [62]
     ++ (if truthy x then (if text_eqb lt SCRIPT || text_eqb lt STYLE then or_empty x else escape_cdata (or_empty x)) else [])
     ++ (fix go (l : list itree) : text := match l with [] => [] | c :: r => html_text he c ++ go r end) ch
     ++ (if mem_text lt he then [] else [60; 47] ++ t ++ [62])
     ++ (if truthy tl then escape_cdata (or_empty tl) else []))%list
  end.

(** ---------------------------------------------------------------- utils.tostring_unclosed_elements *)
Fixpoint unclosed_text (esc : bool) (e : itree) {struct e} : text :=
  match e with INode t x tl ch =>
    match ch with
    | [] => ([60] ++ t ++ [62] ++ (if esc then escape_cdata (or_empty x) else or_empty x) ++ or_empty tl)%list
    | _ :: _ =>
      ([60] ++ t ++ [62] ++ or_empty tl
       ++ (fix go (l : list itree) : text := match l with [] => [] | c :: r => unclosed_text esc c ++ go r end) ch
       ++ [60; 47] ++ t ++ [62] ++ or_empty tl)%list
    end
  end.

(** ---------------------------------------------------------------- UTF-8 *)
Definition is_surrogate (c : N) : bool := (55296 <=? c) && (c <=? 57343).
Definition utf8_point (c : N) : list N :=
  if c <? 128 then [c]
  else if c <? 2048 then [192 + c / 64; 128 + c mod 64]
  else if c <? 65536 then [224 + c / 4096; 128 + (c / 64) mod 64; 128 + c mod 64]
  else [240 + c / 262144; 128 + (c / 4096) mod 64; 128 + (c / 64) mod 64; 128 + c mod 64].
(** decimal digits of a surrogate code point (55296..57343: always five digits), for &#N; *)
Definition dec_digits (n : N) : text :=
  [48 + n / 10000; 48 + (n / 1000) mod 10; 48 + (n / 100) mod 10; 48 + (n / 10) mod 10; 48 + n mod 10].
(** errors="xmlcharrefreplace" *)
Fixpoint utf8_xcr (s : text) : list N :=
  match s with
  | [] => []
  | c :: r => ((if is_surrogate c then [38; 35] ++ dec_digits c ++ [59] else utf8_point c) ++ utf8_xcr r)%list
  end.
(** errors="strict" *)
Fixpoint utf8_strict (s : text) : result (list N) :=
  match s with
  | [] => OK []
  | c :: r => if is_surrogate c then Err Crash
              else match utf8_strict r with OK b => OK (utf8_point c ++ b)%list | Err k => Err k end
  end.

Definition tostring_html (he : list text) (e : itree) : list N := utf8_xcr (html_text he e).
Definition tostring_unclosed (esc : bool) (e : itree) : result (list N) := utf8_strict (unclosed_text esc e).

(** the body part of OFXClient.serialize for a tree [e] = ofx.to_etree()
    (close_elements = False with version >= 200 is refused before this point) *)
Definition serialize_body (he : list text) (esc prettyprint close_elements : bool) (e : etree) : result (list N) :=
  let t := if prettyprint then indent 0 (embed e) else embed e in
  if close_elements then OK (tostring_html he t) else tostring_unclosed esc t.
