(** Engine [Sgml]: executable model of the OFX body parser, ofxtools/Parser.py.

      [match_at] / [scan]   = TreeBuilder.regex applied with finditer             Parser.py:141-149, 156
      [event_of]            = the body of the for loop of feed(): _groomstring on tail and text,
                              the tail-text ParseError, cdata-or-text, and the case split of
                              _feedmatch / _start                                  Parser.py:157-233
      [b_start b_data b_end b_close] = xml.etree.ElementTree.TreeBuilder (the C accelerator, as probed:
                              end() pops without comparing the tag, IndexError on an empty stack; close()
                              returns the root, or None, without looking at open elements; a second root is
                              xml.etree ParseError) with, when [checked g = true], the overrides of the
                              proposed repair fixes/C08-1-*.diff (stack of open tag names: end() compares,
                              close() refuses open elements, both raise ofxtools ParseError)
      [parse]               = TreeBuilder().feed(body); .close()   ( = what OFXTree.parse stores as root )

    Two source variants are modelled, selected by [cfg]:
      [cdata_lazy = false]  the CDATA alternative of the regex as in the unrepaired tree,
                            body  .+  without DOTALL: greedy to the LAST "]]>" of the line;
      [cdata_lazy = true]   the repair fixes/C02-1-*.diff,
                            body  .+?  with DOTALL and optional blanks (\s) before and after the section:
                            first "]]>", on any line.
    A regex group that did not participate (Python None) is the empty text: every group of this regex is
    non-empty when it participates.  Definitions only. *)
From OfxV Require Import Base.Prelude Base.SgmlBase.
Local Open Scope N_scope.

Record cfg := { cdata_lazy : bool; checked : bool }.
Definition repaired : cfg := {| cdata_lazy := true; checked := true |}.
Definition legacy : cfg := {| cdata_lazy := false; checked := false |}.

Definition LT : N := 60.  Definition GT : N := 62.  Definition SL : N := 47.  Definition NL : N := 10.
(** [A-Z0-9./_ ]  (re.VERBOSE keeps the blank inside a character class) *)
Definition is_tagch (c : N) : bool :=
  ((65 <=? c) && (c <=? 90)) || ((48 <=? c) && (c <=? 57)) || (c =? 46) || (c =? 47) || (c =? 95) || (c =? 32).
Definition not_lt (c : N) : bool := negb (c =? LT).
Definition not_nl (c : N) : bool := negb (c =? NL).
Definition CDO : text := [60; 33; 91; 67; 68; 65; 84; 65; 91].   (* <![CDATA[ *)
Definition CDC : text := [93; 93; 62].                           (* ]]> *)

Record rawmatch := { m_tag : text; m_cdata : text; m_text : text; m_closed : bool; m_tail : text }.

(** split at the first / at the last occurrence of "]]>" *)
Fixpoint split_first_close (s : text) : option (text * text) :=
  match s with
  | [] => None
  | c :: s' =>
    match strip_prefix CDC s with
    | Some r => Some ([], r)
    | None => match split_first_close s' with Some (a, r) => Some (c :: a, r) | None => None end
    end
  end.
Fixpoint split_last_close (s : text) : option (text * text) :=
  match s with
  | [] => None
  | c :: s' =>
    match split_last_close s' with
    | Some (a, r) => Some (c :: a, r)
    | None => match strip_prefix CDC s with Some r => Some ([], r) | None => None end
    end
  end.
(** what follows "<![CDATA[": the section body (at least one character) and the text after its "]]>" *)
Definition cdata_body (lazy : bool) (b : text) : option (text * text) :=
  if lazy then
    match b with
    | [] => None
    | c :: b' => match split_first_close b' with Some (a, r) => Some (c :: a, r) | None => None end
    end
  else
    let (line, after) := take_while not_nl b in
    match line with
    | [] => None
    | c :: l' => match split_last_close l' with Some (a, r) => Some (c :: a, (r ++ after)%list) | None => None end
    end.

(** the optional group  (cdata-section | text)  at [r1]: (cdata, text, rest) *)
Definition body (g : cfg) (r1 : text) : text * text * text :=
  let try_text : text * text * text := (@nil N, fst (take_while not_lt r1), snd (take_while not_lt r1)) in
  let r1' := if cdata_lazy g then snd (take_while is_space r1) else r1 in
  match strip_prefix CDO r1' with
  | Some b =>
    match cdata_body (cdata_lazy g) b with
    | Some (cd, r2) => (cd, [], if cdata_lazy g then snd (take_while is_space r2) else r2)
    | None => try_text
    end
  | None => try_text
  end.

(** one attempt of the regex at the head of [s]: the match and the number of characters it spans *)
Definition match_at (g : cfg) (s : text) : option (rawmatch * nat) :=
  match s with
  | c :: s1 =>
    if c =? LT then
      let (tag, r) := take_while is_tagch s1 in
      match tag, r with
      | _ :: _, c2 :: r1 =>
        if c2 =? GT then
          let '(cd, tx, r2) := body g r1 in
          let (closed, r3) := match strip_prefix (LT :: SL :: tag ++ [GT])%list r2 with
                              | Some r' => (true, r') | None => (false, r2) end in
          let (tail, r4) := take_while not_lt r3 in
          Some ({| m_tag := tag; m_cdata := cd; m_text := tx; m_closed := closed; m_tail := tail |},
                (List.length s - List.length r4)%nat)
        else None
      | _, _ => None
      end
    else None
  | [] => None
  end.

(** regex.finditer: structural recursion with a skip counter; where no match starts, advance one character *)
Fixpoint scan (g : cfg) (skip : nat) (s : text) : list rawmatch :=
  match s with
  | [] => []
  | c :: s' =>
    match skip with
    | S k => scan g k s'
    | O => match match_at g s with
           | Some (m, n) => m :: scan g (n - 1) s'
           | None => scan g 0 s'
           end
    end
  end.

(** what one match asks of the tree builder *)
Inductive ev := EOpen (t : text) | ELeaf (t x : text) | EEmpty (t : text) | EClose (t : text).

Definition event_of (m : rawmatch) : result ev :=
  if nonempty (strip (m_tail m)) then Err Reject                       (* ParseError: tail text *)
  else
    let text := if nonempty (m_cdata m) then m_cdata m else strip (m_text m) in
    let start_ev := if nonempty text then OK (ELeaf (m_tag m) text)
                    else if m_closed m then OK (EEmpty (m_tag m)) else OK (EOpen (m_tag m)) in
    match m_tag m with
    | [] => Err Crash                                                  (* assert tag  (the regex never yields it) *)
    | c :: t =>
      if c =? SL then                                                  (* tag.startswith("/") *)
        if nonempty text then Err Reject                               (* ParseError: text after end tag *)
        else OK (EClose t)
      else start_ev
    end.

(** builder state: open elements innermost first, each with its text and its finished children
    (newest first); [root]: the finished top-level element *)
Definition frame := (text * option text * list etree)%type.
Record builder := { stack : list frame; root : option etree }.
Definition b0 : builder := {| stack := []; root := None |}.

Definition b_start (t : text) (b : builder) : result builder :=
  match stack b, root b with
  | [], Some _ => Err Reject                                           (* multiple elements on top level *)
  | _, _ => OK {| stack := (t, None, []) :: stack b; root := root b |}
  end.
(** only ever called directly after [b_start] *)
Definition b_data (x : text) (b : builder) : builder :=
  match stack b with
  | (t, _, ch) :: rest => {| stack := (t, Some x, ch) :: rest; root := root b |}
  | [] => b
  end.
Definition b_end (g : cfg) (t : text) (b : builder) : result builder :=
  match stack b with
  | [] => Err (if checked g then Reject else Crash)                    (* ParseError / IndexError *)
  | (t', x, ch) :: rest =>
    if checked g && negb (text_eqb t t') then Err Reject               (* ParseError: end tag of another element *)
    else
      let n := Node t' x (rev ch) in
      match rest with
      | (t2, x2, ch2) :: rest2 => OK {| stack := (t2, x2, n :: ch2) :: rest2; root := root b |}
      | [] => OK {| stack := []; root := Some n |}
      end
  end.
(** unrepaired close(): the root, with every element still open as it stands *)
Fixpoint close_all (child : option etree) (st : list frame) : option etree :=
  match st with
  | [] => child
  | (t, x, ch) :: rest =>
    close_all (Some (Node t x (rev (match child with Some c => c :: ch | None => ch end)))) rest
  end.
Definition b_close (g : cfg) (b : builder) : result (option etree) :=
  match stack b with
  | [] => OK (root b)
  | _ :: _ => if checked g then Err Reject else OK (close_all None (stack b))
  end.

Definition step (g : cfg) (b : builder) (e : ev) : result builder :=
  match e with
  | EOpen t => b_start t b
  | ELeaf t x => bind (b_start t b) (fun b1 => b_end g t (b_data x b1))
  | EEmpty t => bind (b_start t b) (b_end g t)
  | EClose t => b_end g t b
  end.

Fixpoint run (g : cfg) (b : builder) (es : list ev) : result builder :=
  match es with
  | [] => OK b
  | e :: es' => bind (step g b e) (fun b' => run g b' es')
  end.

Fixpoint feed (g : cfg) (ms : list rawmatch) (b : builder) : result builder :=
  match ms with
  | [] => OK b
  | m :: ms' => bind (bind (event_of m) (step g b)) (feed g ms')
  end.

Definition parse (g : cfg) (s : text) : result (option etree) :=
  bind (feed g (scan g 0 s) b0) (b_close g).

(** the events of a text, when every match passes the checks of feed() *)
Fixpoint events_of (ms : list rawmatch) : result (list ev) :=
  match ms with
  | [] => OK []
  | m :: ms' => bind (event_of m) (fun e => bind (events_of ms') (fun es => OK (e :: es)))
  end.
Definition toks (g : cfg) (s : text) : result (list ev) := events_of (scan g 0 s).
