(** Model of the element type converters of ofxtools/Types.py:181-453 and 747-762
    (Element.enforce_required; Bool, String, NagString, OneOf, Integer, Decimal; ListElement), each as the
    pair [convert] / [unconvert] written after the singledispatchmethod tables, and of the escaping applied to
    one datum on the wire (xml.etree.ElementTree._escape_cdata as used by ET.tostring(method="html");
    ofxtools/utils.py:123-138 tostring_unclosed_elements; xml.sax.saxutils.escape / unescape).

    The behaviour modelled is that of /repo WITH the repairs fixes/C10-1, C11-1, C11-2, C11-3:
      Integer.enforce_length compares abs(value) with 10**length; Integer writes str(int(value));
      Decimal refuses non-finite values, holds a positive exponent as exponent 0 (quantize(Decimal(1))), quantizes
      whatever it converts, and writes format(value, "f"); tostring_unclosed_elements escapes element data.

    Python values are the closed sum [pyval]; dispatch is on the constructor, [bool] before [int] (a Python bool
    is an int: Integer accepts and keeps it, Decimal turns it into 1 / 0).  [PDT] / [PTime] stand for aware or naive
    datetime.datetime / datetime.time values (their own converters are modelled by the DateTime engine); [POther]
    stands for a value of a type no converter dispatches on and from which neither int() nor decimal.Decimal() can be
    built (list, dict, set, object(), complex).  float, bytes and tuple arguments are outside the model.
    Warnings are an output: the [bool] next to a result says that one OFXTypeWarning was issued.
    Reject = ValueError family / TypeError; Crash = anything else (decimal.InvalidOperation, KeyError, OverflowError).
    Definitions only. *)
From OfxV Require Import Base.Prelude Base.Digits Gen.ScalarsGen Model.PyDecimal.
Local Open Scope N_scope.

Inductive pyval :=
| PNone
| PBool (b : bool)
| PInt (z : Z)
| PStr (s : text)
| PDec (d : dec)
| PDT (x : Z)
| PTime (x : Z)
| POther (tag : N).

Definition pyval_eqb (a b : pyval) : bool :=
  match a, b with
  | PNone, PNone => true
  | PBool x, PBool y => Bool.eqb x y
  | PInt x, PInt y => (x =? y)%Z
  | PStr x, PStr y => text_eqb x y
  | PDec x, PDec y => dec_eqb x y
  | PDT x, PDT y => (x =? y)%Z
  | PTime x, PTime y => (x =? y)%Z
  | POther x, POther y => x =? y
  | _, _ => false
  end.

(** the scalar element types of this engine and their parameters *)
Inductive sty :=
| TBool
| TString (length : option N) (strict : bool)     (* String(n) / NagString(n): strict = false *)
| TOneOf (valid : list text)
| TInteger (length : option N)
| TDecimal (scale : option N).
(** an Element instance: a scalar type with its [required] flag, or ListElement(converter) *)
Inductive elem :=
| Elem (t : sty) (required : bool)
| ListElem (converter : elem) (required : bool).

(** Element.enforce_required (Types.py:181-186) *)
Definition enforce_required (required : bool) (v : pyval) : result pyval :=
  match v with
  | PNone => if required then Err Reject else OK PNone
  | _ => OK v
  end.

Definition nowarn {A} (r : result A) : result (A * bool) := rmap (fun a => (a, false)) r.
Definition tlen (s : text) : N := N.of_nat (List.length s).

(** ---- str.replace and saxutils ---- *)
Fixpoint prefixb (p s : text) : bool :=
  match p, s with
  | [], _ => true
  | a :: p', b :: s' => (a =? b) && prefixb p' s'
  | _ :: _, [] => false
  end.
(** leftmost non-overlapping scan; [skip] = characters of a match still to be passed over *)
Fixpoint replace_go (pat rep : text) (skip : nat) (s : text) : text :=
  match s with
  | [] => []
  | c :: r =>
    match skip with
    | S k => replace_go pat rep k r
    | O => if prefixb pat s then rep ++ replace_go pat rep (List.length pat - 1) r
           else c :: replace_go pat rep 0 r
    end
  end.
(** Python [s.replace(pat, rep)] *)
Definition replace_all (pat rep s : text) : text :=
  match pat with
  | [] => rep ++ flat_map (fun c => c :: rep) s
  | _ => replace_go pat rep 0 s
  end.
Definition replace_seq (table : list (text * text)) (s : text) : text :=
  fold_left (fun acc kv => replace_all (fst kv) (snd kv) acc) table s.

(** saxutils.unescape(value, entities): &lt; &gt; first, then the entities in dict order, &amp; last *)
Definition sax_unescape (entities : list (text * text)) (s : text) : text :=
  replace_seq ([(T "&lt;", T "<"); (T "&gt;", T ">")] ++ entities ++ [(T "&amp;", T "&")]) s.
(** saxutils.escape(data): & first, then > and < *)
Definition sax_escape (s : text) : text :=
  replace_seq [(T "&", T "&amp;"); (T ">", T "&gt;"); (T "<", T "&lt;")] s.
(** ET._escape_cdata(text): & first, then < and > *)
Definition escape_cdata (s : text) : text :=
  replace_seq [(T "&", T "&amp;"); (T "<", T "&lt;"); (T ">", T "&gt;")] s.
(** the un-escaping String._convert_str performs *)
Definition string_unescape (s : text) : text := sax_unescape string_entities s.

(** one element datum as it appears on the wire (code points, before UTF-8 encoding) *)
Inductive wireform := WClosed | WUnclosed.
Definition wire_datum (f : wireform) (s : text) : text :=
  match f with
  | WClosed => escape_cdata s        (* ET.tostring(tree, method="html"): _serialize_html -> _escape_cdata *)
  | WUnclosed => sax_escape s        (* utils.tostring_unclosed_elements (repaired, fixes/C11-3) *)
  end.
(** what tostring_unclosed_elements wrote before the repair: the datum as it is *)
Definition wire_datum_unclosed_unrepaired (s : text) : text := s.

(** ---- Bool (Types.py:189-228) ---- *)
Fixpoint mapping_get (m : list (text * bool)) (k : text) : option bool :=     (* dict lookup: last binding wins *)
  match m with
  | [] => None
  | (k', v) :: r => match mapping_get r k with
                    | Some x => Some x
                    | None => if text_eqb k' k then Some v else None
                    end
  end.
(** {v: k for k, v in mapping.items()}[b]: the last key bound to b *)
Fixpoint mapping_inv (m : list (text * bool)) (b : bool) : option text :=
  match m with
  | [] => None
  | (k, v) :: r => match mapping_inv r b with
                   | Some x => Some x
                   | None => if Bool.eqb v b then Some k else None
                   end
  end.

Definition convert_bool (required : bool) (v : pyval) : result pyval :=
  match v with
  | PNone => enforce_required required v
  | PBool b => OK (PBool b)
  | PStr s => match mapping_get bool_mapping s with Some b => OK (PBool b) | None => Err Reject end
  | _ => Err Reject
  end.
Definition unconvert_bool (required : bool) (v : pyval) : result (option text) :=
  match v with
  | PNone => rmap (fun _ => None) (enforce_required required v)
  | PBool b => match mapping_inv bool_mapping b with Some k => OK (Some k) | None => Err Crash end
  | _ => Err Reject
  end.

(** ---- String / NagString (Types.py:231-289) ---- *)
Definition enforce_length_str (length : option N) (strict : bool) (s : text) : result (text * bool) :=
  match length with
  | Some n => if n <? tlen s then (if strict then Err Reject else OK (s, true)) else OK (s, false)
  | None => OK (s, false)
  end.
Definition convert_string (length : option N) (strict required : bool) (v : pyval) : result (pyval * bool) :=
  match v with
  | PNone => nowarn (enforce_required required v)
  | PStr s => if isnil s then nowarn (enforce_required required PNone)
              else rmap (fun sw => (PStr (fst sw), snd sw)) (enforce_length_str length strict (string_unescape s))
  | _ => Err Reject
  end.
Definition unconvert_string (length : option N) (strict required : bool) (v : pyval) : result (option text * bool) :=
  match v with
  | PNone => nowarn (rmap (fun _ => None) (enforce_required required v))
  | PStr s => rmap (fun sw => (Some (fst sw), snd sw)) (enforce_length_str length strict s)
  | _ => Err Reject
  end.

(** ---- OneOf (Types.py:292-342) ---- *)
Definition mem_text (s : text) (l : list text) : bool := existsb (text_eqb s) l.
(** [value not in self.valid] for a value that is not a str: no token equals it *)
Definition convert_oneof (valid : list text) (required : bool) (v : pyval) : result pyval :=
  match v with
  | PNone => enforce_required required v
  | PStr s => if isnil s then enforce_required required PNone           (* value or None *)
              else if mem_text s valid then OK v else Err Reject
  | _ => Err Reject
  end.
Definition unconvert_oneof (valid : list text) (required : bool) (v : pyval) : result (option text) :=
  match v with
  | PNone => rmap (fun _ => None) (enforce_required required v)
  | PStr s => if mem_text s valid then OK (Some s) else Err Reject
  | _ => Err Reject
  end.

(** ---- Integer (Types.py:345-391) ---- *)
Definition MAX_STR_DIGITS : nat := 4300.      (* sys.get_int_max_str_digits() *)
Definition int_isspace_ascii (c : N) : bool := ((9 <=? c) && (c <=? 13)) || (c =? 32).     (* Py_ISSPACE *)
(** _PyUnicode_TransformDecimalAndSpaceToASCII *)
Fixpoint int_to_ascii (s : text) : option text :=
  match s with
  | [] => Some []
  | c :: r =>
    if c <? 127 then ocons c (int_to_ascii r)
    else if py_isspace c then ocons 32 (int_to_ascii r)
    else match py_decimal c with
         | Some d => ocons (48 + d) (int_to_ascii r)
         | None => None
         end
  end.
(** digit (_? digit)*  ->  the digits *)
Fixpoint und_digits (s : text) : option text :=
  match s with
  | [] => None
  | c :: r =>
    if is_digit c then
      match r with
      | [] => Some [c]
      | d :: r' => if d =? 95 then ocons c (und_digits r') else ocons c (und_digits r)
      end
    else None
  end.
(** int(s) for a str, base 10 (PyLong_FromUnicodeObject / PyLong_FromString) *)
Definition py_int_of_string (s : text) : result Z :=
  match int_to_ascii s with
  | None => Err Reject
  | Some a =>
    let (neg, body) := parse_sign (lstrip int_isspace_ascii a) in
    match und_digits (rstrip int_isspace_ascii body) with
    | None => Err Reject
    | Some ds => if (MAX_STR_DIGITS <? List.length ds)%nat then Err Reject
                 else OK (if neg then (- Z.of_N (digits_val ds))%Z else Z.of_N (digits_val ds))
    end
  end.
(** str(z); ValueError beyond the int/str digit limit *)
Definition py_str_of_int (z : Z) : result text :=
  if (MAX_STR_DIGITS <? List.length (dec_of_N (Z.abs_N z)))%nat then Err Reject else OK (Z_text z).

Definition enforce_length_int (length : option N) (z : Z) : result unit :=
  match length with
  | Some n => if (Z.of_N (10 ^ n) <=? Z.abs z)%Z then Err Reject else OK tt
  | None => OK tt
  end.
Definition Z_of_bool (b : bool) : Z := if b then 1%Z else 0%Z.

Definition convert_integer (length : option N) (required : bool) (v : pyval) : result pyval :=
  match v with
  | PNone => enforce_required required v
  | PBool b => bind (enforce_length_int length (Z_of_bool b)) (fun _ => OK v)      (* kept as the bool it is *)
  | PInt z => bind (enforce_length_int length z) (fun _ => OK v)
  | PStr s => if isnil s then enforce_required required PNone
              else bind (py_int_of_string s) (fun z => bind (enforce_length_int length z) (fun _ => OK (PInt z)))
  | PDec d => bind (to_integral_trunc d) (fun z => bind (enforce_length_int length z) (fun _ => OK (PInt z)))
  | _ => Err Reject                                                             (* int(value): TypeError *)
  end.
Definition unconvert_integer (length : option N) (required : bool) (v : pyval) : result (option text) :=
  match v with
  | PNone => rmap (fun _ => None) (enforce_required required v)
  | PBool b => bind (enforce_length_int length (Z_of_bool b)) (fun _ => rmap Some (py_str_of_int (Z_of_bool b)))
  | PInt z => bind (enforce_length_int length z) (fun _ => rmap Some (py_str_of_int z))
  | _ => Err Reject
  end.

(** ---- Decimal (Types.py:396-460) ---- *)
(** Decimal.__init__: scale n -> the quantum Decimal("0." + "0"*(n-1) + "1"); its exponent (scale 0 gives 0.1) *)
Definition quantum_exp (scale : N) : Z := (- Z.of_N (N.max scale 1))%Z.
(** Decimal._normalize (fixes/C11-1) *)
Definition normalize_dec (scale : option N) (d : dec) : result pyval :=
  match d with
  | Fin neg c e =>
    match scale with
    | Some n => rmap PDec (quantize neg c e (quantum_exp n))
    | None => if (0 <? e)%Z then rmap PDec (quantize neg c e 0) else OK (PDec d)
    end
  | _ => Err Reject
  end.
Definition convert_decimal (scale : option N) (required : bool) (v : pyval) : result pyval :=
  match v with
  | PNone => enforce_required required v
  | PStr s => bind (of_string_comma s) (normalize_dec scale)
  | PDec d => normalize_dec scale d
  | PBool b => normalize_dec scale (dec_of_Z (Z_of_bool b))
  | PInt z => normalize_dec scale (dec_of_Z z)
  | _ => Err Reject                                                             (* decimal.Decimal(value): TypeError *)
  end.
Definition unconvert_decimal (scale : option N) (required : bool) (v : pyval) : result (option text) :=
  match v with
  | PNone => rmap (fun _ => None) (enforce_required required v)
  | PDec d =>
    if negb (is_finite d) then Err Reject
    else match scale with
         | Some n => if same_quantum_exp d (quantum_exp n) then OK (Some (to_plain d)) else Err Reject
         | None => OK (Some (to_plain d))
         end
  | _ => Err Reject
  end.

(** ---- the two families, by type ---- *)
Definition convert_sty (t : sty) (required : bool) (v : pyval) : result (pyval * bool) :=
  match t with
  | TBool => nowarn (convert_bool required v)
  | TString l strict => convert_string l strict required v
  | TOneOf valid => nowarn (convert_oneof valid required v)
  | TInteger l => nowarn (convert_integer l required v)
  | TDecimal sc => nowarn (convert_decimal sc required v)
  end.
Definition unconvert_sty (t : sty) (required : bool) (v : pyval) : result (option text * bool) :=
  match t with
  | TBool => nowarn (unconvert_bool required v)
  | TString l strict => unconvert_string l strict required v
  | TOneOf valid => nowarn (unconvert_oneof valid required v)
  | TInteger l => nowarn (unconvert_integer l required v)
  | TDecimal sc => nowarn (unconvert_decimal sc required v)
  end.

(** ListElement.convert / unconvert (Types.py:758-762): the wrapped converter's, its own [required] unused *)
Fixpoint convert (e : elem) (v : pyval) : result (pyval * bool) :=
  match e with
  | Elem t required => convert_sty t required v
  | ListElem c _ => convert c v
  end.
Fixpoint unconvert (e : elem) (v : pyval) : result (option text * bool) :=
  match e with
  | Elem t required => unconvert_sty t required v
  | ListElem c _ => unconvert c v
  end.

(** the type and the [required] flag that are in force *)
Fixpoint elem_sty (e : elem) : sty := match e with Elem t _ => t | ListElem c _ => elem_sty c end.
Fixpoint elem_required (e : elem) : bool := match e with Elem _ r => r | ListElem c _ => elem_required c end.
