(** Case format of the C14 correspondence run: client configurations, the answers the fake server gave (in order),
    the calls made, and what the IMPLEMENTATION did: per call the requests observed under urllib's opener and the
    outcome, then every client's cookie jar and the cache directory.  [hcase_ok] runs the model and compares. *)
From OfxV Require Import Base.Prelude Model.HttpClient.
Local Open Scope N_scope.

Definition no_answer : response := Rs false false [] ROpaque.
Definition world_of_list (l : list response) : world := fun n _ => nth n l no_answer.

Fixpoint all2 {A B} (f : A -> B -> bool) (a : list A) (b : list B) : bool :=
  match a, b with
  | [], [] => true
  | x :: a', y :: b' => f x y && all2 f a' b'
  | _, _ => false
  end.
Definition nn_eqb (a b : N * N) : bool := (fst a =? fst b) && (snd a =? snd b).
Definition subset {A} (eqb : A -> A -> bool) (a b : list A) : bool := forallb (fun x => existsb (eqb x) b) a.
Definition set_eqb {A} (eqb : A -> A -> bool) (a b : list A) : bool :=
  subset eqb a b && subset eqb b a && Nat.eqb (List.length a) (List.length b).
Definition kind_eqb (a b : kind) : bool :=
  match a, b with KProfile, KProfile | KStmt, KStmt | KAcct, KAcct | KTax, KTax => true | _, _ => false end.
Definition body_eqb (a b : body) : bool :=
  kind_eqb (b_kind a) (b_kind b) && (b_user a =? b_user b) && (b_pass a =? b_pass b) && option_eqb N.eqb (b_dtprofup a) (b_dtprofup b).
Definition rq_eqb (a b : http_request) : bool :=
  url_eqb (rq_url a) (rq_url b) && Bool.eqb (rq_post a) (rq_post b) && (rq_ctype a =? rq_ctype b) && (rq_accept a =? rq_accept b)
  && (rq_ua a =? rq_ua b) && set_eqb nn_eqb (rq_cookies a) (rq_cookies b) && body_eqb (rq_body a) (rq_body b).
Definition outcome_eqb (a b : outcome) : bool :=
  match a, b with
  | ODry, ODry => true
  | OAnswer m, OAnswer n => Nat.eqb m n
  | OProf i, OProf j => i =? j
  | _, _ => false
  end.
Definition jar_entry_eqb (a b : N * (N * N)) : bool := (fst a =? fst b) && nn_eqb (snd a) (snd b).
Definition cache_ids (c : cache) : list (ckey * N) := map (fun kv => (fst kv, pf_id (fst (snd kv)))) c.
Definition cache_id_eqb (a b : ckey * N) : bool := ckey_eqb (fst a) (fst b) && (snd a =? snd b).

Record hcase := HCase {
  h_cfgs : list cfg;
  h_world : list response;
  h_ops : list (nat * op);
  h_seen : list (list http_request * result outcome);     (* implementation, one entry per call *)
  h_jars : list jar;                                       (* implementation, one per client, any order of entries *)
  h_cache : list (ckey * N) }.                             (* implementation: which profile each cache file holds *)

Definition hcase_ok (c : hcase) : bool :=
  let '(st, tr) := run (world_of_list (h_world c)) (init (h_cfgs c)) (h_ops c) in
  all2 (fun ev seen => all2 rq_eqb (e_reqs ev) (fst seen) && result_eqb false outcome_eqb (e_result ev) (snd seen)) tr (h_seen c)
  && all2 (fun cl j => set_eqb jar_entry_eqb (cl_jar cl) j) (s_clients st) (h_jars c)
  && set_eqb cache_id_eqb (cache_ids (s_cache st)) (h_cache c)
  && Nat.eqb (s_nreq st) (List.length (h_world c)).
