(** Decidable well-formedness of a class table (C13): each check returns its witnesses; [] = well-formed.
    Evaluated by the kernel on the table regenerated from /repo on every run. *)
From OfxV Require Import Base.Prelude Model.Schema.
Local Open Scope string_scope.

Inductive witness := W (kind cls attr : string).
Definition witness_eqb (a b : witness) : bool :=
  match a, b with W k c x, W k' c' x' => String.eqb k k' && String.eqb c c' && String.eqb x x' end.

Definition is_upper_name (s : string) : bool :=
  negb (String.eqb s "") &&
  (fix go (s : string) : bool := match s with EmptyString => true | String c r =>
     let n := nat_of_ascii c in ((Nat.leb 65 n && Nat.leb n 90) || (Nat.leb 48 n && Nat.leb n 57) || Nat.eqb n 95)%bool && go r end) s.
(** ET.HTML_EMPTY: tags the html serializer writes without end tag *)
Definition html_empty : list string :=
  ["area"; "base"; "basefont"; "br"; "col"; "embed"; "frame"; "hr"; "img"; "input"; "isindex"; "link"; "meta"; "param"; "source"; "track"; "wbr"].

Section Wf.
  Variable S : schema.
  Variable raw : list rawclass.

  Definition concrete (c : cinfo) : bool := is_upper_name (ci_name c) && mem "Aggregate" (ci_mro c).
  Definition targets_of (c : cinfo) : list (string * string) :=
    flat_map (fun ka => match snd ka with ASub t _ | AListAgg t => [(fst ka, t)] | _ => [] end) (ci_spec c).

  (** W-export: every concrete class, and every class a child can be, is found by its tag *)
  Definition w_export (c : cinfo) : list witness :=
    (if concrete c && negb (ci_export c) then [W "export" (ci_name c) ""] else []) ++
    flat_map (fun at_ => match lookup_tag S (snd at_) with Some _ => [] | None => [W "export-target" (ci_name c) (fst at_)] end) (targets_of c).
  (** W-subname: a child aggregate is written under its class name and read back under the lower-cased tag *)
  Definition w_subname (c : cinfo) : list witness :=
    flat_map (fun at_ => if String.eqb (lower (snd at_)) (fst at_) then [] else [W "subname" (ci_name c) (fst at_)]) (targets_of c).
  (** W-alpha: tags survive the tokenizer, groom and the html serializer *)
  Definition w_alpha (c : cinfo) : list witness :=
    if concrete c then
      (if mem (lower (ci_name c)) html_empty then [W "alpha-html-empty" (ci_name c) ""] else []) ++
      flat_map (fun ka => if is_upper_name (upper (fst ka)) && negb (mem (fst ka) html_empty) && String.eqb (lower (upper (fst ka))) (fst ka)
                          then [] else [W "alpha" (ci_name c) (fst ka)]) (ci_spec c)
    else [].
  (** W-adjacent: between the first and the last list attribute only Unsupported entries *)
  Fixpoint after_first_list (sp : list (string * attr)) : list (string * attr) :=
    match sp with [] => [] | ka :: t => if is_list_attr (snd ka) then t else after_first_list t end.
  Fixpoint offenders (pending : list string) (sp : list (string * attr)) : list string :=
    match sp with
    | [] => []
    | ka :: t => if is_list_attr (snd ka) then (pending ++ offenders [] t)%list
                 else if is_unsup (snd ka) then offenders pending t else offenders (pending ++ [fst ka])%list t
    end.
  Definition w_adjacent (c : cinfo) : list witness :=
    map (fun k => W "adjacent" (ci_name c) k) (offenders [] (after_first_list (ci_spec c))).
  (** W-mutex-names: group members exist, are not repeated children, are not required *)
  Definition mutex_member_ok (c : cinfo) (m : string) : bool :=
    match assoc m (ci_spec c) with
    | Some (AElem _ req) | Some (ASub _ req) => negb req
    | _ => false
    end.
  Definition w_mutex_names (c : cinfo) : list witness :=
    flat_map (fun g => flat_map (fun m => if mutex_member_ok c m then [] else [W "mutex-member" (ci_name c) m]) g)
             (ci_optmx c ++ ci_reqmx c).
  (** W-mutex-inherit: every group declared anywhere in the MRO is in force *)
  Definition declared_groups (f : rawclass -> option (list (list string))) (c : cinfo) : list (list string) :=
    flat_map (fun b => match find_raw raw b with Some r => match f r with Some m => m | None => [] end | None => [] end) (ci_mro c).
  Definition w_mutex_inherit (c : cinfo) : list witness :=
    flat_map (fun g => if existsb (strs_eqb g) (ci_optmx c) then [] else [W "mutex-shadowed" (ci_name c) (String.concat "," g)]) (declared_groups rc_optmx c) ++
    flat_map (fun g => if existsb (strs_eqb g) (ci_reqmx c) then [] else [W "mutex-shadowed" (ci_name c) (String.concat "," g)]) (declared_groups rc_reqmx c).
  (** W-elementlist *)
  Definition w_elementlist (c : cinfo) : list witness :=
    let nle := List.length (keys_where is_listelem (ci_spec c)) in
    let nla := List.length (keys_where is_listagg (ci_spec c)) in
    if ci_elist c then (if Nat.eqb nle 1 && Nat.eqb nla 0 then [] else [W "elementlist" (ci_name c) ""])
    else (if Nat.eqb nle 0 then [] else [W "listelement-in-plain-aggregate" (ci_name c) ""]).
  (** W-rename: the python-side tag is a data element of the class, the wire tag is no child of it, neither names a class *)
  Definition w_rename (c : cinfo) : list witness :=
    match ci_rename c with
    | None => []
    | Some (wire, py) =>
      if (match assoc (lower py) (ci_spec c) with Some (AElem _ _) => true | _ => false end)
         && negb (mem (lower wire) (map fst (ci_spec c)))
         && match lookup_tag S py with None => true | Some _ => false end
         && negb (has_dot wire) && negb (has_dot py)
      then [] else [W "rename" (ci_name c) wire]
    end.
  (** W-unique: attribute names are unique within a spec (ChainMap guarantees it; checked, not assumed) and class names are unique *)
  Fixpoint dups (l : list string) : list string :=
    match l with [] => [] | x :: t => if mem x t then x :: dups t else dups t end.
  Definition w_unique (c : cinfo) : list witness := map (fun k => W "dup-attr" (ci_name c) k) (dups (map fst (ci_spec c))).

  Definition wf_class (c : cinfo) : list witness :=
    if negb (concrete c) then [] else
    (w_export c ++ w_subname c ++ w_alpha c ++ w_adjacent c ++ w_mutex_names c ++ w_mutex_inherit c
     ++ w_elementlist c ++ w_rename c ++ w_unique c)%list.

  (** W-reach: the required closure is well-founded: iterate "constructible" |S| times *)
  Definition req_targets (c : cinfo) : list string :=
    flat_map (fun ka => match snd ka with ASub t true => [t] | _ => [] end) (ci_spec c).
  Definition grow (ok : list string) : list string :=
    map ci_name (filter (fun c => forallb (fun t => mem t ok) (req_targets c)) S).
  Fixpoint iter_grow (n : nat) (ok : list string) : list string :=
    match n with
    | O => ok
    | Datatypes.S k => let ok' := grow ok in if Nat.eqb (List.length ok') (List.length ok) then ok else iter_grow k ok'
    end.
  Definition reachable : list string := iter_grow (List.length S) [].
  Definition w_reach : list witness :=
    let r := reachable in
    flat_map (fun c => if concrete c && negb (mem (ci_name c) r) then [W "unbuildable" (ci_name c) ""] else []) S.

  Definition wf_schema : list witness :=
    (flat_map wf_class S ++ w_reach ++ map (fun k => W "dup-class" k "") (dups (map ci_name S)))%list.
  Definition wf_schema_except (known : list witness) : list witness :=
    filter (fun w => negb (existsb (witness_eqb w) known)) wf_schema.
End Wf.

Definition n_children (S : schema) : nat := fold_left (fun n c => (n + List.length (ci_spec c))%nat) S 0%nat.
Definition n_groups (S : schema) : nat := fold_left (fun n c => (n + List.length (ci_optmx c) + List.length (ci_reqmx c))%nat) S 0%nat.
