(** Case format of the C15 correspondence run.  The harness runs the real request_profile with every file-system call on the
    cache directory turned into a logged step (and the network exchange into another), possibly killing a call before a step or
    interleaving several calls under an explicit schedule.  A case holds the resulting event list (spawn / step of call i with
    the server behaviour it met / kill of call i) and, per event, the step the IMPLEMENTATION performed and the cache files as they
    were on disk right after it; then each call's outcome, the dates asked, and the temporary files left behind.
    [ccase_ok] replays the events through the model of the REPAIRED protocol (PNew) with the concrete codec and compares. *)
From OfxV Require Import Base.Prelude Model.ProfileCache.
Local Open Scope N_scope.

Definition stepname_eqb (a b : stepname) : bool :=
  match a, b with
  | SExists, SExists | SOpenRead, SOpenRead | SNet, SNet | SMkstemp, SMkstemp | SWrite, SWrite | SFlush, SFlush
  | SFsync, SFsync | SClose, SClose | SReplace, SReplace | SOpenTrunc, SOpenTrunc | SNone, SNone => true
  | _, _ => false
  end.
Fixpoint all2 {A B} (f : A -> B -> bool) (a : list A) (b : list B) : bool :=
  match a, b with
  | [], [] => true
  | x :: a', y :: b' => f x y && all2 f a' b'
  | _, _ => false
  end.
Definition is_cache (x : fname * bytes) : bool := match fst x with FCache _ => true | FTmp _ => false end.
Definition caches_eqb (f : fs) (obs : list (ckey * bytes)) : bool :=
  forallb (fun kb => option_eqb text_eqb (fs_get f (FCache (fst kb))) (Some (snd kb))) obs
  && Nat.eqb (List.length (filter is_cache f)) (List.length obs).
Definition tmps_eqb (f : fs) (obs : list (nat * bytes)) : bool :=
  forallb (fun kb => option_eqb text_eqb (fs_get f (FTmp (fst kb))) (Some (snd kb))) obs
  && Nat.eqb (List.length (filter (fun x => negb (is_cache x)) f)) (List.length obs).

(** the model's run, keeping the step name and the file system after every event *)
Fixpoint replay (pr : proto) (st : state) (es : list event) : list (stepname * fs) * state :=
  match es with
  | [] => ([], st)
  | e :: r => let '(st1, nm) := exec enc_c dec_c pr st e in
              let '(obs, st2) := replay pr st1 r in ((nm, s_fs st1) :: obs, st2)
  end.

Definition outcome_eqb (t : cfg * tstate) (o : option (result N)) : bool :=
  match snd t, o with
  | TDone r, Some r' => result_eqb false N.eqb (rmap p_id r) r'
  | TKilled, None => true
  | _, _ => false
  end.
Definition asked_eqb (a b : nat * option N) : bool := Nat.eqb (fst a) (fst b) && option_eqb N.eqb (snd a) (snd b).

Record ccase := CCase {
  cc_events : list event;
  cc_obs : list (stepname * list (ckey * bytes));    (* implementation: step performed, cache files after it *)
  cc_results : list (option (result N));             (* implementation: per call, None = killed, OK id of the profile returned *)
  cc_asked : list (nat * option N);                  (* implementation: DTPROFUP seen by the fake server, in order *)
  cc_tmps : list (nat * bytes) }.                    (* implementation: temporary files left in the directory, by creating call *)

Definition ccase_ok (c : ccase) : bool :=
  let '(obs, st) := replay PNew init (cc_events c) in
  all2 (fun m o => stepname_eqb (fst m) (fst o) && caches_eqb (snd m) (snd o)) obs (cc_obs c)
  && all2 outcome_eqb (s_threads st) (cc_results c)
  && list_eqb asked_eqb (s_asked st) (cc_asked c)
  && tmps_eqb (s_fs st) (cc_tmps c).
