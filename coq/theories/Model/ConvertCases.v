(** Case formats of the schema-engine correspondence runs.  Scalar values are opaque handles (N) chosen by the
    harness (equal handle <=> equal canonical Python value); the element converters are the tables the harness
    filled by calling the REAL converters, so that only the generic machinery of models/base.py is compared here. *)
From OfxV Require Import Base.Prelude Model.Schema Model.Convert Model.Satisfies.
Local Open Scope string_scope.

Definition hval := N.
Definition sin_eqb (a b : sin hval) : bool :=
  match a, b with SText _ x, SText _ y => text_eqb x y | SNat _ x, SNat _ y => N.eqb x y | _, _ => false end.
Definition conv_table := list (N * sin hval * result (option hval)).
Definition unconv_table := list (N * hval * result text).
Fixpoint tconv (tb : conv_table) (t : N) (x : sin hval) : result (option hval) :=
  match tb with
  | [] => Err Crash
  | (t', x', r) :: rest => if (N.eqb t t' && sin_eqb x x')%bool then r else tconv rest t x
  end.
Fixpoint tunconv (tb : unconv_table) (t : N) (v : hval) : result text :=
  match tb with
  | [] => Err Crash
  | (t', v', r) :: rest => if (N.eqb t t' && N.eqb v v')%bool then r else tunconv rest t v
  end.

Notation hinst := (inst hval).
Fixpoint inst_eqb (a b : hinst) {struct a} : bool :=
  match a, b with
  | Inst _ ca fa ma, Inst _ cb fb mb =>
    let fv := fun (x y : fval hval) => match x, y with
                | FNone _, FNone _ => true | FVal _ u, FVal _ v => N.eqb u v | FSub _ i, FSub _ j => inst_eqb i j | _, _ => false end in
    let feq := fix feq (x : list (string * fval hval)) (y : list (string * fval hval)) {struct x} : bool :=
      match x, y with
      | [], [] => true
      | (k, u) :: x', (k', v) :: y' => String.eqb k k' && fv u v && feq x' y'
      | _, _ => false
      end in
    let mv := fun (x y : member hval) => match x, y with
                | MAgg _ i, MAgg _ j => inst_eqb i j | MStr _ s, MStr _ t => text_eqb s t
                | MVal _ u, MVal _ v => option_eqb N.eqb u v | _, _ => false end in
    let meq := fix meq (x : list (member hval)) (y : list (member hval)) {struct x} : bool :=
      match x, y with
      | [], [] => true
      | u :: x', v :: y' => mv u v && meq x' y'
      | _, _ => false
      end in
    String.eqb ca cb && feq fa fb && meq ma mb
  end.
Fixpoint etree_eqb (a b : etree) {struct a} : bool :=
  match a, b with
  | Node ta xa ca, Node tb xb cb =>
    let ceq := fix ceq (x y : list etree) {struct x} : bool :=
      match x, y with [], [] => true | u :: x', v :: y' => etree_eqb u v && ceq x' y' | _, _ => false end in
    String.eqb ta tb && option_eqb text_eqb xa xb && ceq ca cb
  end.

Inductive ccase :=
| CFrom (tb : conv_table) (e : etree) (exp : result (hinst * list string))       (* Aggregate.from_etree *)
| CCons (tb : conv_table) (cn : string) (args : list (kwval hval)) (kw : list (string * kwval hval)) (exp : result hinst)
| CTo (tb : unconv_table) (i : hinst) (exp : result etree)                          (* instance.to_etree() *)
| CSat (i : hinst) (exp : bool).                                                    (* independent validator over a real instance, every depth *)

(** on a case where model and implementation disagree: does the MODEL refuse the input (while the implementation built an instance)?
    Used by the search for a failing input: an instance the implementation accepts although the modelled constraints refuse it. *)
Definition ccase_model_rejects (S : schema) (c : ccase) : bool :=
  match c with
  | CFrom tb e _ => match from_etree hval (tconv tb) S e with Err _ => true | OK _ => false end
  | CCons tb cn args kw _ => match construct hval (tconv tb) S cn args kw with Err _ => true | OK _ => false end
  | _ => false
  end.

Definition ccase_ok (S : schema) (c : ccase) : bool :=
  match c with
  | CFrom tb e exp =>
    result_eqb false (fun x y => inst_eqb (fst x) (fst y) && strs_eqb (snd x) (snd y))
               (from_etree hval (tconv tb) S e) exp
  | CCons tb cn args kw exp => result_eqb false inst_eqb (construct hval (tconv tb) S cn args kw) exp
  | CTo tb i exp => result_eqb false etree_eqb (to_etree hval (tunconv tb) S i) exp
  | CSat i exp => Bool.eqb (deep_satisfies_b hval S i) exp
  end.
