(** Case format for the C01/C13 runs: a REAL instance (handles + the real converters' tables) must lie in the domain of the
    round-trip theorem ([valid_b]), and the model's write-then-read must return it. *)
From OfxV Require Import Base.Prelude Model.Schema Model.Convert Model.ConvertCases Model.ValidB.
Local Open Scope string_scope.
Inductive rcase := RCase (tb : conv_table) (utb : unconv_table) (i : hinst) (exp_valid : bool) (exp_trip : bool).
Definition model_trip (tb : conv_table) (utb : unconv_table) (S : schema) (i : hinst) : bool :=
  match to_etree hval (tunconv utb) S i with
  | OK e => match from_etree hval (tconv tb) S e with OK (j, []) => inst_eqb j i | _ => false end
  | Err _ => false
  end.
Definition rcase_ok (S : schema) (c : rcase) : bool :=
  match c with RCase tb utb i ev et => Bool.eqb (valid_b hval N.eqb (tconv tb) (tunconv utb) S i) ev && Bool.eqb (model_trip tb utb S i) et end.
