(** The class table of ofxtools.models as data, and the model of the machinery that turns it into
    per-class specs: Aggregate._superdict (ChainMap over the MRO: keys of the last map first,
    overridden keys keep their first position, values by first hit), spec, spec_no_listaggregates,
    elements, subaggregates (which include ListAggregates), listaggregates (with the ElementList
    override), listelements, unsupported, the effective optionalMutexes / requiredMutexes (first class
    in the MRO that defines them), the effective validate_args / groom hooks, and
    getattr(ofxtools.models, tag).   ofxtools/models/base.py:382-506, 552-563.   Definitions only. *)
From OfxV Require Import Base.Prelude.
Local Open Scope string_scope.

(** element types are referred to by an index into the generated table (Gen/SchemaGen.v) *)
Inductive attr :=
| AElem (t : N) (required : bool)
| ASub (target : string) (required : bool)
| AListAgg (target : string)
| AListElem (t : N)
| AUnsupported.

Inductive hook_id := HAtLeastOne | HAcctInfo | HTax1099Rs | HExtdPmt | HExtdPayee | HSonRq
                   | HContribSecurity | HTax1099R | HTax1099Misc | HOfx.

Record rawclass := mk_raw {
  rc_name : string;
  rc_mro : list string;                       (* cls.__mro__ names, minus list/object *)
  rc_own : list (string * attr);              (* Element/Unsupported entries of cls.__dict__, definition order *)
  rc_optmx : option (list (list string));     (* optionalMutexes if in cls.__dict__ *)
  rc_reqmx : option (list (list string));
  rc_elist : bool;                            (* issubclass(cls, ElementList) *)
  rc_hook : option hook_id;                   (* validate_args override in cls.__dict__ *)
  rc_rename : option (string * string);       (* groom/ungroom override: (wire tag, python tag) *)
  rc_export : bool }.                         (* getattr(ofxtools.models, name) is cls *)

Record pyrow := mk_py {
  py_name : string; py_spec : list string; py_optmx : list (list string); py_reqmx : list (list string);
  py_listaggs : list string; py_listelems : list string; py_subs : list string; py_unsup : list string; py_elems : list string }.

Fixpoint find_raw (raw : list rawclass) (n : string) : option rawclass :=
  match raw with [] => None | r :: t => if String.eqb (rc_name r) n then Some r else find_raw t n end.

Fixpoint assoc {A} (k : string) (l : list (string * A)) : option A :=
  match l with [] => None | (k', v) :: t => if String.eqb k k' then Some v else assoc k t end.
Definition mem (k : string) (l : list string) : bool := existsb (String.eqb k) l.

(** keys in ChainMap iteration order: for each map from the LAST to the first, its keys not seen yet *)
Fixpoint add_keys (acc : list string) (own : list (string * attr)) : list string :=
  match own with [] => acc | (k, _) :: t => add_keys (if mem k acc then acc else (acc ++ [k])%list) t end.
Definition own_of (raw : list rawclass) (n : string) : list (string * attr) :=
  match find_raw raw n with Some r => rc_own r | None => [] end.
Definition superdict_keys (raw : list rawclass) (mro : list string) : list string :=
  fold_left (fun acc b => add_keys acc (own_of raw b)) (rev mro) [].
Fixpoint first_hit (raw : list rawclass) (mro : list string) (k : string) : option attr :=
  match mro with [] => None | b :: t => match assoc k (own_of raw b) with Some a => Some a | None => first_hit raw t k end end.
Definition spec_of (raw : list rawclass) (mro : list string) : list (string * attr) :=
  flat_map (fun k => match first_hit raw mro k with Some a => [(k, a)] | None => [] end) (superdict_keys raw mro).

Fixpoint first_some {A} (f : rawclass -> option A) (raw : list rawclass) (mro : list string) : option A :=
  match mro with [] => None
  | b :: t => match find_raw raw b with
              | Some r => match f r with Some x => Some x | None => first_some f raw t end
              | None => first_some f raw t end
  end.

(** compiled per-class information, as the model of construct / from_etree / to_etree uses it *)
Record cinfo := mk_ci {
  ci_name : string; ci_mro : list string; ci_spec : list (string * attr);
  ci_optmx : list (list string); ci_reqmx : list (list string);
  ci_elist : bool; ci_hook : option hook_id; ci_rename : option (string * string); ci_export : bool }.

Definition compile_one (raw : list rawclass) (r : rawclass) : cinfo :=
  mk_ci (rc_name r) (rc_mro r) (spec_of raw (rc_mro r))
        (match first_some rc_optmx raw (rc_mro r) with Some m => m | None => [] end)
        (match first_some rc_reqmx raw (rc_mro r) with Some m => m | None => [] end)
        (rc_elist r) (first_some rc_hook raw (rc_mro r)) (first_some rc_rename raw (rc_mro r)) (rc_export r).
Definition compile (raw : list rawclass) : list cinfo := map (compile_one raw) raw.

Definition schema := list cinfo.
Fixpoint find_cls (S : schema) (n : string) : option cinfo :=
  match S with [] => None | c :: t => if String.eqb (ci_name c) n then Some c else find_cls t n end.
(** getattr(ofxtools.models, tag) for a class name *)
Definition lookup_tag (S : schema) (tag : string) : option cinfo :=
  match find_cls S tag with Some c => if ci_export c then Some c else None | None => None end.

Definition is_list_attr (a : attr) : bool := match a with AListAgg _ | AListElem _ => true | _ => false end.
Definition is_listagg (a : attr) : bool := match a with AListAgg _ => true | _ => false end.
Definition is_listelem (a : attr) : bool := match a with AListElem _ => true | _ => false end.
Definition is_sub (a : attr) : bool := match a with ASub _ _ | AListAgg _ => true | _ => false end.
Definition is_unsup (a : attr) : bool := match a with AUnsupported => true | _ => false end.
Definition is_elem (a : attr) : bool := match a with AElem _ _ | AListElem _ => true | _ => false end.
Definition keys_where (p : attr -> bool) (sp : list (string * attr)) : list string :=
  map fst (filter (fun ka => p (snd ka)) sp).
Definition spec_no_list (c : cinfo) : list (string * attr) := filter (fun ka => negb (is_list_attr (snd ka))) (ci_spec c).
(** cls.listaggregates keys: ListAggregates, or ListElements for an ElementList *)
Definition listaggregates (c : cinfo) : list string :=
  keys_where (if ci_elist c then is_listelem else is_listagg) (ci_spec c).
Definition listelements (c : cinfo) : list string := keys_where is_listelem (ci_spec c).
Definition subaggregates (c : cinfo) : list string := keys_where is_sub (ci_spec c).

(** ASCII case mapping of str.lower() / str.upper() *)
Definition lower_ascii (c : ascii) : ascii :=
  let n := nat_of_ascii c in if (Nat.leb 65 n && Nat.leb n 90)%bool then ascii_of_nat (n + 32) else c.
Definition upper_ascii (c : ascii) : ascii :=
  let n := nat_of_ascii c in if (Nat.leb 97 n && Nat.leb n 122)%bool then ascii_of_nat (n - 32) else c.
Fixpoint smap (f : ascii -> ascii) (s : string) : string :=
  match s with EmptyString => EmptyString | String c r => String (f c) (smap f r) end.
Definition lower := smap lower_ascii.
Definition upper := smap upper_ascii.
Fixpoint has_dot (s : string) : bool :=
  match s with EmptyString => false | String c r => if Ascii.eqb c "."%char then true else has_dot r end.

Fixpoint index_of (k : string) (l : list string) : option nat :=
  match l with [] => None | x :: t => if String.eqb k x then Some 0%nat else option_map S (index_of k t) end.

(** ---- cross-check of the model of the MRO/ChainMap machinery against the interpreter ---- *)
Definition strs_eqb (a b : list string) : bool := list_eqb String.eqb a b.
Definition mx_eqb (a b : list (list string)) : bool := list_eqb strs_eqb a b.
Definition pyrow_ok (S : schema) (p : pyrow) : bool :=
  match find_cls S (py_name p) with
  | None => false
  | Some c =>
    strs_eqb (map fst (ci_spec c)) (py_spec p) && mx_eqb (ci_optmx c) (py_optmx p) && mx_eqb (ci_reqmx c) (py_reqmx p)
    && strs_eqb (listaggregates c) (py_listaggs p) && strs_eqb (listelements c) (py_listelems p)
    && strs_eqb (subaggregates c) (py_subs p) && strs_eqb (keys_where is_unsup (ci_spec c)) (py_unsup p)
    && strs_eqb (keys_where (fun a => match a with AElem _ _ | AListElem _ => true | _ => false end) (ci_spec c)) (py_elems p)
  end.
Definition py_mismatches (S : schema) (t : list pyrow) : list string :=
  map py_name (filter (fun p => negb (pyrow_ok S p)) t).
