(** Case format of the TYPED correspondence run (C01): the complete model - class table regenerated from /repo, generic
    construct / from_etree / to_etree, and the Scalars engine's converters for Bool, String, NagString, OneOf, Integer, Decimal -
    against the implementation, on real documents and real values.  TFrom / TTo: no converter tables except for date-times / times,
    which enter as (text <-> instant) pairs filled by the real DateTime / Time converters; TFromM / TToM: no tables at all on the
    reading side - date-times go through the C09 engine (Model/DateTimeM.v via Model/TypedDT.v). *)
From OfxV Require Import Base.Prelude Model.Schema Model.Convert Model.Scalars Model.Serialize Model.Typed Model.TypedDT Model.ValidB Model.ConvertCases Gen.DateTimeGen.
Local Open Scope string_scope.

Definition dt_table := list (bool * text * result (option pyval)).          (* is_time, text, outcome of convert *)
Definition udt_table := list (bool * pyval * result text).                  (* is_time, value, outcome of unconvert *)
Fixpoint dconv (tb : dt_table) (is_time : bool) (s : text) : result (option pyval) :=
  match tb with
  | [] => Err Crash
  | (b, x, r) :: rest => if (Bool.eqb b is_time && text_eqb x s)%bool then r else dconv rest is_time s
  end.
Fixpoint dunconv (tb : udt_table) (is_time : bool) (v : pyval) : result text :=
  match tb with
  | [] => Err Crash
  | (b, x, r) :: rest => if (Bool.eqb b is_time && pyval_eqb x v)%bool then r else dunconv rest is_time v
  end.

(** the C09 engine's writer for values whose tzinfo is UTC; the table only for values in other zones (an instant does not say
    which zone it was given in, the text does) *)
Fixpoint dunconv_utc (tb : udt_table) (is_time : bool) (v : pyval) : result text :=
  match tb with
  | [] => unconv_dt_utc is_time v
  | (b, x, r) :: rest => if (Bool.eqb b is_time && pyval_eqb x v)%bool then r else dunconv_utc rest is_time v
  end.

Notation pinst := (inst pyval).
Inductive tcase :=
| TFrom (tb : dt_table) (e : etree) (exp : result (pinst * list string))
| TTo (tb : udt_table) (i : pinst) (exp : result etree)
(** the same with NO date-time table on the reading side: Types.DateTime / Types.Time as the C09 engine models them over the
    regenerated digit and zone tables (Model/TypedDT.v); on the writing side the engine's writer for every UTC value *)
| TFromM (e : etree) (exp : result (pinst * list string))
| TToM (tb : udt_table) (i : pinst) (exp : result etree)
(** membership in the domain of the round-trip theorems, decided with the engines' converters alone (no table): the writer is
    the typed one for UTC values followed by the serializer's escaping *)
| TValidM (i : pinst) (exp : bool).

Definition unconv_esc (table : list (N * ety)) (t : N) (x : pyval) : result text :=
  rmap Serialize.escape_cdata (unconv_typed table unconv_dt_utc t x).

Definition tcase_ok (table : list (N * ety)) (S : schema) (c : tcase) : bool :=
  match c with
  | TFrom tb e exp =>
    result_eqb false (fun x y => ginst_eqb pyval pyval_eqb (fst x) (fst y) && strs_eqb (snd x) (snd y))
               (from_etree pyval (conv_typed table (dconv tb)) S e) exp
  | TTo tb i exp => result_eqb false etree_eqb (to_etree pyval (unconv_typed table (dunconv tb)) S i) exp
  | TFromM e exp =>
    result_eqb false (fun x y => ginst_eqb pyval pyval_eqb (fst x) (fst y) && strs_eqb (snd x) (snd y))
               (from_etree pyval (conv_typed table (conv_dt_m nd_zeros tzs)) S e) exp
  | TToM tb i exp => result_eqb false etree_eqb (to_etree pyval (unconv_typed table (dunconv_utc tb)) S i) exp
  | TValidM i exp => Bool.eqb (valid_b pyval pyval_eqb (conv_typed table (conv_dt_m nd_zeros tzs)) (unconv_esc table) S i) exp
  end.
