(** Engine [DateTimeM] (C09): ofxtools/Types.py:488-745 -- [DT_REGEX], [TIME_REGEX] (hand-written recognisers
    [match_dt], [match_time], group by group, quirks included), [DateTime._convert_str],
    [DateTime.parse_gmt_offset], [DateTime.normalize_to_gmt], [Time.normalize_to_gmt], [format_datetime],
    [DateTime._unconvert_datetime], [Time._unconvert_time], the naive-value refusals; ofxtools/utils.py:53-69
    [gmt_offset] (two assertions, copysign on the integer hours) with the table [TZS] passed as [tzs] (generated,
    Gen/DateTimeGen.v) and the interpreter's decimal-digit table [zeros] (what [\d] and [int()] accept).

    [sign_from_text = true] is the behaviour after the proposed repair fixes/C09-1-negative-fraction-offset.diff (an
    hours text starting with '-' whose integer value is 0 denotes a negative offset); [false] is the code as it
    stood ([int("-0")] = 0, [copysign(x, 0)] positive).  [dt_convert], [tm_convert] are the repaired functions.

    Values: an aware datetime is its wall-clock field tuple, [utcoffset()] in whole seconds and [tzname()];
    [a_off = None] is a naive value.  Results of [convert] are UTC field tuples.
    Independent reference: [denote_dt] / [denote_tm], the OFX notations read by position with plain integer
    arithmetic over [civil_ord]; they never call [ymd2ord]/[ord2ymd].
    Executable definitions only; proofs are in Proofs/DateTimeM*.v. *)
From OfxV Require Import Base.Prelude Base.Digits Model.Calendar.
Local Open Scope N_scope.

(** ---------- digits ---------- *)
Definition dval (c : N) : N := c - 48.
Definition take2 (s : text) : option (N * text) :=
  match s with
  | a :: b :: r => if is_digit a && is_digit b then Some (dval a * 10 + dval b, r) else None
  | _ => None
  end.
Definition take3 (s : text) : option (N * text) :=
  match s with
  | a :: b :: c :: r =>
    if is_digit a && is_digit b && is_digit c then Some (dval a * 100 + dval b * 10 + dval c, r) else None
  | _ => None
  end.
Definition take4 (s : text) : option (N * text) :=
  match s with
  | a :: b :: c :: d :: r =>
    if is_digit a && is_digit b && is_digit c && is_digit d
    then Some (dval a * 1000 + dval b * 100 + dval c * 10 + dval d, r) else None
  | _ => None
  end.
(** "%02d" / "%03d" / "%04d" for values below 100 / 1000 / 10000 (all the writer ever passes) *)
Definition d2 (n : N) : text := [48 + n / 10; 48 + n mod 10].
Definition d3 (n : N) : text := [48 + n / 100; 48 + (n / 10) mod 10; 48 + n mod 10].
Definition d4 (n : N) : text := [48 + n / 1000; 48 + (n / 100) mod 10; 48 + (n / 10) mod 10; 48 + n mod 10].

(** decimal digits in the sense of [\d] and [int()]: value of code point [c], if any *)
Fixpoint nd_val (zeros : list N) (c : N) : option N :=
  match zeros with
  | [] => None
  | z :: r => if (z <=? c) && (c <=? z + 9) then Some (c - z) else nd_val r c
  end.
Definition is_nd (zeros : list N) (c : N) : bool := match nd_val zeros c with Some _ => true | None => false end.

(** ---------- the recognisers ---------- *)
Record brgroups := mkbr { g_hours : text; g_mins : option text; g_tz : option text }.
Record dtgroups := mkgroups {
  g_y : N; g_mo : N; g_d : N;                (* TIME_REGEX: absent (0) *)
  g_time : option (N * N * N);               (* hour, minute, second *)
  g_ms : option N;
  g_br : option brgroups }.

(** [0-9-+] *)
Definition is_hchar (c : N) : bool := is_digit c || (c =? 43) || (c =? 45).
Fixpoint span (p : N -> bool) (s : text) : text * text :=
  match s with
  | [] => ([], [])
  | c :: r => if p c then let '(a, b) := span p r in (c :: a, b) else ([], s)
  end.
(** what may follow the minutes: end of the bracket content, or [:tz_name] *)
Definition colon_tail (tl : text) : option (option text) :=
  match tl with [] => Some None | 58 :: tz => Some (Some tz) | _ => None end.
(** the group [.dd] (any separator character, two decimal digits) then the optional [:tz_name] group (any text) up to the end of the content *)
Definition try_minutes (zeros : list N) (rem : text) : option (option text * option text) :=
  match rem with
  | _ :: m1 :: m2 :: tl =>
    if is_nd zeros m1 && is_nd zeros m2
    then match colon_tail tl with Some tz => Some (Some [m1; m2], tz) | None => None end
    else None
  | _ => None
  end.
(** the optional minutes group and the optional [:tz_name] group against everything after the hours *)
Definition tail_ok (zeros : list N) (rest : text) : option (option text * option text) :=
  match rest with
  | [] => Some (None, None)
  | _ => match try_minutes zeros rest with
         | Some r => Some r
         | None => match rest with 58 :: tz => Some (None, Some tz) | _ => None end
         end
  end.
(** backtracking of the greedy hours run, longest first: [hrev] = the hours still kept (reversed), [moved] = the
    characters given back.  A remainder starting with a character of the class can only continue with [.\d\d]. *)
Fixpoint backtrack (zeros : list N) (hrev moved rest : text) : option brgroups :=
  match hrev with
  | [] => None
  | c :: hrev' =>
    match hrev' with
    | [] => None
    | _ => match try_minutes zeros (c :: moved ++ rest) with
           | Some (m, tz) => Some (mkbr (rev hrev') m tz)
           | None => backtrack zeros hrev' (c :: moved) rest
           end
    end
  end.
(** the content of the offset bracket: hours = a run of [0-9-+], then optional minutes, then optional [:tz_name] *)
Definition match_inner (zeros : list N) (inner : text) : option brgroups :=
  let '(run, rest) := span is_hchar inner in
  match run with
  | [] => None
  | _ => match tail_ok zeros rest with
         | Some (m, tz) => Some (mkbr run m tz)
         | None => backtrack zeros (rev run) [] rest
         end
  end.
(** [(\[ ... \])?] then [$] (the caller has removed the one newline [$] tolerates): nothing, or a bracket that
    closes at the very end; the dot, the digit class and the zone name never match a newline *)
Definition match_bracket (zeros : list N) (rest : text) : option (option brgroups) :=
  match rest with
  | [] => Some None
  | 91 :: body =>
    match rev body with
    | 93 :: irev =>
      let inner := rev irev in
      if existsb (N.eqb 10) inner then None
      else match match_inner zeros inner with Some g => Some (Some g) | None => None end
    | _ => None
    end
  | _ => None
  end.
(** [(\.(?P<millisecond>[0-9]{3}))?] *)
Definition match_ms (rest : text) : option N * text :=
  match rest with
  | 46 :: r => match take3 r with Some (n, r') => (Some n, r') | None => (None, rest) end
  | _ => (None, rest)
  end.
(** hour minute second, then [((\.ms)?(\[...\])?)?] *)
Definition match_hms (zeros : list N) (s : text) : option (N * N * N * option N * option brgroups) :=
  match take2 s with None => None | Some (h, r) =>
  if h <=? 23 then
  match take2 r with None => None | Some (mi, r) =>
  if mi <=? 59 then
  match take2 r with None => None | Some (sec, r) =>
  if sec <=? 60 then
    let '(ms, r) := match_ms r in
    match match_bracket zeros r with
    | Some br => Some (h, mi, sec, ms, br)
    | None => None
    end
  else None end else None end else None end.
(** DT_REGEX.match on a text whose tolerated trailing newline has been removed *)
Definition match_dt (zeros : list N) (s : text) : option dtgroups :=
  match take4 s with None => None | Some (y, r) =>
  match take2 r with None => None | Some (mo, r) =>
  if (1 <=? mo) && (mo <=? 12) then
  match take2 r with None => None | Some (d, r) =>
  if (1 <=? d) && (d <=? 31) then
    match r with
    | [] => Some (mkgroups y mo d None None None)
    | _ => match match_hms zeros r with
           | Some (h, mi, sec, ms, br) => Some (mkgroups y mo d (Some (h, mi, sec)) ms br)
           | None => None
           end
    end
  else None end else None end end.
(** TIME_REGEX.match, likewise *)
Definition match_time (zeros : list N) (s : text) : option dtgroups :=
  match match_hms zeros s with
  | Some (h, mi, sec, ms, br) => Some (mkgroups 0 0 0 (Some (h, mi, sec)) ms br)
  | None => None
  end.
(** [$] also matches just before one trailing newline *)
Definition strip_nl (s : text) : text := match rev s with 10 :: r => rev r | _ => s end.

(** ---------- parse_gmt_offset / gmt_offset ---------- *)
Definition int_max_str_digits : N := 4300.
(** value of a run of ASCII digits, most significant first *)
Definition horner (ds : text) : N := fold_left (fun a c => a * 10 + dval c) ds 0.
(** [int(hours)] for a text over [0-9+-]: one optional sign, then at least one and at most 4300 digits *)
Definition pyint (hours : text) : option Z :=
  let '(neg, ds) := match hours with
                    | 45 :: r => (true, r)
                    | 43 :: r => (false, r)
                    | _ => (false, hours)
                    end in
  match ds with
  | [] => None
  | _ => if forallb is_digit ds && (N.of_nat (List.length ds) <=? int_max_str_digits)
         then Some (if neg then (- Z.of_N (horner ds))%Z else Z.of_N (horner ds))
         else None
  end.
Definition starts_minus (s : text) : bool := match s with 45 :: _ => true | _ => false end.
Fixpoint tz_lookup (tzs : list (text * Z)) (name : text) : option Z :=
  match tzs with
  | [] => None
  | (k, v) :: r => if text_eqb k name then Some v else tz_lookup r name
  end.
(** [int(minutes)] of the two-digit group *)
Definition mins_val (zeros : list N) (m : option text) : N :=
  match m with
  | Some [m1; m2] =>
    match nd_val zeros m1, nd_val zeros m2 with Some a, Some b => a * 10 + b | _, _ => 0 end
  | _ => 0
  end.
(** utils.gmt_offset: seconds east of GMT *)
Definition gmt_offset (hours : Z) (minutes : N) : result Z :=
  if ((-12 <=? hours) && (hours <=? 14))%Z then
    let tot := (60 * Z.abs hours + Z.of_N minutes)%Z in
    OK ((if (hours <? 0)%Z then - tot else tot) * 60)%Z
  else Err Crash.                                      (* assert hours in range(-12, 15) *)
Definition parse_gmt_offset (sign_from_text : bool) (zeros : list N) (tzs : list (text * Z)) (br : option brgroups)
  : result Z :=
  match br with
  | None => gmt_offset 0 0
  | Some g =>
    let m := mins_val zeros (g_mins g) in
    let finish (h : Z) : result Z :=
      bind (gmt_offset h m) (fun off =>
        if sign_from_text && starts_minus (g_hours g) && (h =? 0)%Z then OK (- off)%Z else OK off) in
    match pyint (g_hours g) with
    | Some h => finish h
    | None =>
      match g_tz g with
      | None => Err Reject
      | Some name => match tz_lookup tzs name with
                     | Some h => finish h
                     | None => Err Reject
                     end
      end
    end
  end.

(** ---------- convert ---------- *)
Definition mk_datetime (y mo d h mi s us : N) : result dtf :=
  let f := mkdtf (Z.of_N y) (Z.of_N mo) (Z.of_N d) (Z.of_N h) (Z.of_N mi) (Z.of_N s) (Z.of_N us) in
  if valid_fields f then OK f else Err Reject.
Definition groups_time (g : dtgroups) : N * N * N := match g_time g with Some t => t | None => (0, 0, 0) end.
Definition groups_ms (g : dtgroups) : N := match g_ms g with Some n => n | None => 0 end.

Definition dt_convert_gen (sign_from_text : bool) (zeros : list N) (tzs : list (text * Z)) (s : text) : result dtf :=
  match match_dt zeros (strip_nl s) with
  | None => Err Reject                                            (* OFXSpecError *)
  | Some g =>
    bind (parse_gmt_offset sign_from_text zeros tzs (g_br g)) (fun off =>
    let '(h, mi, sec) := groups_time g in
    bind (mk_datetime (g_y g) (g_mo g) (g_d g) h mi sec (1000 * groups_ms g)) (fun v =>
    dt_add_us v (- off * 1000000)%Z))                             (* (value - gmt_offset).replace(tzinfo=UTC) *)
  end.
(** Time: result is the time of day (h, mi, s, us) of 1999-06-08 h:mi:s - offset *)
Definition tm_convert_gen (sign_from_text : bool) (zeros : list N) (tzs : list (text * Z)) (s : text) : result dtf :=
  match match_time zeros (strip_nl s) with
  | None => Err Reject
  | Some g =>
    bind (parse_gmt_offset sign_from_text zeros tzs (g_br g)) (fun off =>
    let '(h, mi, sec) := groups_time g in
    bind (mk_datetime 1999 6 8 h mi sec (1000 * groups_ms g)) (fun v =>
    rmap (fun f => mkdtf 0 0 0 (f_h f) (f_mi f) (f_s f) (f_us f)) (dt_add_us v (- off * 1000000)%Z)))
  end.
Definition dt_convert := dt_convert_gen true.
Definition tm_convert := tm_convert_gen true.

(** ---------- values ---------- *)
Record aware := mkaware { a_f : dtf; a_off : option Z; a_name : option text }.
(** _convert_datetime / _convert_time on a value: returned unchanged when aware, ValueError when naive *)
Definition dt_convert_value (v : aware) : result aware :=
  match a_off v with None => Err Reject | Some _ => OK v end.

(** ---------- format_datetime / unconvert ---------- *)
Definition offset_text (off : Z) (name : option text) : text :=
  let offset_mins := (off / 60)%Z in                               (* utcoffset // timedelta(minutes=1): floor *)
  let a := Z.to_N (Z.abs offset_mins) in
  let hours := a / 60 in let mins := a mod 60 in
  ((if (offset_mins <? 0)%Z then [45] else [43]) ++ dec_of_N hours
   ++ (if mins =? 0 then [] else 46 :: d2 mins)
   ++ (match name with Some n => 58 :: n | None => [] end))%list.
Definition time_text (b : dtf) : text :=
  (d2 (Z.to_N (f_h b)) ++ d2 (Z.to_N (f_mi b)) ++ d2 (Z.to_N (f_s b)) ++ 46 :: d3 (Z.to_N (f_us b / 1000)))%list.
(** strftime("%Y%m%d"): glibc does not zero-pad %Y *)
Definition date_text (b : dtf) : text :=
  (dec_of_N (Z.to_N (f_y b)) ++ d2 (Z.to_N (f_mo b)) ++ d2 (Z.to_N (f_d b)))%list.
Definition format_datetime (with_date : bool) (v : aware) : result text :=
  match a_off v with
  | None => Err Reject
  | Some off =>
    bind (dt_add_us (a_f v) 500) (fun b =>
    OK ((if with_date then date_text b else []) ++ time_text b ++ 91 :: offset_text off (a_name v) ++ [93])%list)
  end.
Definition dt_unconvert (v : aware) : result text := format_datetime true v.
Definition tm_unconvert (v : aware) : result text :=
  let f := a_f v in
  format_datetime false (mkaware (mkdtf 1999 6 8 (f_h f) (f_mi f) (f_s f) (f_us f)) (a_off v) (a_name v)).

(** the instant (microseconds since 0001-01-01T00:00 UTC) an aware value stands for *)
Definition instant_us (v : aware) : Z :=
  (us_of_fields (a_f v) - (match a_off v with Some o => o | None => 0 end) * 1000000)%Z.

(** ---------- independent reference: what the OFX notation denotes ---------- *)
(** every decimal digit of the text is an ASCII digit *)
Definition plain_digits (zeros : list N) (s : text) : bool := forallb (fun c => negb (is_nd zeros c) || is_digit c) s.
Definition ref_num (s : text) : option Z :=
  match s with
  | [] => None
  | _ => if forallb is_digit s then Some (Z.of_N (horner s)) else None
  end.
Definition chomp (s : text) : text := if N.eqb (last s 0) 10 then removelast s else s.
(** optional sign of the hours: (negative?, digits) *)
Definition ref_sign (hrun : text) : bool * text :=
  match hrun with
  | c :: r => if c =? 45 then (true, r) else if c =? 43 then (false, r) else (false, hrun)
  | [] => (false, [])
  end.
(** one separator character, two minute digits, then the end or [:name] *)
Definition ref_minutes (rest : text) : option (Z * option text) :=
  match rest with
  | _ :: a :: b :: tl =>
    if is_digit a && is_digit b
    then match colon_tail tl with
         | Some nm => Some ((Z.of_N (a - 48) * 10 + Z.of_N (b - 48))%Z, nm)
         | None => None
         end
    else None
  | _ => None
  end.
(** what follows the hours: nothing, minutes [and a name], or a name: (minutes, name) *)
Definition ref_tail (rest : text) : option (Z * option text) :=
  match rest with
  | [] => Some (0%Z, None)
  | c :: tl => match ref_minutes rest with
               | Some r => Some r
               | None => if c =? 58 then Some (0%Z, Some tl) else None
               end
  end.
(** [offset[:name]]: signed hours, optionally one separator character and two minute digits, optionally :name;
    also the sign-only form whose hours come from the zone name.  Seconds east of GMT; a written minus sign
    makes the offset negative also when the hours are 0. *)
Definition denote_offset (tzs : list (text * Z)) (inner : text) : option Z :=
  let '(hrun, rest) := span is_hchar inner in
  match ref_tail rest with
  | None => None
  | Some (mm, name) =>
    let '(negative, ds) := ref_sign hrun in
    match (if N.of_nat (List.length ds) <=? 4300 then ref_num ds else None) with
    | Some hh =>
      if (if negative then hh <=? 12 else hh <=? 14)%Z
      then Some (if negative then - (hh * 3600 + mm * 60) else hh * 3600 + mm * 60)%Z
      else None
    | None =>
      match hrun, name with
      | _ :: _, Some nm =>
        match tz_lookup tzs nm with
        | Some zh => if ((-12 <=? zh) && (zh <=? 14))%Z
                     then Some (if (zh <? 0) || ((zh =? 0) && negative) then zh * 3600 - mm * 60 else zh * 3600 + mm * 60)%Z
                     else None
        | None => None
        end
      | _, _ => None
      end
    end
  end.
Definition denote_bracket (tzs : list (text * Z)) (rest : text) : option Z :=
  match rest with
  | [] => Some 0%Z
  | c :: body =>
    if (c =? 91) && N.eqb (last body 0) 93 && negb (existsb (N.eqb 10) body)
    then denote_offset tzs (removelast body) else None
  end.
(** HHMMSS[.XXX][bracket] -> microseconds after midnight, not yet reduced *)
Definition denote_hms (tzs : list (text * Z)) (s : text) : option Z :=
  match ref_num (firstn 2 s), ref_num (firstn 2 (skipn 2 s)), ref_num (firstn 2 (skipn 4 s)) with
  | Some h, Some mi, Some sec =>
    if ((N.of_nat (List.length s) <? 6) || negb ((h <? 24) && (mi <? 60) && (sec <? 60))%Z) then None
    else
      let after := skipn 6 s in
      let '(ms, after) :=
        match after with
        | c :: r => if (c =? 46) && (3 <=? N.of_nat (List.length r))
                    then match ref_num (firstn 3 r) with Some n => (n, skipn 3 r) | None => (0%Z, after) end
                    else (0%Z, after)
        | [] => (0%Z, after)
        end in
      match denote_bracket tzs after with
      | Some off => Some (h * 3600000000 + mi * 60000000 + sec * 1000000 + ms * 1000 - off * 1000000)%Z
      | None => None
      end
  | _, _, _ => None
  end.
(** date-time notations -> microseconds since 0001-01-01T00:00 UTC *)
Definition denote_dt (tzs : list (text * Z)) (s0 : text) : option Z :=
  let s := chomp s0 in
  match ref_num (firstn 4 s), ref_num (firstn 2 (skipn 4 s)), ref_num (firstn 2 (skipn 6 s)) with
  | Some y, Some mo, Some d =>
    if (N.of_nat (List.length s) <? 8)
       || negb ((1 <=? y) && (1 <=? mo) && (mo <=? 12) && (1 <=? d) && (d <=? civil_dim y mo))%Z then None
    else
      let day0 := ((civil_ord y mo d - 1) * US_DAY)%Z in
      match skipn 8 s with
      | [] => Some day0
      | rest => match denote_hms tzs rest with
                | Some t => let i := (day0 + t)%Z in
                            if ((0 <=? i) && (i <? MAXORDINAL * US_DAY))%Z then Some i else None
                | None => None
                end
      end
  | _, _, _ => None
  end.
(** time notations -> microseconds after midnight UTC *)
Definition denote_tm (tzs : list (text * Z)) (s0 : text) : option Z :=
  match denote_hms tzs (chomp s0) with Some t => Some (t mod US_DAY)%Z | None => None end.
