(** The OFX lexical rules of the scalar element types (OFX 2.2 section 3.2.8; property C11), written
    independently of the converters of Model/Scalars.v -- this file does not mention them -- and the rule
    for element data on the wire (OFX section 2.3.2.1: no raw '<', no '&' that does not start an entity).
    Definitions only. *)
From OfxV Require Import Base.Prelude Base.Digits Model.Scalars.
Local Open Scope N_scope.

Definition all_digits (s : text) : bool := forallb is_digit s.
Definition nonempty_digits (s : text) : bool := negb (match s with [] => true | _ => false end) && all_digits s.
Definition drop_sign (s : text) : text :=
  match s with
  | c :: r => if (c =? 43) || (c =? 45) then r else s
  | [] => []
  end.
(** [+-]?[0-9]+ *)
Definition lex_integer (s : text) : bool := nonempty_digits (drop_sign s).
Definition is_sep (c : N) : bool := (c =? 46) || (c =? 44).
(** split at the first separator: (before, None) or (before, Some after) *)
Fixpoint split_sep (s : text) : text * option text :=
  match s with
  | [] => ([], None)
  | c :: r => if is_sep c then ([], Some r) else let (a, b) := split_sep r in (c :: a, b)
  end.
(** [+-]?[0-9]+([.,][0-9]+)?  |  [+-]?[.,][0-9]+   -- plain notation, one separator at most, no exponent, no NaN/Infinity *)
Definition lex_decimal (s : text) : bool :=
  match split_sep (drop_sign s) with
  | (ip, None) => nonempty_digits ip
  | (ip, Some fp) => all_digits ip && nonempty_digits fp
  end.
Definition lex_bool (s : text) : bool := text_eqb s [89] || text_eqb s [78].

Definition lexical_ok (t : sty) (s : text) : bool :=
  match t with
  | TBool => lex_bool s
  | TString (Some n) true => N.of_nat (List.length s) <=? n
  | TString _ _ => true                                  (* unbounded, or warn-only: kept whole by design *)
  | TOneOf valid => existsb (text_eqb s) valid
  | TInteger _ => lex_integer s
  | TDecimal _ => lex_decimal s
  end.

(** element data on the wire: no '<'; every '&' starts one of &amp; &lt; &gt; *)
Fixpoint starts (p s : text) : bool :=
  match p, s with
  | [], _ => true
  | a :: p', b :: s' => (a =? b) && starts p' s'
  | _ :: _, [] => false
  end.
Fixpoint wire_data_ok (s : text) : bool :=
  match s with
  | [] => true
  | c :: r =>
    if c =? 60 then false
    else if c =? 38 then (starts (T "amp;") r || starts (T "lt;") r || starts (T "gt;") r) && wire_data_ok r
    else wire_data_ok r
  end.
