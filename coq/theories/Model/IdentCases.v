(** Case format of the C20 correspondence run: one routine applied to its arguments, with the
    outcome the IMPLEMENTATION produced; [icase_ok] runs the model and compares (errors merged). *)
From OfxV Require Import Base.Prelude Base.Digits Model.Ident.
Local Open Scope N_scope.
Inductive icase := ICase (fn : N) (a b : text) (exp : result text).
Definition boolt (b : bool) : text := if b then [49] else [48].
Definition run_icase (ag : list text) (fn : N) (a b : text) : result text :=
  match fn with
  | 0 => cusip_checksum a
  | 1 => rmap boolt (validate_cusip a)
  | 2 => sedol_checksum a
  | 3 => isin_checksum ag a
  | 4 => rmap boolt (validate_isin ag a)
  | 5 => cusip2isin ag a b
  | _ => sedol2isin ag a b
  end.
Definition icase_ok (ag : list text) (c : icase) : bool :=
  match c with ICase fn a b exp => result_eqb false text_eqb (run_icase ag fn a b) exp end.
