(** Model of ofxtools/header.py, transcribed statement by statement:
      OFXHeaderV1 / OFXHeaderV2  (class-level validators of Types.py: OneOf, Integer, String; __init__ with the
                                  [x or default] idiom and ValueError -> OFXHeaderError; __str__; codec)
      OFXHeaderV1.regex, OFXHeaderV2.regex, XML_REGEX   (hand recognisers with re's semantics: [search] = first start
                                  position at which the pattern matches; greedy runs given back one character at a time)
      OFXHeaderBase.parse, parse_header (byte level: readline / tell / seek / read), make_header.
    [parse_header] is the REPAIRED function (fixes/C05-1): scanned lines are decoded with errors="replace" and no
    extra newline is added to the reconstructed header; [parse_header_asis] is the function as it was, kept to pin
    the defect (Proofs/HeaderParse.v: [asis_loses_first_char], [asis_crashes_on_shared_line]).
    Errors: OFXHeaderError = [Err Reject]; UnicodeDecodeError (the only other exception these routines raise on
    values of the modelled types) = [Err Crash].
    Python runtime pieces are executable and table driven: Unicode classes and cp1252 from Gen/HeaderGen.v,
    UTF-8 by the decoder below.  Definitions only. *)
From OfxV Require Import Base.Prelude Base.Digits Gen.HeaderGen.
Local Open Scope N_scope.

(** * Character classes (re with str patterns: Unicode aware) *)
Definition mem_N (c : N) (l : list N) : bool := existsb (N.eqb c) l.
Fixpoint in_ranges (c : N) (l : list (N * N)) : bool :=
  match l with
  | [] => false
  | (a, b) :: r => ((a <=? c) && (c <=? b)) || in_ranges c r
  end.
Fixpoint decimal_val_in (c : N) (zs : list N) : option N :=
  match zs with
  | [] => None
  | z :: r => if (z <=? c) && (c <=? z + 9) then Some (c - z) else decimal_val_in c r
  end.
Definition decimal_val (c : N) : option N := decimal_val_in c decimal_zeros.
Definition is_space (c : N) : bool := mem_N c space_table.                 (* \s, str.isspace *)
Definition is_word (c : N) : bool := in_ranges c word_ranges.              (* \w *)
Definition is_decimal (c : N) : bool := match decimal_val c with Some _ => true | None => false end.   (* \d *)
Definition is_AZ (c : N) : bool := (65 <=? c) && (c <=? 90).               (* [A-Z] *)
Definition is_enc (c : N) : bool := is_AZ c || ((48 <=? c) && (c <=? 57)) || (c =? 45).   (* [A-Z0-9-] *)
Definition is_word_dash (c : N) : bool := is_word c || (c =? 45).          (* [\w-] *)
Definition is_decimal_dot (c : N) : bool := is_decimal c || (c =? 46).     (* [\d.] *)

(** * Small text utilities *)
Definition len (s : text) : N := N.of_nat (List.length s).
Fixpoint skipws (s : text) : text :=
  match s with c :: r => if is_space c then skipws r else s | [] => [] end.
Definition strip (s : text) : text := rev (skipws (rev (skipws s))).       (* str.strip() *)
Fixpoint strip_prefix (p s : text) : option text :=
  match p, s with
  | [], _ => Some s
  | a :: p', b :: s' => if a =? b then strip_prefix p' s' else None
  | _ :: _, [] => None
  end.
(** maximal run of a class and what follows it *)
Fixpoint span (p : N -> bool) (s : text) : text * text :=
  match s with
  | c :: r => if p c then let (a, b) := span p r in (c :: a, b) else ([], s)
  | [] => ([], [])
  end.
Definition skipN (n : N) (s : text) : text := skipn (N.to_nat n) s.

(** * Python values of the constructor's [version] / [ofxheader] parameters: int or str *)
Inductive pyv := VInt (z : Z) | VStr (s : text).
Definition truthy (v : pyv) : bool := match v with VInt z => negb (z =? 0)%Z | VStr s => negb (len s =? 0) end.

(** int(str): surrounding whitespace (ASCII \t\n\v\f\r and space; non-ASCII str.isspace()), optional sign, decimal
    digits of any script with single underscores between digits. *)
Definition int_space (c : N) : bool :=
  if c <? 128 then ((9 <=? c) && (c <=? 13)) || (c =? 32) else is_space c.
Fixpoint skip_int_space (s : text) : text :=
  match s with c :: r => if int_space c then skip_int_space r else s | [] => [] end.
Fixpoint digits_acc (s : text) (acc : N) (prev_digit : bool) : option N :=
  match s with
  | [] => if prev_digit then Some acc else None
  | c :: r =>
    match decimal_val c with
    | Some d => digits_acc r (acc * 10 + d) true
    | None => if (c =? 95) && prev_digit then digits_acc r acc false else None
    end
  end.
Definition int_of_text (s : text) : option Z :=
  let s1 := rev (skip_int_space (rev (skip_int_space s))) in
  match s1 with
  | 45 :: r => option_map (fun n => Z.opp (Z.of_N n)) (digits_acc r 0 false)
  | 43 :: r => option_map Z.of_N (digits_acc r 0 false)
  | _ => option_map Z.of_N (digits_acc s1 0 false)
  end.
Definition py_int (v : pyv) : option Z := match v with VInt z => Some z | VStr s => int_of_text s end.
(** str(int) *)
Definition dec_of_Z (z : Z) : text := if (z <? 0)%Z then 45 :: dec_of_N (Z.abs_N z) else dec_of_N (Z.to_N z).

(** * Types.py validators as the header classes instantiate them (required = False everywhere) *)
(** OneOf(...).convert(int): [value not in self.valid] raises OFXSpecError (a ValueError) *)
Definition oneof_int (valid : list Z) (v : Z) : result Z :=
  if existsb (Z.eqb v) valid then OK v else Err Reject.
(** OneOf(...).convert(str) on a non-empty str (the [x or default] idiom never passes the empty str). *)
Definition oneof_text (valid : list text) (v : text) : result text :=
  if existsb (text_eqb v) valid then OK v else Err Reject.
(** Integer(length).convert(int): [abs(value) >= 10**length] raises OFXSpecError *)
Definition integer_conv (length : option N) (v : Z) : result Z :=
  match length with
  | Some l => if (Z.of_N (10 ^ l) <=? Z.abs v)%Z then Err Reject else OK v
  | None => OK v
  end.
(** str.replace(old, new) for a non-empty [old]: left to right, non-overlapping; [skip] = characters of a
    replaced occurrence still to be dropped (structural recursion with a skip counter). *)
Fixpoint replace_go (old new : text) (skip : nat) (s : text) : text :=
  match s with
  | [] => []
  | c :: r =>
    match skip with
    | S k => replace_go old new k r
    | O => match strip_prefix old s with
           | Some _ => new ++ replace_go old new (pred (List.length old)) r
           | None => c :: replace_go old new O r
           end
    end
  end.
Definition replace_all (old new s : text) : text := replace_go old new O s.
(** saxutils.unescape(value, entities) with the entities nbsp, apos, quot (Types.py:259): lt, gt, then the three
    entities in that order, amp last.  Every pattern starts with an ampersand, so a text without one is returned
    unchanged. *)
Definition unescape (s : text) : text :=
  if mem_N 38 s then
    replace_all (T "&amp;") (T "&")
     (replace_all (T "&quot;") [34]
      (replace_all (T "&apos;") [39]
       (replace_all (T "&nbsp;") [32]
        (replace_all (T "&gt;") (T ">")
         (replace_all (T "&lt;") (T "<") s)))))
  else s.
(** String(length).convert(str) on a non-empty str: unescape, then [len(value) > length] raises OFXSpecError *)
Definition string_conv (length : option N) (v : text) : result text :=
  let u := unescape v in
  match length with
  | Some l => if l <? len u then Err Reject else OK u
  | None => OK u
  end.

(** * The two header classes *)
Record hdr1 := Hdr1 { h1_ofxheader : Z; h1_data : text; h1_version : Z; h1_security : text; h1_encoding : text;
                      h1_charset : text; h1_compression : text; h1_old : text; h1_new : text }.
Record hdr2 := Hdr2 { h2_ofxheader : Z; h2_version : Z; h2_security : text; h2_old : text; h2_new : text }.
Inductive hdr := H1 (h : hdr1) | H2 (h : hdr2).

(** [x or default] for an optional str parameter (None and the empty str are falsy) *)
Definition or_text (x : option text) (d : text) : text := match x with Some (c :: r) => c :: r | _ => d end.
(** [int(x or default)]: ValueError from int() is caught by the constructor => OFXHeaderError *)
Definition int_or (x : option pyv) (d : Z) : result Z :=
  match x with
  | Some v => if truthy v then match py_int v with Some z => OK z | None => Err Reject end else OK d
  | None => OK d
  end.

(** OFXHeaderV1.__init__ (header.py:141-164) *)
Definition init_v1 (version : pyv) (ofxheader : option pyv)
                   (data security encoding charset compression oldfileuid newfileuid : option text) : result hdr1 :=
  bind (int_or ofxheader 100) (fun oh0 => bind (oneof_int v1_ofxheader_valid oh0) (fun oh =>
  bind (oneof_text v1_data_valid (or_text data (T "OFXSGML"))) (fun da =>
  bind (int_or (Some version) 102) (fun ve0 => bind (integer_conv v1_version_len ve0) (fun ve =>
  bind (oneof_text v1_security_valid (or_text security (T "NONE"))) (fun se =>
  bind (oneof_text v1_encoding_valid (or_text encoding (T "USASCII"))) (fun en =>
  bind (oneof_text v1_charset_valid (or_text charset (T "NONE"))) (fun ch =>
  bind (oneof_text v1_compression_valid (or_text compression (T "NONE"))) (fun co =>
  bind (string_conv v1_old_len (or_text oldfileuid (T "NONE"))) (fun ol =>
  bind (string_conv v1_new_len (or_text newfileuid (T "NONE"))) (fun ne =>
  OK (Hdr1 oh da ve se en ch co ol ne)))))))))))).

(** OFXHeaderV2.__init__ (header.py:209-224): [int(version)] without a default *)
Definition init_v2 (version : pyv) (ofxheader : option pyv) (security oldfileuid newfileuid : option text) : result hdr2 :=
  match py_int version with
  | None => Err Reject
  | Some ve0 =>
    bind (oneof_int v2_version_valid ve0) (fun ve =>
    bind (int_or ofxheader 200) (fun oh0 => bind (oneof_int v2_ofxheader_valid oh0) (fun oh =>
    bind (oneof_text v2_security_valid (or_text security (T "NONE"))) (fun se =>
    bind (string_conv v2_old_len (or_text oldfileuid (T "NONE"))) (fun ol =>
    bind (string_conv v2_new_len (or_text newfileuid (T "NONE"))) (fun ne =>
    OK (Hdr2 oh ve se ol ne)))))))
  end.

Definition CRLF : text := [13; 10].
(** OFXHeaderV1.__str__: the nine K:V joined by CRLF, then two CRLF *)
Definition str_v1 (h : hdr1) : text :=
  T "OFXHEADER:" ++ dec_of_Z (h1_ofxheader h) ++ CRLF ++
  T "DATA:" ++ h1_data h ++ CRLF ++
  T "VERSION:" ++ dec_of_Z (h1_version h) ++ CRLF ++
  T "SECURITY:" ++ h1_security h ++ CRLF ++
  T "ENCODING:" ++ h1_encoding h ++ CRLF ++
  T "CHARSET:" ++ h1_charset h ++ CRLF ++
  T "COMPRESSION:" ++ h1_compression h ++ CRLF ++
  T "OLDFILEUID:" ++ h1_old h ++ CRLF ++
  T "NEWFILEUID:" ++ h1_new h ++ CRLF ++ CRLF.
Definition xml_decl : text := T "<?xml version=""1.0"" encoding=""UTF-8"" standalone=""no""?>".
(** OFXHeaderV2.__str__ *)
Definition str_v2 (h : hdr2) : text :=
  xml_decl ++ CRLF ++
  T "<?OFX OFXHEADER=""" ++ dec_of_Z (h2_ofxheader h) ++ T """ VERSION=""" ++ dec_of_Z (h2_version h) ++
  T """ SECURITY=""" ++ h2_security h ++ T """ OLDFILEUID=""" ++ h2_old h ++ T """ NEWFILEUID=""" ++ h2_new h ++
  T """?>" ++ CRLF.
Definition str_hdr (h : hdr) : text := match h with H1 a => str_v1 a | H2 a => str_v2 a end.

(** * OFXHeaderV1.regex (header.py:117-130), [search] semantics *)
(** candidate values of one field, longest first: [rv] is the run reversed, [back] what follows the candidate;
    [k back] continues with the rest of the pattern. *)
Fixpoint try_ends {A} (k : text -> option A) (rv back : text) : option (text * A) :=
  match rv with
  | [] => None                                    (* the value is [+]: never empty *)
  | c :: rv' => match k back with
                | Some a => Some (rev rv, a)
                | None => try_ends k rv' (c :: back)
                end
  end.
(** NAME:\s*(?P<NAME>cls+) followed by the continuation *)
Definition match_field {A} (name : text) (cls : N -> bool) (k : text -> option A) (s : text) : option (text * A) :=
  match strip_prefix (name ++ [58]) s with
  | None => None
  | Some s1 => let (run, rest) := span cls (skipws s1) in try_ends k (rev run) rest
  end.
Definition v1_tail (s : text) : option (text * (text * text)) :=
  match_field (T "OLDFILEUID") is_word_dash (fun b8 =>
   match_field (T "NEWFILEUID") is_word_dash (fun b9 => Some b9) (skipws b8)) s.
(** the optional group (?:COMPRESSION:...)?: first with the group, then without *)
Definition v1_compression_tail (s : text) : option (option text * (text * (text * text))) :=
  match match_field (T "COMPRESSION") is_AZ (fun b7 => v1_tail (skipws b7)) s with
  | Some (c, r) => Some (Some c, r)
  | None => match v1_tail s with Some r => Some (None, r) | None => None end
  end.
Definition v1_match : Type := (text * (text * (text * (text * (text * (text * (option text * (text * (text * text)))))))))%type.
(** the pattern from "OFXHEADER:" on, at the start of [s]; the last component is the text after the match *)
Definition match_v1_at (s : text) : option v1_match :=
  match_field (T "OFXHEADER") is_decimal (fun b1 =>
   match_field (T "DATA") is_AZ (fun b2 =>
    match_field (T "VERSION") is_decimal (fun b3 =>
     match_field (T "SECURITY") is_word (fun b4 =>
      match_field (T "ENCODING") is_enc (fun b5 =>
       match_field (T "CHARSET") is_word_dash (fun b6 => v1_compression_tail (skipws b6))
       (skipws b5)) (skipws b4)) (skipws b3)) (skipws b2)) (skipws b1)) s.
(** regex.search: leftmost start position *)
Fixpoint search {A} (m : text -> option A) (s : text) : option A :=
  match m s with
  | Some r => Some r
  | None => match s with [] => None | _ :: r => search m r end
  end.
Definition search_v1 (s : text) : option v1_match := search (fun t => match_v1_at (skipws t)) s.

(** OFXHeaderBase.parse for OFXHeaderV1: groupdict -> constructor; end = len(rawheader) - len(text after the match) *)
Definition parse_v1 (s : text) : result (hdr1 * N) :=
  match search_v1 s with
  | None => Err Reject
  | Some (oh, (da, (ve, (se, (en, (ch, (co, (ol, (ne, fin))))))))) =>
    bind (init_v1 (VStr ve) (Some (VStr oh)) (Some da) (Some se) (Some en) (Some ch) co (Some ol) (Some ne))
         (fun h => OK (h, len s - len fin))
  end.

(** * OFXHeaderV2.regex (header.py:195-204) *)
Definition ws1 (s : text) : option text :=                                  (* \s+ *)
  match s with c :: r => if is_space c then Some (skipws r) else None | [] => None end.
(** cls+ followed by the closing quote [q]: the run is maximal (the quote is outside every class used) *)
Definition qval (cls : N -> bool) (q : N) (s : text) : option (text * text) :=
  let (run, rest) := span cls s in
  match run, rest with
  | _ :: _, c :: r => if c =? q then Some (run, r) else None
  | _, _ => None
  end.
Definition obind {A B} (o : option A) (f : A -> option B) : option B := match o with Some a => f a | None => None end.
Definition attr2 (name : text) (cls : N -> bool) (s : text) : option (text * text) :=
  obind (strip_prefix (name ++ T "=""") s) (qval cls 34).
Definition v2_match : Type := (text * (text * (text * (text * (text * text)))))%type.
Definition match_v2_at (s : text) : option v2_match :=
  obind (strip_prefix (T "<?OFX") s) (fun s0 => obind (ws1 s0) (fun s1 =>
  obind (attr2 (T "OFXHEADER") is_decimal s1) (fun '(oh, t1) => obind (ws1 t1) (fun s2 =>
  obind (attr2 (T "VERSION") is_decimal s2) (fun '(ve, t2) => obind (ws1 t2) (fun s3 =>
  obind (attr2 (T "SECURITY") is_word s3) (fun '(se, t3) => obind (ws1 t3) (fun s4 =>
  obind (attr2 (T "OLDFILEUID") is_word_dash s4) (fun '(ol, t4) => obind (ws1 t4) (fun s5 =>
  obind (attr2 (T "NEWFILEUID") is_word_dash s5) (fun '(ne, t5) =>
  obind (strip_prefix (T "?>") (skipws t5)) (fun t6 =>
  Some (oh, (ve, (se, (ol, (ne, skipws t6))))))))))))))))).
Definition search_v2 (s : text) : option v2_match := search match_v2_at s.
Definition parse_v2 (s : text) : result (hdr2 * N) :=
  match search_v2 s with
  | None => Err Reject
  | Some (oh, (ve, (se, (ol, (ne, fin))))) =>
    bind (init_v2 (VStr ve) (Some (VStr oh)) (Some se) (Some ol) (Some ne)) (fun h => OK (h, len s - len fin))
  end.

(** * XML_REGEX.match(line) (header.py:241-248): only whether it matches is used *)
(** one optional group  name=Q(cls+)Q with Q a single or double quote (the same on both sides): the text after
    the group if it is there, else the text unchanged *)
Definition xml_opt_group (name : text) (cls : N -> bool) (s : text) : text :=
  match strip_prefix (name ++ [61]) s with
  | Some (q :: r) =>
    if (q =? 34) || (q =? 39) then match qval cls q r with Some (_, r2) => r2 | None => s end else s
  | _ => s
  end.
Definition match_xml (line : text) : bool :=
  match obind (strip_prefix (T "<?xml") line) ws1 with
  | None => false
  | Some s1 =>
    let s2 := skipws (xml_opt_group (T "version") is_decimal_dot s1) in
    let s3 := skipws (xml_opt_group (T "encoding") is_word_dash s2) in
    let s4 := skipws (xml_opt_group (T "standalone") is_word s3) in
    match strip_prefix (T "?>") s4 with Some _ => true | None => false end
  end.

(** * make_header (header.py:324-348) *)
Definition make_header (version : pyv) (security oldfileuid newfileuid : option text) : result hdr :=
  match py_int version with
  | None => Err Reject                                        (* ValueError -> OFXHeaderError *)
  | Some z =>
    let major := (z / 100)%Z in                                (* floor division *)
    if (major =? 1)%Z then rmap H1 (init_v1 version None None security None None None oldfileuid newfileuid)
    else if (major =? 2)%Z then rmap H2 (init_v2 version None security oldfileuid newfileuid)
    else Err Reject                                            (* KeyError -> OFXHeaderError *)
  end.

(** * Codecs (Python runtime): bytes -> str; failure = UnicodeDecodeError *)
Fixpoint map_opt {A B} (f : A -> option B) (l : list A) : option (list B) :=
  match l with
  | [] => Some []
  | x :: r => match f x, map_opt f r with Some y, Some t => Some (y :: t) | _, _ => None end
  end.
Definition latin1_dec (b : text) : option text := map_opt (fun c => if c <? 256 then Some c else None) b.
Definition latin1_enc (s : text) : option text := map_opt (fun c => if c <? 256 then Some c else None) s.
Definition cp1252_dec1 (c : N) : option N := nth (N.to_nat c) cp1252_table None.
Definition cp1252_dec (b : text) : option text := map_opt cp1252_dec1 b.
Fixpoint find_index (c : N) (l : list (option N)) (i : N) : option N :=
  match l with
  | [] => None
  | Some x :: r => if x =? c then Some i else find_index c r (i + 1)
  | None :: r => find_index c r (i + 1)
  end.
Definition cp1252_enc (s : text) : option text := map_opt (fun c => find_index c cp1252_table 0) s.
Definition cont (b : N) : bool := (128 <=? b) && (b <=? 191).
(** strict UTF-8 as CPython decodes it: shortest form only, no surrogates, at most U+10FFFF *)
Fixpoint utf8_dec (b : text) : option text :=
  match b with
  | [] => Some []
  | b0 :: r =>
    if b0 <? 128 then option_map (cons b0) (utf8_dec r)
    else if (194 <=? b0) && (b0 <=? 223) then
      match r with
      | b1 :: r1 => if cont b1 then option_map (cons ((b0 - 192) * 64 + (b1 - 128))) (utf8_dec r1) else None
      | _ => None
      end
    else if (224 <=? b0) && (b0 <=? 239) then
      match r with
      | b1 :: b2 :: r2 =>
        if ((if b0 =? 224 then 160 else 128) <=? b1) && (b1 <=? (if b0 =? 237 then 159 else 191)) && cont b2
        then option_map (cons ((b0 - 224) * 4096 + (b1 - 128) * 64 + (b2 - 128))) (utf8_dec r2) else None
      | _ => None
      end
    else if (240 <=? b0) && (b0 <=? 244) then
      match r with
      | b1 :: b2 :: b3 :: r3 =>
        if ((if b0 =? 240 then 144 else 128) <=? b1) && (b1 <=? (if b0 =? 244 then 143 else 191)) && cont b2 && cont b3
        then option_map (cons ((b0 - 240) * 262144 + (b1 - 128) * 4096 + (b2 - 128) * 64 + (b3 - 128))) (utf8_dec r3) else None
      | _ => None
      end
    else None
  end.
Definition utf8_enc1 (c : N) : option text :=
  if c <? 128 then Some [c]
  else if c <? 2048 then Some [192 + c / 64; 128 + c mod 64]
  else if c <? 65536 then
    if (55296 <=? c) && (c <=? 57343) then None
    else Some [224 + c / 4096; 128 + (c / 64) mod 64; 128 + c mod 64]
  else if c <? 1114112 then Some [240 + c / 262144; 128 + (c / 4096) mod 64; 128 + (c / 64) mod 64; 128 + c mod 64]
  else None.
Fixpoint utf8_enc (s : text) : option text :=
  match s with
  | [] => Some []
  | c :: r => match utf8_enc1 c, utf8_enc r with Some a, Some t => Some (a ++ t) | _, _ => None end
  end.
(** codec ids of Gen/HeaderGen.v: 0 = latin_1, 1 = cp1252, 2 = utf_8 (the translator refuses any other codec) *)
Definition decode_opt (cd : N) (b : text) : option text :=
  match cd with 0 => latin1_dec b | 1 => cp1252_dec b | 2 => utf8_dec b | _ => None end.
Definition encode_opt (cd : N) (s : text) : option text :=
  match cd with 0 => latin1_enc s | 1 => cp1252_enc s | 2 => utf8_enc s | _ => None end.
Definition decode (cd : N) (b : text) : result text :=
  match decode_opt cd b with Some s => OK s | None => Err Crash end.          (* UnicodeDecodeError *)

Fixpoint assoc_text (k : text) (l : list (text * N)) : option N :=
  match l with [] => None | (a, v) :: r => if text_eqb k a then Some v else assoc_text k r end.
(** OFXHeaderV1.codec: self.codecs[self.charset] (a KeyError would not be a header error) *)
Definition codec_of (h : hdr1) : result N :=
  match assoc_text (h1_charset h) v1_codecs with Some cd => OK cd | None => Err Crash end.

(** * parse_header (header.py:251-321) over the bytes of the source *)
(** BytesIO.readline: up to and including the first LF *)
Fixpoint readline (b : text) : text * text :=
  match b with
  | [] => ([], [])
  | c :: r => if c =? 10 then ([10], r) else let (l, rest) := readline r in (c :: l, rest)
  end.
(** decoding of a scanned line.  Repaired: decode as ascii with errors=replace, one U+FFFD per offending byte,
    so character offsets stay byte offsets.  As it was: strict ascii, UnicodeDecodeError on a byte >= 128. *)
Definition scan_char (c : N) : N := if c <? 128 then c else 65533.
Definition scan_dec (repaired : bool) (raw : text) : result text :=
  if repaired then OK (map scan_char raw)
  else if forallb (fun c => c <? 128) raw then OK raw else Err Crash.
Definition nonblank (line : text) : bool := existsb (fun c => negb (is_space c)) line.     (* bool(line.strip()) *)
(** the loop over range(8): (header_start, first non-blank line, bytes after it) *)
Fixpoint skip_blank (repaired : bool) (n : nat) (b : text) (pos : N) : result (N * text * text) :=
  match n with
  | O => Err Reject                                             (* not found_header *)
  | S n' =>
    let (raw, rest) := readline b in
    bind (scan_dec repaired raw) (fun line =>
      if nonblank line then OK (pos, line, rest) else skip_blank repaired n' rest (pos + len raw))
  end.
Fixpoint read_lines (repaired : bool) (n : nat) (b : text) : result text :=
  match n with
  | O => OK []
  | S n' => let (raw, rest) := readline b in
            bind (scan_dec repaired raw) (fun l => rmap (app l) (read_lines repaired n' rest))
  end.
Definition parse_header_gen (repaired : bool) (bytes : text) : result (hdr * text) :=
  bind (skip_blank repaired 8 bytes 0) (fun '(start, line, rest) =>
    if match_xml line then
      bind (decode v2_codec bytes) (fun src =>                  (* seek(0); read().decode(OFXHeaderV2.codec) *)
      bind (parse_v2 src) (fun '(h, e) => OK (H2 h, skipN e src)))
    else
      bind (read_lines repaired 8 rest) (fun more =>
      let rawheader := (line ++ (if repaired then [] else [10]) ++ more)%list in
      bind (parse_v1 rawheader) (fun '(h, e) =>
      bind (codec_of h) (fun cd =>
      bind (decode cd (skipN (start + e) bytes)) (fun msg =>    (* seek(header_start + end); read().decode(codec) *)
      OK (H1 h, strip msg)))))).
Definition parse_header : text -> result (hdr * text) := parse_header_gen true.
Definition parse_header_asis : text -> result (hdr * text) := parse_header_gen false.
