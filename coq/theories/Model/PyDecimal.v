(** Model of the fragment of CPython 3.12's [decimal.Decimal] (C module _decimal over libmpdec) that
    ofxtools/Types.py:396-460 (class Decimal) relies on:

      decimal.Decimal(str)          [of_string]   numeric_as_ascii (strip Py_UNICODE_ISSPACE, drop every '_', map Unicode
                                                  decimal digits) + mpd_qset_string's grammar + the exactness limits of
                                                  PyDecType_FromCStringExact (maxcontext: Emax 999999999999999999)
      value.replace(",", ".") retry [of_string_comma]   Types.py:_convert_str
      value.quantize(q)             [quantize]    mpd_qquantize under the DEFAULT context (prec 28, ROUND_HALF_EVEN,
                                                  Emax 999999); InvalidOperation is [Err Crash]
      value.same_quantum(q)         [same_quantum_exp]
      value.is_finite()             [is_finite]
      str(value)                    [to_sci]      mpd_to_sci
      format(value, "f")            [to_plain]    mpd_qformat_spec, type 'f', no precision
      decimal.Decimal(int), int(decimal.Decimal)  [dec_of_Z], [to_integral_trunc]

    A value is sign / coefficient / exponent (exactly [Decimal.as_tuple()]) or a special value.  No number is
    ever a float; exponents are [Z] and may be astronomically large: no power of ten is formed before the digit
    counts have been compared.  Definitions only. *)
From OfxV Require Import Base.Prelude Base.Digits Gen.ScalarsGen.
Local Open Scope N_scope.

Inductive dec :=
| Fin (neg : bool) (c : N) (e : Z)
| Inf (neg : bool)
| NaN (neg : bool) (signalling : bool) (payload : N).

Definition dec_eqb (a b : dec) : bool :=
  match a, b with
  | Fin n c e, Fin n' c' e' => Bool.eqb n n' && (c =? c') && (e =? e')%Z
  | Inf n, Inf n' => Bool.eqb n n'
  | NaN n s p, NaN n' s' p' => Bool.eqb n n' && Bool.eqb s s' && (p =? p')
  | _, _ => false
  end.

Definition is_finite (d : dec) : bool := match d with Fin _ _ _ => true | _ => false end.

(** ---- character classes taken from the running interpreter (Gen/ScalarsGen.v) ---- *)
Definition in_ranges (rs : list (N * N)) (c : N) : bool :=
  existsb (fun r => (fst r <=? c) && (c <=? snd r)) rs.
(** Py_UNICODE_ISSPACE = str.isspace() for one code point *)
Definition py_isspace (c : N) : bool := in_ranges py_space_ranges c.
(** Py_UNICODE_TODECIMAL: value of a Unicode decimal digit (category Nd) *)
Fixpoint decimal_in (zs : list N) (c : N) : option N :=
  match zs with
  | [] => None
  | z :: r => if (z <=? c) && (c <=? z + 9) then Some (c - z) else decimal_in r c
  end.
Definition py_decimal (c : N) : option N := decimal_in py_decimal_zeros c.

Fixpoint lstrip (p : N -> bool) (s : text) : text :=
  match s with
  | [] => []
  | c :: r => if p c then lstrip p r else s
  end.
Fixpoint rstrip (p : N -> bool) (s : text) : text :=
  match s with
  | [] => []
  | c :: r => match rstrip p r with
              | [] => if p c then [] else [c]
              | r' => c :: r'
              end
  end.
Definition strip (p : N -> bool) (s : text) : text := lstrip p (rstrip p s).

Definition ocons (c : N) (o : option text) : option text :=
  match o with Some t => Some (c :: t) | None => None end.

(** _decimal.c numeric_as_ascii(u, strip_ws=1, ignore_underscores=1), after the stripping *)
Fixpoint dec_to_ascii (s : text) : option text :=
  match s with
  | [] => Some []
  | c :: r =>
    if c =? 95 then dec_to_ascii r
    else if (0 <? c) && (c <=? 127) then ocons c (dec_to_ascii r)
    else if py_isspace c then ocons 32 (dec_to_ascii r)
    else match py_decimal c with
         | Some d => ocons (48 + d) (dec_to_ascii r)
         | None => None
         end
  end.

(** value of a text of ASCII digits, leading zeros allowed ([int(s)]); 0 on anything else (never used there) *)
Definition digits_val (s : text) : N :=
  match text_to_uint s with Some u => N.of_uint u | None => 0 end.
(** number of decimal digits of the coefficient (libmpdec [digits]; 1 for zero) *)
Definition ndigits (c : N) : Z := Z.of_nat (List.length (dec_of_N c)).

Fixpoint span_digits (s : text) : text * text :=
  match s with
  | [] => ([], [])
  | c :: r => if is_digit c then let (a, b) := span_digits r in (c :: a, b) else ([], s)
  end.
Definition parse_sign (s : text) : bool * text :=
  match s with
  | 43 :: r => (false, r)
  | 45 :: r => (true, r)
  | _ => (false, s)
  end.
Definition lower (c : N) : N := if (65 <=? c) && (c <=? 90) then c + 32 else c.
Fixpoint strip_prefix (p s : text) : option text :=
  match p, s with
  | [], _ => Some s
  | a :: p', b :: s' => if a =? b then strip_prefix p' s' else None
  | _ :: _, [] => None
  end.
Definition isnil {A} (l : list A) : bool := match l with [] => true | _ => false end.

Definition MAX_EMAX : Z := 999999999999999999.
Definition MAX_ETINY : Z := (-1999999999999999997)%Z.   (* Emin - (prec - 1) of mpd_maxcontext *)

(** what libmpdec can represent at all: adjusted exponent <= Emax and exponent >= Etiny of mpd_maxcontext *)
Definition representable (c : N) (ex : Z) : bool :=
  ((ex + ndigits c - 1 <=? MAX_EMAX) && (MAX_ETINY <=? ex))%Z.
(** every decimal.Decimal object satisfies this (well-formedness of a [dec] standing for a Python value) *)
Definition dec_wf (d : dec) : bool :=
  match d with Fin _ c e => representable c e | _ => true end.
(** exact construction: any Rounded / Clamped / Overflow status is InvalidOperation *)
Definition finite_exact (neg : bool) (c : N) (ex : Z) : result dec :=
  if representable c ex then OK (Fin neg c ex) else Err Crash.

(** the exponent part: [eE][+-]?digits+ up to the end, or nothing *)
Definition parse_exponent (s : text) : option Z :=
  match s with
  | [] => Some 0%Z
  | c :: r =>
    if (c =? 101) || (c =? 69) then
      let (eneg, r1) := parse_sign r in
      let (ed, r2) := span_digits r1 in
      if isnil ed || negb (isnil r2) then None
      else Some (if eneg then (- Z.of_N (digits_val ed))%Z else Z.of_N (digits_val ed))
    else None
  end.

(** mpd_qset_string on the ASCII text *)
Definition of_ascii (s : text) : result dec :=
  let (neg, body) := parse_sign s in
  let low := map lower body in
  if text_eqb low (T "inf") || text_eqb low (T "infinity") then OK (Inf neg)
  else match strip_prefix (T "snan") low with
  | Some p => if forallb is_digit p then OK (NaN neg true (digits_val p)) else Err Crash
  | None =>
  match strip_prefix (T "nan") low with
  | Some p => if forallb is_digit p then OK (NaN neg false (digits_val p)) else Err Crash
  | None =>
    let (ip, r1) := span_digits body in
    let (fp, r2) := match r1 with 46 :: r => span_digits r | _ => ([], r1) end in
    if isnil ip && isnil fp then Err Crash
    else match parse_exponent r2 with
         | None => Err Crash
         | Some e => finite_exact neg (digits_val (ip ++ fp)) (e - Z.of_nat (List.length fp))
         end
  end end.

(** decimal.Decimal(s) for a str; InvalidOperation (ConversionSyntax) is [Err Crash] *)
Definition of_string (s : text) : result dec :=
  match dec_to_ascii (strip py_isspace s) with
  | None => Err Crash
  | Some a => of_ascii a
  end.

(** Python [value.replace(",", ".")] *)
Definition comma_to_dot (s : text) : text := map (fun c => if c =? 44 then 46 else c) s.

(** Types.py:_convert_str: try Decimal(value); except InvalidOperation: Decimal(value.replace(",", ".")) *)
Definition of_string_comma (s : text) : result dec :=
  match of_string s with
  | OK d => OK d
  | Err _ => of_string (comma_to_dot s)
  end.

(** ---- quantize under the default context ---- *)
Definition PREC : Z := 28.
Definition DEFAULT_ETINY : Z := (-1000026)%Z.     (* Emin - (prec - 1) = -999999 - 27 *)
Definition DEFAULT_EMAX : Z := 999999.

(** [Decimal(sign, c, e).quantize(Decimal((0,(1,),qexp)))]: mpd_qquantize, ROUND_HALF_EVEN, prec 28.
    A right shift by more digits than the coefficient has gives zero without forming the power of ten. *)
Definition quantize (neg : bool) (c : N) (e qexp : Z) : result dec :=
  if ((DEFAULT_EMAX <? qexp) || (qexp <? DEFAULT_ETINY))%Z then Err Crash
  else if c =? 0 then OK (Fin neg 0 qexp)
  else if (PREC <? ndigits c + (e - qexp))%Z then Err Crash
  else if (qexp <=? e)%Z then OK (Fin neg (c * 10 ^ Z.to_N (e - qexp)) qexp)
  else
    let sh := (qexp - e)%Z in
    if (ndigits c <? sh)%Z then OK (Fin neg 0 qexp)
    else
      let p := 10 ^ Z.to_N sh in
      let q := c / p in
      let r := c mod p in
      let half := 5 * 10 ^ (Z.to_N sh - 1) in
      let q' := if (half <? r) || ((r =? half) && N.odd q) then q + 1 else q in
      if (PREC <? ndigits q')%Z then Err Crash else OK (Fin neg q' qexp).

(** value.same_quantum(q) for a finite quantum of exponent qexp *)
Definition same_quantum_exp (d : dec) (qexp : Z) : bool :=
  match d with Fin _ _ e => (e =? qexp)%Z | _ => false end.

(** ---- printing ---- *)
Definition sign_text (neg : bool) : text := if neg then [45] else [].
Definition zeros (n : nat) : text := repeat 48 n.
Definition Z_text (z : Z) : text := (if (z <? 0)%Z then [45] else []) ++ dec_of_N (Z.abs_N z).      (* str(int) *)
Definition Z_text_signed (z : Z) : text := (if (z <? 0)%Z then [45] else [43]) ++ dec_of_N (Z.abs_N z).  (* "%+d" *)

(** format(d, "f") for a finite value: plain notation, every digit kept; a zero with a positive exponent is "0" *)
Definition to_plain_fin (neg : bool) (c : N) (e : Z) : text :=
  let ds := dec_of_N c in
  sign_text neg ++
  (if (0 <=? e)%Z then (if c =? 0 then [48] else ds ++ zeros (Z.to_nat e))
   else
     let k := Z.to_nat (- e) in
     let ds' := if (List.length ds <=? k)%nat then zeros (k - List.length ds + 1) ++ ds else ds in
     let n := (List.length ds' - k)%nat in
     firstn n ds' ++ [46] ++ skipn n ds').

Definition special_text (d : dec) : text :=
  match d with
  | Inf neg => sign_text neg ++ T "Infinity"
  | NaN neg sig p => sign_text neg ++ (if sig then T "sNaN" else T "NaN") ++ (if p =? 0 then [] else dec_of_N p)
  | Fin _ _ _ => []
  end.

Definition to_plain (d : dec) : text :=
  match d with Fin neg c e => to_plain_fin neg c e | _ => special_text d end.

(** str(d): scientific string of the General Decimal Arithmetic specification *)
Definition to_sci (d : dec) : text :=
  match d with
  | Fin neg c e =>
    let ds := dec_of_N c in
    let n := Z.of_nat (List.length ds) in
    let left := (n + e)%Z in
    let dot := if ((e <=? 0) && (-6 <? left))%Z then left else 1%Z in
    let body :=
      if (dot <=? 0)%Z then [48] ++ [46] ++ zeros (Z.to_nat (- dot)) ++ ds
      else if (n <=? dot)%Z then ds ++ zeros (Z.to_nat (dot - n))
      else firstn (Z.to_nat dot) ds ++ [46] ++ skipn (Z.to_nat dot) ds in
    sign_text neg ++ body ++ (if (left =? dot)%Z then [] else [69] ++ Z_text_signed (left - dot))
  | _ => special_text d
  end.

(** decimal.Decimal(int) (exact) and int(decimal.Decimal) (truncation; NaN: ValueError, Infinity: OverflowError) *)
Definition dec_of_Z (z : Z) : dec := Fin (z <? 0)%Z (Z.abs_N z) 0.
Definition to_integral_trunc (d : dec) : result Z :=
  match d with
  | Fin neg c e =>
    let m := if (0 <=? e)%Z then c * 10 ^ Z.to_N e
             else if (ndigits c <? - e)%Z then 0 else c / 10 ^ Z.to_N (- e) in
    OK (if neg then (- Z.of_N m)%Z else Z.of_N m)
  | Inf _ => Err Crash
  | NaN _ _ _ => Err Reject
  end.
