(** Engine [Calendar] (C09): Python's proleptic Gregorian calendar arithmetic, transcribed from
    CPython Lib/_pydatetime.py ([_is_leap], [_days_before_year], [_days_in_month], [_days_before_month],
    [_ymd2ord], [_ord2ymd]; the C implementation _datetimemodule.c computes the same functions), plus the
    arithmetic of [datetime + timedelta] ([OverflowError] outside ordinals 1.._MAXORDINAL).
    Independent reference: [civil_ord], the "days from civil" formula (era / year-of-era / day-of-year with
    March-based months), which shares nothing with the table walk above.
    Executable definitions only; proofs are in Proofs/Calendar*.v. *)
From OfxV Require Import Base.Prelude.
Local Open Scope Z_scope.

(** _is_leap *)
Definition is_leap (y : Z) : bool := ((y mod 4 =? 0) && negb (y mod 100 =? 0)) || (y mod 400 =? 0).
(** _days_in_month (for 1 <= m <= 12) *)
Definition days_in_month (y m : Z) : Z :=
  if m =? 2 then (if is_leap y then 29 else 28)
  else if (m =? 4) || (m =? 6) || (m =? 9) || (m =? 11) then 30 else 31.
(** _days_before_year *)
Definition days_before_year (y : Z) : Z := let y' := y - 1 in y' * 365 + y' / 4 - y' / 100 + y' / 400.
(** _DAYS_BEFORE_MONTH *)
Definition dbm_table (m : Z) : Z :=
  if m =? 1 then 0 else if m =? 2 then 31 else if m =? 3 then 59 else if m =? 4 then 90
  else if m =? 5 then 120 else if m =? 6 then 151 else if m =? 7 then 181 else if m =? 8 then 212
  else if m =? 9 then 243 else if m =? 10 then 273 else if m =? 11 then 304 else 334.
(** _days_before_month *)
Definition days_before_month (y m : Z) : Z := dbm_table m + (if (2 <? m) && is_leap y then 1 else 0).
(** _ymd2ord: 0001-01-01 is day 1 *)
Definition ymd2ord (y m d : Z) : Z := days_before_year y + days_before_month y m + d.

Definition DI400Y : Z := 146097.
Definition DI100Y : Z := 36524.
Definition DI4Y : Z := 1461.
Definition MAXORDINAL : Z := 3652059.   (* date(9999,12,31).toordinal() *)

(** _ord2ymd on the position [r] (0-based) inside a 400-year cycle: (year offset 1..400, month, day) *)
Definition ord2ymd_cycle (r : Z) : Z * Z * Z :=
  let n100 := r / DI100Y in let n := r mod DI100Y in
  let n4 := n / DI4Y in let n := n mod DI4Y in
  let n1 := n / 365 in let n := n mod 365 in
  let y := 1 + n100 * 100 + n4 * 4 + n1 in
  if (n1 =? 4) || (n100 =? 4) then (y - 1, 12, 31)
  else
    let leapyear := (n1 =? 3) && (negb (n4 =? 24) || (n100 =? 3)) in
    let month := (n + 50) / 32 in                         (* (n + 50) >> 5 *)
    let preceding := dbm_table month + (if (2 <? month) && leapyear then 1 else 0) in
    if n <? preceding then
      let month' := month - 1 in
      let dim' := (if month' =? 2 then (if leapyear then 29 else 28)
                   else if (month' =? 4) || (month' =? 6) || (month' =? 9) || (month' =? 11) then 30 else 31) in
      (y, month', n - (preceding - dim') + 1)
    else (y, month, n - preceding + 1).
(** _ord2ymd *)
Definition ord2ymd (n0 : Z) : Z * Z * Z :=
  let n := n0 - 1 in
  let '(y, m, d) := ord2ymd_cycle (n mod DI400Y) in
  ((n / DI400Y) * 400 + y, m, d).

(** what [datetime.date(y, m, d)] accepts *)
Definition valid_date (y m d : Z) : bool :=
  (1 <=? y) && (y <=? 9999) && (1 <=? m) && (m <=? 12) && (1 <=? d) && (d <=? days_in_month y m).

(** ---- independent reference: days from civil (March-based), as an ordinal with 0001-01-01 = 1 ---- *)
Definition civil_ord (y m d : Z) : Z :=
  let y' := if m <=? 2 then y - 1 else y in
  let era := y' / 400 in
  let yoe := y' - era * 400 in
  let mp := if 2 <? m then m - 3 else m + 9 in
  let doy := (153 * mp + 2) / 5 + d - 1 in
  let doe := yoe * 365 + yoe / 4 - yoe / 100 + doy in
  era * 146097 + doe - 305.
(** the same calendar, stated without Python's tables: month lengths by the knuckle rule *)
Definition civil_leap (y : Z) : bool := if y mod 100 =? 0 then y mod 400 =? 0 else y mod 4 =? 0.
Definition civil_dim (y m : Z) : Z :=
  if m =? 2 then (if civil_leap y then 29 else 28)
  else if m <=? 7 then 30 + m mod 2 else 31 - m mod 2.

(** ---- field tuples and instants ---- *)
Record dtf := mkdtf { f_y : Z; f_mo : Z; f_d : Z; f_h : Z; f_mi : Z; f_s : Z; f_us : Z }.
Definition US_DAY : Z := 86400000000.
(** microseconds since 0001-01-01T00:00:00 of the wall-clock reading [f] *)
Definition us_of_fields (f : dtf) : Z :=
  ((((ymd2ord (f_y f) (f_mo f) (f_d f) - 1) * 24 + f_h f) * 60 + f_mi f) * 60 + f_s f) * 1000000 + f_us f.
Definition fields_of_us (t : Z) : dtf :=
  let days := t / US_DAY in let r := t mod US_DAY in
  let '(y, m, d) := ord2ymd (days + 1) in
  let secs := r / 1000000 in
  mkdtf y m d (secs / 3600) ((secs mod 3600) / 60) (secs mod 60) (r mod 1000000).
(** the reference reading of a field tuple: plain integer arithmetic over [civil_ord] *)
Definition civil_us (y mo d h mi s us : Z) : Z :=
  (civil_ord y mo d - 1) * US_DAY + h * 3600000000 + mi * 60000000 + s * 1000000 + us.

(** datetime(...) constructor check (ValueError otherwise) *)
Definition valid_fields (f : dtf) : bool :=
  valid_date (f_y f) (f_mo f) (f_d f) && (0 <=? f_h f) && (f_h f <? 24) && (0 <=? f_mi f) && (f_mi f <? 60)
  && (0 <=? f_s f) && (f_s f <? 60) && (0 <=? f_us f) && (f_us f <? 1000000).
(** [value + timedelta(microseconds = delta)]: OverflowError unless the resulting day is in 1.._MAXORDINAL *)
Definition dt_add_us (f : dtf) (delta : Z) : result dtf :=
  let t := us_of_fields f + delta in
  if (0 <=? t) && (t <? MAXORDINAL * US_DAY) then OK (fields_of_us t) else Err Crash.

Definition dtf_eqb (a b : dtf) : bool :=
  (f_y a =? f_y b) && (f_mo a =? f_mo b) && (f_d a =? f_d b) && (f_h a =? f_h b) && (f_mi a =? f_mi b)
  && (f_s a =? f_s b) && (f_us a =? f_us b).
