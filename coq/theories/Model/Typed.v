(** The schema engine with CONCRETE element converters: the opaque [conv]/[unconv] of Model/Convert.v instantiated with the
    Scalars engine's models of Bool / String / NagString / OneOf / Integer / Decimal (Model/Scalars.v, C10), through the
    element-type table regenerated from /repo (Gen/TypedGen.v).  Date-time and time converters are section variables
    here; Model/TypedDT.v instantiates them with C09's engine (Model/DateTimeM.v).  Definitions only. *)
From OfxV Require Import Base.Prelude Model.Schema Model.Convert Model.Scalars.
Local Open Scope N_scope.

Inductive ety := ESty (e : elem) | EDateTime (required : bool) | ETime (required : bool) | EUnknown.

Section Typed.
  Variable table : list (N * ety).
  (** DateTime / Time converters on text, and their writers *)
  Variable conv_dt : bool -> text -> result (option pyval).      (* is_time, text *)
  Variable unconv_dt : bool -> pyval -> result text.

  Fixpoint lookup_ety (l : list (N * ety)) (t : N) : option ety :=
    match l with [] => None | (k, e) :: r => if k =? t then Some e else lookup_ety r t end.

  Definition conv_typed (t : N) (x : sin pyval) : result (option pyval) :=
    match lookup_ety table t with
    | Some (ESty e) =>
      match convert e (match x with SText _ s => PStr s | SNat _ v => v end) with
      | OK (PNone, _) => OK None
      | OK (v, _) => OK (Some v)
      | Err k => Err k
      end
    | Some (EDateTime _) => match x with SText _ s => conv_dt false s | SNat _ v => OK (Some v) end
    | Some (ETime _) => match x with SText _ s => conv_dt true s | SNat _ v => OK (Some v) end
    | _ => Err Crash
    end.
  Definition unconv_typed (t : N) (v : pyval) : result text :=
    match lookup_ety table t with
    | Some (ESty e) => match unconvert e v with OK (Some s, _) => OK s | OK (None, _) => Err Crash | Err k => Err k end
    | Some (EDateTime _) => unconv_dt false v
    | Some (ETime _) => unconv_dt true v
    | _ => Err Crash
    end.
End Typed.
