(** Hand models of the "human-friendly" shortcut properties of ofxtools.models, as DATA (descriptors) plus one
    interpreter.  Each property body of /repo is mapped to its descriptor by tools/ofxv/translate_lookup.py through the
    normalised-AST hash of the body (fail-closed):
      SCAlias a              return self.a                                     STMTRS/CCSTMTRS/INVSTMTRS .account .transactions .balance(s)
                                                                               .positions; *TRNRS.statement; PROFTRNRS.profile
                                                                               (models/bank/stmt.py:255-265,279,318-328,342; bank/stmtend.py:157;
                                                                                invest/stmt.py:289-303,317; profile.py:161)
      SCVia a n              return self.a.n                                   SONRS.org / SONRS.fid   (models/signon.py:174-180)
      SCCur a1 a2 w          cur = self.a1; if cur is None: cur = self.a2;     Origcurrency.curtype / cursym / currate  (models/i18n.py:1208-1230)
                             if cur is not None: return cur.__class__.__name__ (w = None) / cur.w
      SCSignon a1 n1 a2 n2   OFX.signon        (models/ofx.py:101-107)
      SCTruthyVia a n        OFX.securities    (models/ofx.py:109-115)        msgs = getattr(self, a, None); if msgs: return msgs.n; return []
      SCConcat attrs n       OFX.statements    (models/ofx.py:117-131)        for a in attrs: msg = getattr(self, a, None); if msg: stmts.extend(msg.n)
      SCWrapped st ea tests  *MSGSRQV1 / *MSGSRSV1 .statements (models/bank/msgsets.py:103-115,132-147,209-221,230-246; invest/msgsets.py:40-69):
                             for m in self: first (A, a) in tests with isinstance(m, A): x = m.a   [none: x = None, or AssertionError when ea];
                             if x is not None: [for s in st: x.s = m.s]  stmts.append(x)
      SCMembersOf A          SECLISTMSGSRSV1.securities (invest/msgsets.py:109-115): for child in self: if isinstance(child, A): l.extend(child)
    The stapling of TRNUID / CLTCOOKIE onto the statement (x.s = m.s) is modelled by its reads only (m.s may raise); the write
    creates an instance attribute outside the spec and is not represented (see notes/status/C16.md).
    Definitions only. *)
From OfxV Require Import Base.Prelude Model.Schema Model.Convert.
Local Open Scope string_scope.

Inductive shortcut :=
| SCAlias (a : string)
| SCVia (a n : string)
| SCCur (a1 a2 : string) (w : option string)
| SCSignon (a1 n1 a2 n2 : string)
| SCTruthyVia (a n : string)
| SCConcat (attrs : list string) (n : string)
| SCWrapped (staple : list string) (else_assert : bool) (tests : list (string * string))
| SCMembersOf (cls : string).

(** kind of a class-level name that is not a spec attribute *)
Inductive ckind := KShortcut (sc : shortcut) | KOther.

(** generated tables (Gen/LookupGen.v): dir(Aggregate); per class the further class-level names; dir(None) *)
Record ltab := mk_ltab { lt_base : list string; lt_extra : list (string * list (string * ckind)); lt_none : list string }.

Definition class_attr (tb : ltab) (cn name : string) : option ckind :=
  match (match assoc cn (lt_extra tb) with Some l => assoc name l | None => None end) with
  | Some k => Some k
  | None => if mem name (lt_base tb) then Some KOther else None
  end.

Section Sc.
  Variable sval : Type.
  Notation inst := (inst sval).
  Notation fval := (fval sval).
  Notation member := (member sval).

  (** what an attribute read can return: None, a scalar, a str list member, a class name (curtype), an aggregate, a plain
      list, or some class-level object (method, mapping, ...) whose value is not modelled *)
  Inductive pyobj := PNone | PVal (v : sval) | PStr (s : text) | PName (s : string) | PInst (i : inst) | PList (l : list pyobj) | PClassAttr.
  (** outcome of a read: value, AttributeError, KeyError, any other exception *)
  Inductive lres := LOK (v : pyobj) | LAttr | LKey | LOther.

  Definition obj_of_fval (f : fval) : pyobj := match f with FNone _ => PNone | FVal _ v => PVal v | FSub _ i => PInst i end.
  Definition obj_of_member (m : member) : pyobj :=
    match m with MAgg _ i => PInst i | MStr _ s => PStr s | MVal _ None => PNone | MVal _ (Some v) => PVal v end.
  (** bool(value) of what a spec attribute can hold (an Aggregate is a list: empty = falsy) *)
  Definition truthy_obj (v : pyobj) : bool :=
    match v with
    | PNone => false
    | PInst i => match imembers sval i with [] => false | _ => true end
    | PList l => match l with [] => false | _ => true end
    | PStr s => match s with [] => false | _ => true end
    | _ => true
    end.

  Variable S : schema.
  Variable tb : ltab.

  (** getattr(None, n) *)
  Definition none_get (n : string) : lres := if mem n (lt_none tb) then LOK PClassAttr else LAttr.

  (** Element.__get__ / Unsupported.__get__ on an instance of class c with dictionary fs (Types.py:157-167, 813):
      obj.__dict__[name], KeyError when unset (list attributes are never set; a blank instance has nothing set).
      A name outside the spec is not a descriptor read: shortcuts never do that (checked on the generated table). *)
  Definition own_get (c : cinfo) (fs : list (string * fval)) (a : string) : lres :=
    match assoc a (ci_spec c) with
    | Some AUnsupported => LOK PNone
    | Some _ => match assoc a fs with Some f => LOK (obj_of_fval f) | None => LKey end
    | None => LOther
    end.

  Definition first_test (tests : list (string * string)) (j : inst) : option (string * string) :=
    find (fun t => isinstance sval S j (fst t)) tests.
  (** names read on a list member by a SCWrapped body *)
  Definition wrapped_pick (staple : list string) (tests : list (string * string)) (m : member) : list string :=
    match m with
    | MAgg _ j => match first_test tests j with Some (_, a) => a :: staple | None => [] end
    | _ => []
    end.
  Fixpoint first_err (l : list lres) : option lres :=
    match l with [] => None | LOK _ :: t => first_err t | e :: _ => Some e end.

  Section Body.
    Variable c : cinfo.
    Variable fs : list (string * fval).
    Variable ms : list member.
    (** fsubf n: for every entry (k, value) of the dictionary, (k, getattr(value, n)) *)
    Variable fsubf : string -> list (string * lres).
    (** msubf pick: for every list member m, (m, [getattr(m, n) | n in pick m]) *)
    Variable msubf : (member -> list string) -> list (member * list lres).

    (** getattr(self.a, n) *)
    Definition via (a n : string) : lres :=
      match own_get c fs a with
      | LOK PNone => none_get n
      | LOK _ => match assoc a (fsubf n) with Some r => r | None => LOther end
      | e => e
      end.

    Definition cur_of (w : option string) (a : string) (v : pyobj) : lres :=
      match w with
      | None => match v with PInst j => LOK (PName (icls sval j)) | _ => LOther end
      | Some n => match assoc a (fsubf n) with Some r => r | None => LOther end
      end.

    Fixpoint concat_loop (n : string) (attrs : list string) (acc : list pyobj) : lres :=
      match attrs with
      | [] => LOK (PList acc)
      | a :: t =>
        match own_get c fs a with
        | LOK v =>
          if truthy_obj v then
            match via a n with
            | LOK (PList l) => concat_loop n t (acc ++ l)%list
            | LOK (PInst j) => concat_loop n t (acc ++ map obj_of_member (imembers sval j))%list     (* list.extend(aggregate) *)
            | LOK _ => LOther                                                                        (* not iterable / not modelled *)
            | e => e
            end
          else concat_loop n t acc
        | e => e
        end
      end.

    Fixpoint wrapped_loop (ea : bool) (tests : list (string * string)) (l : list (member * list lres)) (acc : list pyobj) : lres :=
      match l with
      | [] => LOK (PList acc)
      | (m, rs) :: t =>
        match m with
        | MAgg _ j =>
          match first_test tests j with
          | None => if ea then LOther else wrapped_loop ea tests t acc                   (* assert isinstance(...) *)
          | Some _ =>
            match rs with
            | LOK PNone :: _ => wrapped_loop ea tests t acc
            | LOK x :: rest => match first_err rest with Some e => e | None => wrapped_loop ea tests t (acc ++ [x])%list end
            | e :: _ => e
            | [] => LOther
            end
          end
        | _ => if ea then LOther else wrapped_loop ea tests t acc
        end
      end.

    Definition run_shortcut (sc : shortcut) : lres :=
      match sc with
      | SCAlias a => own_get c fs a
      | SCVia a n => via a n
      | SCCur a1 a2 w =>
        match own_get c fs a1 with
        | LOK PNone => match own_get c fs a2 with LOK PNone => LOK PNone | LOK v => cur_of w a2 v | e => e end
        | LOK v => cur_of w a1 v
        | e => e
        end
      | SCSignon a1 n1 a2 n2 =>
        match own_get c fs a1 with
        | LOK PNone => match own_get c fs a2 with LOK PNone => LOther | LOK _ => via a2 n2 | e => e end
        | LOK _ => via a1 n1
        | e => e
        end
      | SCTruthyVia a n =>
        match own_get c fs a with
        | LOK v => if truthy_obj v then via a n else LOK (PList [])
        | e => e
        end
      | SCConcat attrs n => concat_loop n attrs []
      | SCWrapped staple ea tests => wrapped_loop ea tests (msubf (wrapped_pick staple tests)) []
      | SCMembersOf A =>
        LOK (PList (flat_map (fun m => match m with
                                       | MAgg _ j => if isinstance sval S j A then map obj_of_member (imembers sval j) else []
                                       | _ => [] end) ms))
      end.
  End Body.
End Sc.
