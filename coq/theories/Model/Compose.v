(** Model of request composition in ofxtools/Client.py (property C06), transcribed from:
      OFXClient.__init__ (lines 253-298: defaults, the close_elements/version guard),
      request_statements (332-423: sorted by parameter class name, groupby class, wrap_stmtrq dispatch 967-1006,
        sort of the (message-set class, [trnrq]) pairs by class name, second groupby, dict, OFX(...)),
      _request_profile (549-589), request_accounts (591-643), request_tax1099 (645-697; with the repair of
        fixes/C06-1: acctnum is passed on), signon (699-731), the five *trnrq builders (733-818), serialize (907-964),
      header.make_header / OFXHeaderV1.__str__ / OFXHeaderV2.__str__,
    and, for the ~30 aggregate classes instantiated on the way, from models/base.py Aggregate.__init__ / to_etree and
    the converters of Types.py (String: "" is None, saxutils.unescape, length; OneOf; Bool; DateTime; SubAggregate).

    The result is the ELEMENT TREE that OFX(...).to_etree() yields plus the header text.  The element ORDER inside
    each class is written out here by hand; string limits, required flags and OneOf domains are looked up in the class
    table regenerated from the live classes (Gen/ComposeGen.v), and [schema_as_modelled] (an obligation) checks that
    every class still has the attributes used here, of the kind and in the relative order used here, and no other
    required attribute or mutex group.  A lookup that fails makes the model answer [Err Crash]; that cannot happen
    while [schema_as_modelled = true].

    Oracles: [uuids] is the stream of values OFXClient.uuid returns (consumed in call order), [dtclient] the value of
    OFXClient.dtclient().  Date-times are abstract: an aware datetime is carried as the text its formatting produces
    (formatting is property C09's business), a naive one is [DNaive] (the converters reject it), None is [DNone].
    Tax years: Python's int() is modelled on ASCII text.  Definitions only. *)
From OfxV Require Import Base.Prelude Base.Digits Base.ComposeBase Gen.ComposeGen.
Local Open Scope N_scope.

Inductive etree := Node (tag : text) (txt : option text) (children : list etree).
Definition tag_of (t : etree) : text := match t with Node g _ _ => g end.
Definition txt_of (t : etree) : option text := match t with Node _ x _ => x end.
Definition children_of (t : etree) : list etree := match t with Node _ _ c => c end.

Fixpoint etree_eqb (a b : etree) : bool :=
  match a, b with
  | Node g1 x1 c1, Node g2 x2 c2 =>
    text_eqb g1 g2 && option_eqb text_eqb x1 x2 &&
    (fix go (l1 l2 : list etree) : bool :=
       match l1, l2 with
       | [], [] => true
       | u :: l1', v :: l2' => etree_eqb u v && go l1' l2'
       | _, _ => false
       end) c1 c2
  end.

Inductive pdate := DNone | DNaive | DAware (formatted : text).

(* ---------------------------------------------------------------- converters (Types.py) *)
Definition crlf : text := [13; 10].
(** str.upper() / str.lower() on the ASCII letters (attribute and class names are ASCII) *)
Definition up (s : text) : text := map (fun c => if (97 <=? c) && (c <=? 122) then c - 32 else c) s.
Definition low (s : text) : text := map (fun c => if (65 <=? c) && (c <=? 90) then c + 32 else c) s.

(** saxutils.unescape(value, entities) with the entities nbsp, apos, quot of String._convert_str: lt, gt, then the
    three extra ones in dict order, ampersand last.  Applied to every str handed to a constructor, also by a
    Python caller. *)
Definition unescape (s : text) : text :=
  replace (T "&amp;") (T "&")
   (replace (T "&quot;") [34] (replace (T "&apos;") (T "'") (replace (T "&nbsp;") (T " ")
     (replace (T "&gt;") (T ">") (replace (T "&lt;") (T "<") s))))).

Definition enforce_required {A} (req : bool) : result (option A) := if req then Err Reject else OK None.
Definition tlen (s : text) : N := N.of_nat (List.length s).

Definition conv_string (len : option N) (strict req : bool) (v : option text) : result (option text) :=
  match v with
  | None | Some [] => enforce_required req
  | Some s =>
    let s' := unescape s in
    match len with
    | Some n => if (n <? tlen s') && strict then Err Reject else OK (Some s')
    | None => OK (Some s')
    end
  end.
Definition conv_oneof (valid : list text) (req : bool) (v : option text) : result (option text) :=
  match v with
  | None | Some [] => enforce_required req
  | Some s => if existsb (text_eqb s) valid then OK (Some s) else Err Reject
  end.
Definition conv_bool (req : bool) (v : option bool) : result (option text) :=
  match v with
  | None => enforce_required req
  | Some true => OK (Some (T "Y"))
  | Some false => OK (Some (T "N"))
  end.
Definition conv_date (req : bool) (v : pdate) : result (option text) :=
  match v with
  | DNone => enforce_required req
  | DNaive => Err Reject
  | DAware f => OK (Some f)
  end.

(* ---------------------------------------------------------------- class table lookups *)
Fixpoint assoc {B} (k : text) (l : list (text * B)) : option B :=
  match l with
  | [] => None
  | (k', v) :: r => if text_eqb k k' then Some v else assoc k r
  end.
Definition lookup_class (cls : text) : option cclass := find (fun c => text_eqb (cc_name c) cls) class_table.
Definition lookup_attr (cls attr : text) : option cattr :=
  match lookup_class cls with Some c => assoc attr (cc_spec c) | None => None end.

Definition leaf (tag : text) (v : option text) : list etree :=
  match v with Some t => [Node tag (Some t) []] | None => [] end.

(** one keyword argument of a constructor: conversion by the attribute's converter, then the child it becomes in
    to_etree (nothing for None) *)
Definition fstr (cls attr : text) (v : option text) : result (list etree) :=
  match lookup_attr cls attr with
  | Some (CStr len strict req) => rmap (leaf (up attr)) (conv_string len strict req v)
  | _ => Err Crash
  end.
Definition foneof (cls attr : text) (v : option text) : result (list etree) :=
  match lookup_attr cls attr with
  | Some (COneOf valid req) => rmap (leaf (up attr)) (conv_oneof valid req v)
  | _ => Err Crash
  end.
Definition fbool (cls attr : text) (v : option bool) : result (list etree) :=
  match lookup_attr cls attr with
  | Some (CBool req) => rmap (leaf (up attr)) (conv_bool req v)
  | _ => Err Crash
  end.
Definition fdate (cls attr : text) (v : pdate) : result (list etree) :=
  match lookup_attr cls attr with
  | Some (CDate req) => rmap (leaf (up attr)) (conv_date req v)
  | _ => Err Crash
  end.
Definition fsub (cls attr : text) (child : option etree) : result (list etree) :=
  match lookup_attr cls attr with
  | Some (CSub target req) =>
    match child with
    | None => if req then Err Reject else OK []
    | Some ch => if text_eqb (tag_of ch) target then OK [ch] else Err Reject
    end
  | _ => Err Crash
  end.

Fixpoint collect (l : list (result (list etree))) : result (list etree) :=
  match l with
  | [] => OK []
  | r :: rest => bind r (fun a => bind (collect rest) (fun b => OK (a ++ b)%list))
  end.
(** to_etree of cls built from keyword arguments: the children in spec order (the order of [fields] is the hand transcription) *)
Definition agg (cls : text) (fields : list (result (list etree))) : result etree :=
  match lookup_class cls with
  | Some _ => rmap (Node cls None) (collect fields)
  | None => Err Crash
  end.
(** to_etree of cls built from positional members, for a class with list attributes only: _apply_args checks each member's class *)
Definition member_ok (cls : text) (m : etree) : bool :=
  match lookup_attr cls (low (tag_of m)) with Some (CListAgg _) => true | _ => false end.
Definition aggl (cls : text) (members : list etree) : result etree :=
  match lookup_class cls with
  | Some _ => if forallb (member_ok cls) members then OK (Node cls None members) else Err Reject
  | None => Err Crash
  end.

(* ---------------------------------------------------------------- client configuration *)
Record cfg := { url : text; userid : text; clientuid : option text; org : option text; fid : option text;
                version : N; appid : text; appver : text; language : text; useragent : text;
                prettyprint : bool; close_elements : bool; bankid : option text; brokerid : option text;
                persist_cookies : bool }.
(** the arguments of OFXClient(...): None = not given *)
Record init_args := { a_url : text; a_userid : option text; a_clientuid : option text; a_org : option text;
                      a_fid : option text; a_version : option N; a_appid : option text; a_appver : option text;
                      a_language : option text; a_prettyprint : option bool; a_close_elements : option bool;
                      a_bankid : option text; a_brokerid : option text; a_useragent : option text;
                      a_persist_cookies : option bool }.
Definition dflt {A} (o : option A) (d : A) : A := match o with Some v => v | None => d end.
Definition dflto {A} (o : option A) (d : option A) : option A := match o with Some v => Some v | None => d end.

Definition client_init (a : init_args) : result cfg :=
  let c := {| url := a_url a; userid := dflt (a_userid a) d_userid; clientuid := dflto (a_clientuid a) d_clientuid;
              org := dflto (a_org a) d_org; fid := dflto (a_fid a) d_fid; version := dflt (a_version a) d_version;
              appid := dflt (a_appid a) d_appid; appver := dflt (a_appver a) d_appver;
              language := dflt (a_language a) d_language; useragent := dflt (a_useragent a) d_useragent;
              prettyprint := dflt (a_prettyprint a) d_prettyprint;
              close_elements := dflt (a_close_elements a) d_close_elements;
              bankid := dflto (a_bankid a) d_bankid; brokerid := dflto (a_brokerid a) d_brokerid;
              persist_cookies := dflt (a_persist_cookies a) d_persist_cookies |} in
  if negb (close_elements c) && (200 <=? version c) then Err Reject else OK c.

(* ---------------------------------------------------------------- header (header.py) *)
Definition conv_fileuid (v : option text) : result text :=
  let s := match v with None | Some [] => T "NONE" | Some s => s end in   (* newfileuid or "NONE" *)
  bind (conv_string (Some hdr_fileuid_len) true false (Some s))
       (fun r => match r with Some x => OK x | None => Err Crash end).
Definition header_v1 (ver : N) (newfileuid : text) : text :=
  (T "OFXHEADER:100" ++ crlf ++ T "DATA:OFXSGML" ++ crlf ++ T "VERSION:" ++ dec_of_N ver ++ crlf ++
   T "SECURITY:NONE" ++ crlf ++ T "ENCODING:USASCII" ++ crlf ++ T "CHARSET:NONE" ++ crlf ++
   T "COMPRESSION:NONE" ++ crlf ++ T "OLDFILEUID:NONE" ++ crlf ++ T "NEWFILEUID:" ++ newfileuid ++ crlf ++ crlf)%list.
Definition header_v2 (ver : N) (newfileuid : text) : text :=
  (T "<?xml version=""1.0"" encoding=""UTF-8"" standalone=""no""?>" ++ crlf ++
   T "<?OFX OFXHEADER=""200"" VERSION=""" ++ dec_of_N ver ++ T """ SECURITY=""NONE"" OLDFILEUID=""NONE"" NEWFILEUID=""" ++
   newfileuid ++ T """?>" ++ crlf)%list.
(** str(make_header(version, newfileuid=...)) *)
Definition header_text (ver : N) (newfileuid : option text) : result text :=
  bind (conv_fileuid newfileuid) (fun nf =>
  if ver / 100 =? 1 then (if ver <? 10 ^ hdr_v1_version_len then OK (header_v1 ver nf) else Err Reject)
  else if ver / 100 =? 2 then (if existsb (N.eqb ver) hdr_v2_versions then OK (header_v2 ver nf) else Err Reject)
  else Err Reject).

Record composed := { c_header : text; c_body : etree }.
Definition composed_eqb (a b : composed) : bool :=
  text_eqb (c_header a) (c_header b) && etree_eqb (c_body a) (c_body b).

(** OFXClient.serialize, up to the choice of writer: the header text and the tree handed to the writer *)
Definition serialize (c : cfg) (over_version : option N) (over_close : option bool)
           (newfileuid : option text) (body : etree) : result composed :=
  let ver := dflt over_version (version c) in
  let close := dflt over_close (close_elements c) in
  bind (header_text ver newfileuid) (fun h =>
  if negb close && (200 <=? ver) then Err Reject else OK {| c_header := h; c_body := body |}).

(* ---------------------------------------------------------------- sign-on *)
Definition nonempty (s : text) : bool := match s with [] => false | _ => true end.
Definition truthy (o : option text) : bool := match o with Some (_ :: _) => true | _ => false end.

Definition mk_FI (o f : option text) : result etree :=
  agg (T "FI") [fstr (T "FI") (T "org") o; fstr (T "FI") (T "fid") f].

Definition mk_SONRQ (dtclient : pdate) (uid upass lang : text) (fi : option etree) (aid aver : text)
           (cuid : option text) : result etree :=
  if nonempty uid && nonempty upass then        (* SONRQ.validate_args: (userid and userpass) or userkey *)
    let c := T "SONRQ" in
    agg c [fdate c (T "dtclient") dtclient; fstr c (T "userid") (Some uid); fstr c (T "userpass") (Some upass);
           foneof c (T "language") (Some lang); fsub c (T "fi") fi; fstr c (T "appid") (Some aid);
           fstr c (T "appver") (Some aver); fstr c (T "clientuid") cuid]
  else Err Reject.

(** OFXClient.signon(userpass, userid=None) *)
Definition signon (c : cfg) (dtclient : pdate) (userpass : text) (over_userid : option text) : result etree :=
  bind (if truthy (org c) then rmap Some (mk_FI (org c) (fid c)) else OK None) (fun fi =>
  let uid := dflt over_userid (userid c) in
  let cuid := if version c <? 103 then None else clientuid c in
  bind (mk_SONRQ dtclient uid userpass (language c) fi (appid c) (appver c) cuid) (fun sonrq =>
  agg (T "SIGNONMSGSRQV1") [fsub (T "SIGNONMSGSRQV1") (T "sonrq") (Some sonrq)])).

(* ---------------------------------------------------------------- statement requests *)
Inductive rq :=
| StmtRq (acctid accttype : option text) (dtstart dtend : pdate) (inctran : option bool)
| CcStmtRq (acctid : option text) (dtstart dtend : pdate) (inctran : option bool)
| InvStmtRq (acctid : option text) (dtstart dtend dtasof : pdate) (inctran incoo incpos incbal : option bool)
| StmtEndRq (acctid accttype : option text) (dtstart dtend : pdate)
| CcStmtEndRq (acctid : option text) (dtstart dtend : pdate).

Inductive kind := KStmt | KCcStmt | KInvStmt | KStmtEnd | KCcStmtEnd.
Definition kind_of (r : rq) : kind :=
  match r with StmtRq _ _ _ _ _ => KStmt | CcStmtRq _ _ _ _ => KCcStmt | InvStmtRq _ _ _ _ _ _ _ _ => KInvStmt
             | StmtEndRq _ _ _ _ => KStmtEnd | CcStmtEndRq _ _ _ => KCcStmtEnd end.
Definition kind_eqb (a b : kind) : bool :=
  match a, b with KStmt, KStmt | KCcStmt, KCcStmt | KInvStmt, KInvStmt | KStmtEnd, KStmtEnd | KCcStmtEnd, KCcStmtEnd => true
                | _, _ => false end.
(** the class's __name__: the sort key of request_statements *)
Definition kind_name (k : kind) : text :=
  match k with KStmt => cn_StmtRq | KCcStmt => cn_CcStmtRq | KInvStmt => cn_InvStmtRq
             | KStmtEnd => cn_StmtEndRq | KCcStmtEnd => cn_CcStmtEndRq end.

Inductive msgset := MBank | MCc | MInv.
Definition msgset_eqb (a b : msgset) : bool :=
  match a, b with MBank, MBank | MCc, MCc | MInv, MInv => true | _, _ => false end.
Definition msgset_name (m : msgset) : text :=
  match m with MBank => mn_BANKMSGSRQV1 | MCc => mn_CREDITCARDMSGSRQV1 | MInv => mn_INVSTMTMSGSRQV1 end.
(** wrap_stmtrq dispatch: the message-set class each registered function returns *)
Definition msgset_of (k : kind) : msgset :=
  match k with KStmt | KStmtEnd => MBank | KCcStmt | KCcStmtEnd => MCc | KInvStmt => MInv end.

Definition mk_BANKACCTFROM (bank acct atype : option text) : result etree :=
  let c := T "BANKACCTFROM" in
  agg c [fstr c (T "bankid") bank; fstr c (T "acctid") acct; foneof c (T "accttype") atype].
Definition mk_CCACCTFROM (acct : option text) : result etree :=
  agg (T "CCACCTFROM") [fstr (T "CCACCTFROM") (T "acctid") acct].
Definition mk_INVACCTFROM (broker acct : option text) : result etree :=
  let c := T "INVACCTFROM" in agg c [fstr c (T "brokerid") broker; fstr c (T "acctid") acct].
Definition mk_INCTRAN (dtstart dtend : pdate) (include : option bool) : result etree :=
  let c := T "INCTRAN" in agg c [fdate c (T "dtstart") dtstart; fdate c (T "dtend") dtend; fbool c (T "include") include].
Definition mk_INCPOS (dtasof : pdate) (include : option bool) : result etree :=
  let c := T "INCPOS" in agg c [fdate c (T "dtasof") dtasof; fbool c (T "include") include].

(** cls(trnuid=uuid, <attr>=inner) for the TrnRq subclasses *)
Definition trnrq (cls attr : text) (uuid : text) (inner : etree) : result etree :=
  agg cls [fstr cls (T "trnuid") (Some uuid); fsub cls attr (Some inner)].

Definition stmttrnrq (c : cfg) (acct atype : option text) (dtstart dtend : pdate) (inctran : option bool) (u : text) :=
  bind (mk_BANKACCTFROM (bankid c) acct atype) (fun a =>
  bind (mk_INCTRAN dtstart dtend inctran) (fun i =>
  bind (agg (T "STMTRQ") [fsub (T "STMTRQ") (T "bankacctfrom") (Some a); fsub (T "STMTRQ") (T "inctran") (Some i)]) (fun r =>
  trnrq (T "STMTTRNRQ") (T "stmtrq") u r))).
Definition stmtendtrnrq (c : cfg) (acct atype : option text) (dtstart dtend : pdate) (u : text) :=
  bind (mk_BANKACCTFROM (bankid c) acct atype) (fun a =>
  let k := T "STMTENDRQ" in
  bind (agg k [fsub k (T "bankacctfrom") (Some a); fdate k (T "dtstart") dtstart; fdate k (T "dtend") dtend]) (fun r =>
  trnrq (T "STMTENDTRNRQ") (T "stmtendrq") u r)).
Definition ccstmttrnrq (acct : option text) (dtstart dtend : pdate) (inctran : option bool) (u : text) :=
  bind (mk_CCACCTFROM acct) (fun a =>
  bind (mk_INCTRAN dtstart dtend inctran) (fun i =>
  bind (agg (T "CCSTMTRQ") [fsub (T "CCSTMTRQ") (T "ccacctfrom") (Some a); fsub (T "CCSTMTRQ") (T "inctran") (Some i)]) (fun r =>
  trnrq (T "CCSTMTTRNRQ") (T "ccstmtrq") u r))).
Definition ccstmtendtrnrq (acct : option text) (dtstart dtend : pdate) (u : text) :=
  bind (mk_CCACCTFROM acct) (fun a =>
  let k := T "CCSTMTENDRQ" in
  bind (agg k [fsub k (T "ccacctfrom") (Some a); fdate k (T "dtstart") dtstart; fdate k (T "dtend") dtend]) (fun r =>
  trnrq (T "CCSTMTENDTRNRQ") (T "ccstmtendrq") u r)).
Definition invstmttrnrq (c : cfg) (acct : option text) (dtstart dtend dtasof : pdate)
           (inctran incoo incpos incbal : option bool) (u : text) :=
  bind (mk_INVACCTFROM (brokerid c) acct) (fun a =>
  bind (match inctran with                              (* if inctran: INCTRAN(...) else None *)
        | Some true => rmap Some (mk_INCTRAN dtstart dtend inctran)
        | _ => OK None
        end) (fun i =>
  bind (mk_INCPOS dtasof incpos) (fun p =>
  let k := T "INVSTMTRQ" in
  bind (agg k [fsub k (T "invacctfrom") (Some a); fsub k (T "inctran") i; fbool k (T "incoo") incoo;
               fsub k (T "incpos") (Some p); fbool k (T "incbal") incbal]) (fun r =>
  trnrq (T "INVSTMTTRNRQ") (T "invstmtrq") u r)))).

(** the wrapper built for one request with the transaction id [u] *)
Definition build_trnrq (c : cfg) (r : rq) (u : text) : result etree :=
  match r with
  | StmtRq a t s e i => stmttrnrq c a t s e i u
  | CcStmtRq a s e i => ccstmttrnrq a s e i u
  | InvStmtRq a s e d i oo p b => invstmttrnrq c a s e d i oo p b u
  | StmtEndRq a t s e => stmtendtrnrq c a t s e u
  | CcStmtEndRq a s e => ccstmtendtrnrq a s e u
  end.

(** OFXClient.uuid: next value of the oracle stream (the harness's iterator raises when exhausted) *)
Definition take_uuid (uu : list text) : result (text * list text) :=
  match uu with u :: r => OK (u, r) | [] => Err Crash end.

Fixpoint wrap_all (c : cfg) (rqs : list rq) (uu : list text) : result (list etree * list text) :=
  match rqs with
  | [] => OK ([], uu)
  | r :: rest =>
    bind (take_uuid uu) (fun uu1 =>
    bind (build_trnrq c r (fst uu1)) (fun w =>
    bind (wrap_all c rest (snd uu1)) (fun ws => OK (w :: fst ws, snd ws))))
  end.
(** [wrap_stmtrq(cls(), rqs, self) for cls, rqs in groupby(...)] *)
Fixpoint wrap_groups (c : cfg) (gs : list (kind * list rq)) (uu : list text)
  : result (list (msgset * list etree) * list text) :=
  match gs with
  | [] => OK ([], uu)
  | (k, rqs) :: rest =>
    bind (wrap_all c rqs uu) (fun ws =>
    bind (wrap_groups c rest (snd ws)) (fun r => OK ((msgset_of k, fst ws) :: fst r, snd r)))
  end.

Definition kind_leb (a b : rq) : bool := text_leb (kind_name (kind_of a)) (kind_name (kind_of b)).
Definition pair_leb (a b : msgset * list etree) : bool := text_leb (msgset_name (fst a)) (msgset_name (fst b)).

(** dict(pairs)[key]: the last pair with that key *)
Definition dict_get (m : msgset) (d : list (msgset * etree)) : option etree :=
  match find (fun p => msgset_eqb (fst p) m) (rev d) with Some p => Some (snd p) | None => None end.
Fixpoint mk_msgs (gs : list (msgset * list (msgset * list etree))) : result (list (msgset * etree)) :=
  match gs with
  | [] => OK []
  | (m, g) :: rest =>
    bind (aggl (msgset_name m) (List.concat (map snd g))) (fun e =>      (* msgcls applied to the chained members *)
    bind (mk_msgs rest) (fun r => OK ((m, e) :: r)))
  end.

(** OFX(signonmsgsrqv1=signon, and the message sets).to_etree(): children in the order of OFX.spec *)
Definition mk_OFX (signon_ : etree) (rest : list (result (list etree))) : result etree :=
  agg (T "OFX") (fsub (T "OFX") (T "signonmsgsrqv1") (Some signon_) :: rest).

(** request_statements after the wrappers are built: sort of the (message-set class, [trnrq]) pairs by class name, groupby,
    dict, sign-on, OFX(...), NEWFILEUID, serialize *)
Definition statements_tail (c : cfg) (dtclient : pdate) (password : text) (gen_newfileuid : bool)
           (tr : list (msgset * list etree) * list text) : result composed :=
  let trnrqs := isort pair_leb (fst tr) in
  bind (mk_msgs (groupby msgset_eqb fst trnrqs)) (fun msgs =>
  bind (signon c dtclient password None) (fun so =>
  bind (mk_OFX so [fsub (T "OFX") (T "bankmsgsrqv1") (dict_get MBank msgs);
                   fsub (T "OFX") (T "creditcardmsgsrqv1") (dict_get MCc msgs);
                   fsub (T "OFX") (T "invstmtmsgsrqv1") (dict_get MInv msgs)]) (fun ofx =>
  bind (if gen_newfileuid then rmap (fun p => (Some (fst p), snd p)) (take_uuid (snd tr)) else OK (None, snd tr)) (fun nf =>
  serialize c None None (fst nf) ofx)))).

(** requests that are instances of the five stock parameter classes *)
Definition request_statements (c : cfg) (uuids : list text) (dtclient : pdate) (password : text)
           (gen_newfileuid : bool) (requests : list rq) : result composed :=
  let sorted := isort kind_leb requests in
  let groups := groupby kind_eqb kind_of sorted in
  bind (wrap_groups c groups uuids) (statements_tail c dtclient password gen_newfileuid).

(** the same for requests that may be instances of USER SUBCLASSES of the stock classes (class Tagged(CcStmtRq): pass):
    a request is (its class's __name__, its fields); sorted by that name, grouped by class (one class per name: the
    domain), each group dispatched by singledispatch to the wrapper of its base kind (the class of the group's first
    member decides the message set).  With the stock names this is [request_statements] (Proofs: named_stock). *)
Definition named := (text * rq)%type.
Definition name_leb (a b : named) : bool := text_leb (fst a) (fst b).
Fixpoint wrap_named_groups (c : cfg) (gs : list (text * list named)) (uu : list text)
  : result (list (msgset * list etree) * list text) :=
  match gs with
  | [] => OK ([], uu)
  | (_, rqs) :: rest =>
    match rqs with
    | [] => wrap_named_groups c rest uu                       (* groupby never yields an empty group *)
    | first :: _ =>
      bind (wrap_all c (map snd rqs) uu) (fun ws =>
      bind (wrap_named_groups c rest (snd ws)) (fun r => OK ((msgset_of (kind_of (snd first)), fst ws) :: fst r, snd r)))
    end
  end.
Definition request_statements_named (c : cfg) (uuids : list text) (dtclient : pdate) (password : text)
           (gen_newfileuid : bool) (requests : list named) : result composed :=
  let sorted := isort name_leb requests in
  let groups := groupby text_eqb fst sorted in
  bind (wrap_named_groups c groups uuids) (statements_tail c dtclient password gen_newfileuid).

(* ---------------------------------------------------------------- account info, tax, profile requests *)
Definition request_accounts (c : cfg) (uuids : list text) (dtclient : pdate) (password : text) (dtacctup : pdate)
           (gen_newfileuid : bool) : result composed :=
  bind (signon c dtclient password None) (fun so =>
  bind (agg (T "ACCTINFORQ") [fdate (T "ACCTINFORQ") (T "dtacctup") dtacctup]) (fun rq_ =>
  bind (take_uuid uuids) (fun u =>
  bind (trnrq (T "ACCTINFOTRNRQ") (T "acctinforq") (fst u) rq_) (fun trn =>
  bind (aggl (T "SIGNUPMSGSRQV1") [trn]) (fun msgs =>
  bind (mk_OFX so [fsub (T "OFX") (T "signupmsgsrqv1") (Some msgs)]) (fun ofx =>
  bind (if gen_newfileuid then rmap (fun p => (Some (fst p), snd p)) (take_uuid (snd u)) else OK (None, snd u)) (fun nf =>
  serialize c None None (fst nf) ofx))))))).

(** Python int(str) on ASCII text: surrounding whitespace, an optional sign, digits with single underscores between
    them.  The value as (negative?, magnitude). *)
Definition is_space (c : N) : bool := ((9 <=? c) && (c <=? 13)) || ((28 <=? c) && (c <=? 32)).
Fixpoint lstrip (s : text) : text := match s with c :: r => if is_space c then lstrip r else s | [] => [] end.
Definition strip (s : text) : text := rev (lstrip (rev (lstrip s))).
(** digits with single interior underscores; [prev_digit]: the previous character was a digit *)
Fixpoint int_digits (prev_digit : bool) (acc : N) (s : text) : option N :=
  match s with
  | [] => if prev_digit then Some acc else None
  | c :: r => if is_digit c then int_digits true (acc * 10 + (c - 48)) r
              else if (c =? 95) && prev_digit then (match r with d :: _ => if is_digit d then int_digits false acc r else None | [] => None end)
              else None
  end.
Definition py_int (s : text) : option (bool * N) :=
  match strip s with
  | [] => None
  | c :: r => if c =? 45 then option_map (pair true) (int_digits false 0 r)
              else if c =? 43 then option_map (pair false) (int_digits false 0 r)
              else option_map (pair false) (int_digits false 0 (c :: r))
  end.
(** ListElement(Integer(len)).convert(member) then .unconvert: the TAXYEAR child *)
Definition taxyear_elem (len : option N) (y : text) : result etree :=
  match y with
  | [] => OK (Node (T "TAXYEAR") None [])               (* convert("") is None; written as an element without text *)
  | _ => match py_int y with
         | None => Err Reject
         | Some (neg, n) =>
           let too_long := match len with Some l => negb neg && (10 ^ l <=? n) | None => false end in   (* value >= 10 ^ length *)
           if too_long then Err Reject
           else OK (Node (T "TAXYEAR") (Some (if neg && negb (n =? 0) then (45 :: dec_of_N n) else dec_of_N n)) [])
         end
  end.
Fixpoint taxyear_elems (len : option N) (ys : list text) : result (list etree) :=
  match ys with
  | [] => OK []
  | y :: r => bind (taxyear_elem len y) (fun e => bind (taxyear_elems len r) (fun es => OK (e :: es)))
  end.
Definition or_none (o : option text) : option text := match o with Some (_ :: _) => o | _ => None end.   (* x or None *)

(** TAX1099RQ(taxyears..., acctnum=acctnum or None, recid=recid or None)  [repaired: fixes/C06-1] *)
Definition mk_TAX1099RQ (years : list text) (acctnum recid : option text) : result etree :=
  let c := T "TAX1099RQ" in
  match lookup_class c, lookup_attr c (T "taxyear") with
  | Some cl, Some (CListInt len) =>
    if cc_elementlist cl then
      bind (collect [fstr c (T "acctnum") (or_none acctnum); fstr c (T "recid") (or_none recid)]) (fun hd =>
      bind (taxyear_elems len years) (fun ys => OK (Node c None (hd ++ ys)%list)))
    else Err Crash
  | _, _ => Err Crash
  end.

Definition request_tax1099 (c : cfg) (uuids : list text) (dtclient : pdate) (password : text) (years : list text)
           (acctnum recid : option text) (gen_newfileuid : bool) : result composed :=
  bind (signon c dtclient password None) (fun so =>
  bind (mk_TAX1099RQ years acctnum recid) (fun rq_ =>
  bind (take_uuid uuids) (fun u =>
  bind (trnrq (T "TAX1099TRNRQ") (T "tax1099rq") (fst u) rq_) (fun trn =>
  bind (aggl (T "TAX1099MSGSRQV1") [trn]) (fun msgs =>
  bind (mk_OFX so [fsub (T "OFX") (T "tax1099msgsrqv1") (Some msgs)]) (fun ofx =>
  bind (if gen_newfileuid then rmap (fun p => (Some (fst p), snd p)) (take_uuid (snd u)) else OK (None, snd u)) (fun nf =>
  serialize c None None (fst nf) ofx))))))).

(** what DateTime.unconvert gives for datetime(1990, 1, 1, tzinfo=UTC), the default of _request_profile *)
Definition default_dtprofup : pdate := DAware (T "19900101000000.000[+0:UTC]").

(** OFXClient._request_profile(dtprofup, version, gen_newfileuid, prettyprint, close_elements) *)
Definition request_profile (c : cfg) (uuids : list text) (dtclient : pdate) (dtprofup : pdate)
           (over_version : option N) (over_close : option bool) (gen_newfileuid : bool) : result composed :=
  let d := match dtprofup with DNone => default_dtprofup | _ => dtprofup end in
  let k := T "PROFRQ" in
  bind (agg k [foneof k (T "clientrouting") (Some (T "NONE")); fdate k (T "dtprofup") d]) (fun rq_ =>
  bind (take_uuid uuids) (fun u =>
  bind (trnrq (T "PROFTRNRQ") (T "profrq") (fst u) rq_) (fun trn =>
  bind (signon c dtclient auth_placeholder (Some auth_placeholder)) (fun so =>
  bind (aggl (T "PROFMSGSRQV1") [trn]) (fun msgs =>
  bind (mk_OFX so [fsub (T "OFX") (T "profmsgsrqv1") (Some msgs)]) (fun ofx =>
  bind (if gen_newfileuid then rmap (fun p => (Some (fst p), snd p)) (take_uuid (snd u)) else OK (None, snd u)) (fun nf =>
  serialize c over_version over_close (fst nf) ofx))))))).

(* ---------------------------------------------------------------- the class table is as this file assumes *)
Inductive akind := AStr | ABool | AOneOf | ADate | ASub (target : text) | AListAgg (target : text) | AListInt.
Definition akind_matches (k : akind) (a : cattr) : bool :=
  match k, a with
  | AStr, CStr _ _ _ | ABool, CBool _ | AOneOf, COneOf _ _ | ADate, CDate _ | AListInt, CListInt _ => true
  | ASub t, CSub t' _ | AListAgg t, CListAgg t' => text_eqb t t'
  | _, _ => false
  end.
Definition attr_required (a : cattr) : bool :=
  match a with
  | CStr _ _ r | CBool r | COneOf _ r | CDate r | CSub _ r | COther r => r
  | CListAgg _ | CListInt _ | CUnsupported => false
  end.
(** the attributes this file sets, per class, in the order in which it emits their children *)
Definition ma (a : string) (k : akind) : text * akind := (T a, k).
Definition ma_trn (inner cls : string) : list (text * akind) := [ma "trnuid" AStr; ma inner (ASub (T cls))].
Definition modelled : list (text * list (text * akind)) :=
  [ (T "OFX", [ma "signonmsgsrqv1" (ASub (T "SIGNONMSGSRQV1")); ma "signupmsgsrqv1" (ASub (T "SIGNUPMSGSRQV1"));
               ma "bankmsgsrqv1" (ASub (T "BANKMSGSRQV1")); ma "creditcardmsgsrqv1" (ASub (T "CREDITCARDMSGSRQV1"));
               ma "invstmtmsgsrqv1" (ASub (T "INVSTMTMSGSRQV1")); ma "profmsgsrqv1" (ASub (T "PROFMSGSRQV1"));
               ma "tax1099msgsrqv1" (ASub (T "TAX1099MSGSRQV1"))]);
    (T "SIGNONMSGSRQV1", [ma "sonrq" (ASub (T "SONRQ"))]);
    (T "SONRQ", [ma "dtclient" ADate; ma "userid" AStr; ma "userpass" AStr; ma "language" AOneOf; ma "fi" (ASub (T "FI"));
                 ma "appid" AStr; ma "appver" AStr; ma "clientuid" AStr]);
    (T "FI", [ma "org" AStr; ma "fid" AStr]);
    (T "BANKMSGSRQV1", [ma "stmttrnrq" (AListAgg (T "STMTTRNRQ")); ma "stmtendtrnrq" (AListAgg (T "STMTENDTRNRQ"))]);
    (T "CREDITCARDMSGSRQV1", [ma "ccstmttrnrq" (AListAgg (T "CCSTMTTRNRQ")); ma "ccstmtendtrnrq" (AListAgg (T "CCSTMTENDTRNRQ"))]);
    (T "INVSTMTMSGSRQV1", [ma "invstmttrnrq" (AListAgg (T "INVSTMTTRNRQ"))]);
    (T "STMTTRNRQ", ma_trn "stmtrq" "STMTRQ");
    (T "STMTRQ", [ma "bankacctfrom" (ASub (T "BANKACCTFROM")); ma "inctran" (ASub (T "INCTRAN"))]);
    (T "BANKACCTFROM", [ma "bankid" AStr; ma "acctid" AStr; ma "accttype" AOneOf]);
    (T "INCTRAN", [ma "dtstart" ADate; ma "dtend" ADate; ma "include" ABool]);
    (T "STMTENDTRNRQ", ma_trn "stmtendrq" "STMTENDRQ");
    (T "STMTENDRQ", [ma "bankacctfrom" (ASub (T "BANKACCTFROM")); ma "dtstart" ADate; ma "dtend" ADate]);
    (T "CCSTMTTRNRQ", ma_trn "ccstmtrq" "CCSTMTRQ");
    (T "CCSTMTRQ", [ma "ccacctfrom" (ASub (T "CCACCTFROM")); ma "inctran" (ASub (T "INCTRAN"))]);
    (T "CCACCTFROM", [ma "acctid" AStr]);
    (T "CCSTMTENDTRNRQ", ma_trn "ccstmtendrq" "CCSTMTENDRQ");
    (T "CCSTMTENDRQ", [ma "ccacctfrom" (ASub (T "CCACCTFROM")); ma "dtstart" ADate; ma "dtend" ADate]);
    (T "INVSTMTTRNRQ", ma_trn "invstmtrq" "INVSTMTRQ");
    (T "INVSTMTRQ", [ma "invacctfrom" (ASub (T "INVACCTFROM")); ma "inctran" (ASub (T "INCTRAN")); ma "incoo" ABool;
                     ma "incpos" (ASub (T "INCPOS")); ma "incbal" ABool]);
    (T "INVACCTFROM", [ma "brokerid" AStr; ma "acctid" AStr]);
    (T "INCPOS", [ma "dtasof" ADate; ma "include" ABool]);
    (T "SIGNUPMSGSRQV1", [ma "acctinfotrnrq" (AListAgg (T "ACCTINFOTRNRQ"))]);
    (T "ACCTINFOTRNRQ", ma_trn "acctinforq" "ACCTINFORQ");
    (T "ACCTINFORQ", [ma "dtacctup" ADate]);
    (T "TAX1099MSGSRQV1", [ma "tax1099trnrq" (AListAgg (T "TAX1099TRNRQ"))]);
    (T "TAX1099TRNRQ", ma_trn "tax1099rq" "TAX1099RQ");
    (T "TAX1099RQ", [ma "acctnum" AStr; ma "recid" AStr; ma "taxyear" AListInt]);
    (T "PROFMSGSRQV1", [ma "proftrnrq" (AListAgg (T "PROFTRNRQ"))]);
    (T "PROFTRNRQ", ma_trn "profrq" "PROFRQ");
    (T "PROFRQ", [ma "clientrouting" AOneOf; ma "dtprofup" ADate]) ].

(** walk the live spec: modelled attributes must come in the modelled order with the modelled kind, every other
    attribute must be optional *)
Fixpoint spec_matches (want : list (text * akind)) (spec : list (text * cattr)) : bool :=
  match spec with
  | [] => match want with [] => true | _ => false end
  | (a, ca) :: rest =>
    match want with
    | (a', k) :: want' =>
      if text_eqb a a' then akind_matches k ca && spec_matches want' rest
      else negb (attr_required ca) && spec_matches want rest
    | [] => negb (attr_required ca) && spec_matches want rest
    end
  end.
Definition class_as_modelled (m : text * list (text * akind)) : bool :=
  match lookup_class (fst m) with
  | None => false
  | Some c =>
    spec_matches (snd m) (cc_spec c)
    && match cc_optmx c with [] => true | _ => false end
    && (if text_eqb (fst m) (T "OFX")
        then list_eqb (list_eqb text_eqb) (cc_reqmx c) [[T "signonmsgsrqv1"; T "signonmsgsrsv1"]]
        else match cc_reqmx c with [] => true | _ => false end)
    && Bool.eqb (cc_elementlist c) (text_eqb (fst m) (T "TAX1099RQ"))
  end.
Definition schema_as_modelled : bool := forallb class_as_modelled modelled.
