(** Case formats of the [Sgml] correspondence runs (C02, C08): an input text with what the
    IMPLEMENTATION answered; the [_ok] functions run the model and compare (error classes merged).
      PCase  : TreeBuilder().feed(s); close()  ->  tree | None | exception
      MCase  : the same plus the groups of every TreeBuilder.regex.finditer match (scanner vs [re]) *)
From OfxV Require Import Base.Prelude Base.SgmlBase Model.Sgml.
Local Open Scope N_scope.

Inductive pcase := PCase (s : text) (exp : result (option etree)).
Definition pcase_ok (g : cfg) (c : pcase) : bool :=
  match c with PCase s exp => result_eqb false (option_eqb etree_eqb) (parse g s) exp end.

(** (tag, cdata, text, closetag present, tail) *)
Definition rawm := (text * text * text * bool * text)%type.
Definition rawmatch_eqb (m : rawmatch) (x : rawm) : bool :=
  match x with (t, cd, tx, cl, tl) =>
    text_eqb (m_tag m) t && text_eqb (m_cdata m) cd && text_eqb (m_text m) tx && Bool.eqb (m_closed m) cl
    && text_eqb (m_tail m) tl end.
Fixpoint matches_eqb (ms : list rawmatch) (xs : list rawm) : bool :=
  match ms, xs with
  | [], [] => true
  | m :: ms', x :: xs' => rawmatch_eqb m x && matches_eqb ms' xs'
  | _, _ => false
  end.
Inductive mcase := MCase (s : text) (ms : list rawm) (exp : result (option etree)).
Definition mcase_ok (g : cfg) (c : mcase) : bool :=
  match c with MCase s ms exp =>
    matches_eqb (scan g 0 s) ms && result_eqb false (option_eqb etree_eqb) (parse g s) exp end.
