(** Case format of the C06 correspondence run: a client construction, the oracle values (uuid stream, dtclient),
    one request, and what the IMPLEMENTATION produced (header text + the tree parsed back from the dry-run bytes,
    or an error).  [ccase_ok] runs the model and compares (Reject and Crash merged: C06 only asks for "refuses"). *)
From OfxV Require Import Base.Prelude Base.ComposeBase Gen.ComposeGen Model.Compose.
Local Open Scope N_scope.

Inductive op :=
| OpStatements (password : text) (gen_newfileuid : bool) (requests : list rq)
| OpStatementsNamed (password : text) (gen_newfileuid : bool) (requests : list named)   (* some request is an instance of a subclass *)
| OpAccounts (password : text) (dtacctup : pdate) (gen_newfileuid : bool)
| OpTax (password : text) (years : list text) (acctnum recid : option text) (gen_newfileuid : bool)
| OpProfile (dtprofup : pdate) (over_version : option N) (over_close : option bool) (gen_newfileuid : bool).

Inductive ccase := CCase (a : init_args) (uuids : list text) (dtclient : pdate) (o : op) (exp : result composed).

Definition run_op (c : cfg) (uuids : list text) (dtclient : pdate) (o : op) : result composed :=
  match o with
  | OpStatements pw g rqs => request_statements c uuids dtclient pw g rqs
  | OpStatementsNamed pw g rqs => request_statements_named c uuids dtclient pw g rqs
  | OpAccounts pw d g => request_accounts c uuids dtclient pw d g
  | OpTax pw ys an rid g => request_tax1099 c uuids dtclient pw ys an rid g
  | OpProfile d v cl g => request_profile c uuids dtclient d v cl g
  end.
Definition run_ccase (a : init_args) (uuids : list text) (dtclient : pdate) (o : op) : result composed :=
  bind (client_init a) (fun c => run_op c uuids dtclient o).
Definition ccase_ok (c : ccase) : bool :=
  match c with CCase a uu d o exp => result_eqb false composed_eqb (run_ccase a uu d o) exp end.

(** shorthand used by the generated case files *)
Definition IA url uid cuid org fid ver aid aver lang pp ce bank broker ua pc : init_args :=
  {| a_url := url; a_userid := uid; a_clientuid := cuid; a_org := org; a_fid := fid; a_version := ver; a_appid := aid;
     a_appver := aver; a_language := lang; a_prettyprint := pp; a_close_elements := ce; a_bankid := bank;
     a_brokerid := broker; a_useragent := ua; a_persist_cookies := pc |}.
Definition L (tag txt : text) : etree := Node tag (Some txt) [].
Definition G (tag : text) (ch : list etree) : etree := Node tag None ch.
Definition CO (h : text) (b : etree) : result composed := OK {| c_header := h; c_body := b |}.
