(** Engine ProfileCache (C15): OFXClient.request_profile and its cache file, as the operating system sees it.

    Transcribed from /repo/ofxtools/Client.py:472-547 (request_profile), config/__init__.py:63-73 (DATADIR) and the way
    scripts/ofxget.py:_queue_scans (1221-1261) runs many request_profile calls of ONE client in a thread pool:
      persistpath.exists()                      -> step [SExists]
      open(persistpath,"rb").read(), parse      -> step [SOpenRead]      (a file that does not parse makes the call raise)
      _request_profile / post_request           -> step [SNet]           (the server's answer is an adversarial [behaviour])
      status 1 => cached copy; status 0 => asserts on status and dates, then the cache is rewritten:
        [PNew]  (the repaired code, fixes/C15-1-*.diff)  mkstemp in the same directory, write, flush, fsync, close, os.replace
        [POld]  (the code as found)                        open(persistpath,"wb") = truncate, write (buffered), close (= flush)
    Every step is separately schedulable; a crash may end a call between any two steps; any number of calls (threads) may be
    interleaved arbitrarily.  Assumed of the OS (listed in PARTIAL of tools/ofxv/props/c15.py): rename is atomic; a temporary
    name is not reused while in use (modelled by naming the temporary file after the call that creates it); a file opened for
    reading keeps its content; buffered data is lost on a kill and reaches the file at flush/close.  Definitions only. *)
From OfxV Require Import Base.Prelude.
Local Open Scope N_scope.

Definition bytes := list N.
Record profile := Profile { p_id : N; p_date : N; p_len : nat }.
Definition profile_eqb (a b : profile) : bool := (p_id a =? p_id b) && (p_date a =? p_date b) && Nat.eqb (p_len a) (p_len b).

(** what the server answers to one profile request *)
Inductive behaviour :=
 | BProfile (p : profile)      (* status 0 with a PROFRS: "Newer", "Same" or "Older" according to its date *)
 | BUpToDate                   (* status 1, no PROFRS *)
 | BErrorStatus                (* any other status *)
 | BGarbage                    (* does not parse / convert *)
 | BTransport.                 (* URLError, HTTPError *)

Definition ckey := (option N * option N)%type.     (* (org, fid): the file name is f"{org}-{fid}.profrs" *)
Definition ckey_eqb (a b : ckey) : bool := option_eqb N.eqb (fst a) (fst b) && option_eqb N.eqb (snd a) (snd b).
Record cfg := Cfg { c_url : N; c_org : option N; c_fid : option N }.
Definition key_of (c : cfg) : ckey := (c_org c, c_fid c).

Inductive fname := FCache (k : ckey) | FTmp (call : nat).
Definition fname_eqb (a b : fname) : bool :=
  match a, b with
  | FCache x, FCache y => ckey_eqb x y
  | FTmp m, FTmp n => Nat.eqb m n
  | _, _ => false
  end.
Definition fs := list (fname * bytes).
Fixpoint fs_get (f : fs) (n : fname) : option bytes :=
  match f with
  | [] => None
  | (m, c) :: r => if fname_eqb m n then Some c else fs_get r n
  end.
Fixpoint fs_del (f : fs) (n : fname) : fs :=
  match f with
  | [] => []
  | (m, c) :: r => if fname_eqb m n then fs_del r n else (m, c) :: fs_del r n
  end.
Definition fs_set (f : fs) (n : fname) (c : bytes) : fs := (n, c) :: fs_del f n.
(** write(2) at offset 0 of a file that was not truncated in between: the old tail stays *)
Definition overwrite (old data : bytes) : bytes := (data ++ skipn (List.length data) old)%list.

Inductive proto := PNew | POld.

(** where one call stands *)
Inductive tstate :=
 | TStart                                   (* next: persistpath.exists() *)
 | TRead                                    (* the file exists; next: open + read + parse *)
 | TNet (held : option profile)             (* next: the request, asking with the date held *)
 | TAcc (p : profile)                       (* answer accepted; next: first step of the write *)
 | TW1 (p : profile)                        (* PNew: temporary file exists (empty); next: write (buffer) *)
 | TW2 (p : profile)                        (*       next: flush  *)
 | TW3 (p : profile)                        (*       next: fsync  *)
 | TW4 (p : profile)                        (*       next: close  *)
 | TW5 (p : profile)                        (*       next: os.replace *)
 | TO1 (p : profile)                        (* POld: file truncated; next: write (buffer) *)
 | TO2 (p : profile)                        (*       next: close = flush at offset 0 *)
 | TDone (r : result profile)
 | TKilled.

Inductive stepname := SExists | SOpenRead | SNet | SMkstemp | SWrite | SFlush | SFsync | SClose | SReplace | SOpenTrunc | SNone.

(** ghost: what each server (url) delivered with status 0, newest last; and the date each request asked with *)
Record state := St { s_fs : fs; s_threads : list (cfg * tstate); s_sent : list (N * profile); s_asked : list (nat * option N) }.

Section WithCodec.
  (** serialisation of a profile document and the parser's view of a file: any pair with [dec (enc p) = Some p] *)
  Variable enc : profile -> bytes.
  Variable dec : bytes -> option profile.

  (** request_profile after the answer arrived *)
  Definition decide (held : option profile) (b : behaviour) : tstate :=
    match b with
    | BProfile p =>
        match held with
        | Some h => if p_date h <=? p_date p then TAcc p else TDone (Err Crash)     (* assert dtprofup <= dtprofup_server *)
        | None => TAcc p
        end
    | BUpToDate => match held with Some h => TDone (OK h) | None => TDone (Err Crash) end   (* assert profrs is not None *)
    | BErrorStatus => TDone (Err Crash)                                                      (* assert status.code == 0 *)
    | BGarbage => TDone (Err Reject)
    | BTransport => TDone (Err Crash)
    end.

  (** one atomic step of call number [i] (configuration [c], state [t]); [b] is consulted at the network step only.
      Returns the new file system, the new state of the call, the name of the step, and ghost additions. *)
  Definition tstep (pr : proto) (i : nat) (c : cfg) (b : behaviour) (f : fs) (t : tstate)
    : fs * tstate * stepname * list (N * profile) * list (nat * option N) :=
    let path := FCache (key_of c) in
    match t with
    | TStart => (f, match fs_get f path with Some _ => TRead | None => TNet None end, SExists, [], [])
    | TRead => (f, match fs_get f path with
                   | Some content => match dec content with Some p => TNet (Some p) | None => TDone (Err Reject) end
                   | None => TDone (Err Crash)            (* FileNotFoundError: nobody removes the file; kept for totality of the match *)
                   end, SOpenRead, [], [])
    | TNet held => (f, decide held b, SNet,
                    match b with BProfile p => [(c_url c, p)] | _ => [] end,
                    [(i, match held with Some h => Some (p_date h) | None => None end)])
    | TAcc p => match pr with
                | PNew => (fs_set f (FTmp i) [], TW1 p, SMkstemp, [], [])
                | POld => (fs_set f path [], TO1 p, SOpenTrunc, [], [])
                end
    | TW1 p => (f, TW2 p, SWrite, [], [])
    | TW2 p => (fs_set f (FTmp i) (enc p), TW3 p, SFlush, [], [])
    | TW3 p => (f, TW4 p, SFsync, [], [])
    | TW4 p => (f, TW5 p, SClose, [], [])
    | TW5 p => (match fs_get f (FTmp i) with
                | Some content => fs_set (fs_del f (FTmp i)) path content
                | None => f end, TDone (OK p), SReplace, [], [])
    | TO1 p => (f, TO2 p, SWrite, [], [])
    | TO2 p => (match fs_get f path with
                | Some old => fs_set f path (overwrite old (enc p))
                | None => fs_set f path (enc p) end, TDone (OK p), SClose, [], [])
    | TDone r => (f, TDone r, SNone, [], [])
    | TKilled => (f, TKilled, SNone, [], [])
    end.

  Fixpoint set_nth {A} (l : list A) (k : nat) (x : A) : list A :=
    match l, k with
    | [], _ => []
    | _ :: r, O => x :: r
    | y :: r, S k' => y :: set_nth r k' x
    end.

  (** what the scheduler / the adversary may do next *)
  Inductive event :=
   | EStep (i : nat) (b : behaviour)      (* call i performs its next atomic step *)
   | EKill (i : nat)                      (* the process running call i dies here (nothing buffered reaches the disk) *)
   | ESpawn (c : cfg).                    (* a new call of request_profile begins *)

  Definition exec (pr : proto) (st : state) (e : event) : state * stepname :=
    match e with
    | EStep i b =>
        match nth_error (s_threads st) i with
        | Some (c, t) =>
            let '(f', t', nm, sent, asked) := tstep pr i c b (s_fs st) t in
            (St f' (set_nth (s_threads st) i (c, t')) (s_sent st ++ sent) (s_asked st ++ asked), nm)
        | None => (st, SNone)
        end
    | EKill i =>
        match nth_error (s_threads st) i with
        | Some (c, TDone r) => (st, SNone)
        | Some (c, _) => (St (s_fs st) (set_nth (s_threads st) i (c, TKilled)) (s_sent st) (s_asked st), SNone)
        | None => (st, SNone)
        end
    | ESpawn c => (St (s_fs st) (s_threads st ++ [(c, TStart)]) (s_sent st) (s_asked st), SNone)
    end.

  Fixpoint run (pr : proto) (st : state) (es : list event) : state :=
    match es with
    | [] => st
    | e :: r => run pr (fst (exec pr st e)) r
    end.

  (** one call run alone to completion: at most 9 steps remain from TStart (structural on the explicit step budget [n]) *)
  Fixpoint solo (pr : proto) (n : nat) (st : state) (i : nat) (b : behaviour) : state :=
    match n with
    | O => st
    | S n' => solo pr n' (fst (exec pr st (EStep i b))) i b
    end.
  Definition solo_steps : nat := 9.
  (** request_profile as an ordinary sequential call: spawn, run to completion *)
  Definition call (pr : proto) (st : state) (c : cfg) (b : behaviour) : state :=
    solo pr solo_steps (fst (exec pr st (ESpawn c))) (List.length (s_threads st)) b.
  Definition result_of (st : state) (i : nat) : option (result profile) :=
    match nth_error (s_threads st) i with Some (_, TDone r) => Some r | _ => None end.

  Definition init : state := St [] [] [] [].
End WithCodec.

(** ---- a concrete codec, for the correspondence run and for the refutations ---- *)
Definition enc_c (p : profile) : bytes := p_id p :: p_date p :: N.of_nat (p_len p) :: repeat (p_id p) (p_len p).
Definition dec_c (b : bytes) : option profile :=
  match b with
  | i :: d :: l :: rest => if (N.of_nat (List.length rest) =? l) && forallb (N.eqb i) rest then Some (Profile i d (List.length rest)) else None
  | _ => None
  end.
