(** Case format of the Header engine's correspondence runs (C12, C05): one entry point of ofxtools/header.py applied
    to its arguments, with the outcome the IMPLEMENTATION produced; [hcase_ok] runs the model and compares.
    The exception class is compared ([result_eqb true]): OFXHeaderError = Reject, anything else = Crash. *)
From OfxV Require Import Base.Prelude Base.Digits Gen.HeaderGen Model.Header.
Local Open Scope N_scope.

Definition hdr1_eqb (a b : hdr1) : bool :=
  (h1_ofxheader a =? h1_ofxheader b)%Z && text_eqb (h1_data a) (h1_data b) && (h1_version a =? h1_version b)%Z
  && text_eqb (h1_security a) (h1_security b) && text_eqb (h1_encoding a) (h1_encoding b)
  && text_eqb (h1_charset a) (h1_charset b) && text_eqb (h1_compression a) (h1_compression b)
  && text_eqb (h1_old a) (h1_old b) && text_eqb (h1_new a) (h1_new b).
Definition hdr2_eqb (a b : hdr2) : bool :=
  (h2_ofxheader a =? h2_ofxheader b)%Z && (h2_version a =? h2_version b)%Z
  && text_eqb (h2_security a) (h2_security b) && text_eqb (h2_old a) (h2_old b) && text_eqb (h2_new a) (h2_new b).
Definition hdr_eqb (a b : hdr) : bool :=
  match a, b with H1 x, H1 y => hdr1_eqb x y | H2 x, H2 y => hdr2_eqb x y | _, _ => false end.

Inductive hcase :=
  (* OFXHeaderV1(version, ofxheader, data, ...) -> (fields, str(header)) *)
| CCtor1 (version : pyv) (ofxheader : option pyv) (data security encoding charset compression old new : option text)
         (exp : result (hdr1 * text))
| CCtor2 (version : pyv) (ofxheader : option pyv) (security old new : option text) (exp : result (hdr2 * text))
  (* OFXHeaderV1.parse(str) / OFXHeaderV2.parse(str) -> (fields, match end) *)
| CParse1 (s : text) (exp : result (hdr1 * N))
| CParse2 (s : text) (exp : result (hdr2 * N))
  (* make_header(version, security, oldfileuid, newfileuid) -> (header, str(header)) *)
| CMake (version : pyv) (security old new : option text) (exp : result (hdr * text))
  (* bool(XML_REGEX.match(line)) *)
| CXml (line : text) (exp : bool)
  (* parse_header(BytesIO(bytes)) -> (header, body) *)
| CPH (bytes : text) (exp : result (hdr * text))
  (* bytes.decode(codec) for codec id 0/1/2 *)
| CDecode (cd : N) (bytes : text) (exp : result text)
  (* int(str): None = ValueError *)
| CInt (s : text) (exp : option Z).

Definition with_str1 (r : result hdr1) : result (hdr1 * text) := rmap (fun h => (h, str_v1 h)) r.
Definition with_str2 (r : result hdr2) : result (hdr2 * text) := rmap (fun h => (h, str_v2 h)) r.

Definition hcase_ok (c : hcase) : bool :=
  match c with
  | CCtor1 v oh da se en ch co ol ne exp =>
      result_eqb true (pair_eqb hdr1_eqb text_eqb) (with_str1 (init_v1 v oh da se en ch co ol ne)) exp
  | CCtor2 v oh se ol ne exp => result_eqb true (pair_eqb hdr2_eqb text_eqb) (with_str2 (init_v2 v oh se ol ne)) exp
  | CParse1 s exp => result_eqb true (pair_eqb hdr1_eqb N.eqb) (parse_v1 s) exp
  | CParse2 s exp => result_eqb true (pair_eqb hdr2_eqb N.eqb) (parse_v2 s) exp
  | CMake v se ol ne exp =>
      result_eqb true (pair_eqb hdr_eqb text_eqb) (rmap (fun h => (h, str_hdr h)) (make_header v se ol ne)) exp
  | CXml line exp => Bool.eqb (match_xml line) exp
  | CPH b exp => result_eqb true (pair_eqb hdr_eqb text_eqb) (parse_header b) exp
  | CDecode cd b exp => result_eqb true text_eqb (decode cd b) exp
  | CInt s exp => option_eqb Z.eqb (int_of_text s) exp
  end.
