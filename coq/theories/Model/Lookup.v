(** Python attribute lookup on an Aggregate instance, parametric in the class table (Model/Schema.v), the table of
    class-level names (Gen/LookupGen.v) and the form of Aggregate.__getattr__:
      getattr(i, name) =
       (1) name is a spec attribute of type(i): the data descriptor Element.__get__ = i.__dict__[name]  (Types.py:157-167; KeyError when
           unset: list attributes are never set, a blank instance - what copy / pickle create before restoring the state, `Inst c [] []`
           here - has nothing set); Unsupported.__get__ = None (Types.py:813);
       (2) otherwise a class-level name: a shortcut property (Model/Shortcuts.v; when its body raises AttributeError Python falls back
           to __getattr__), or another class attribute (method, classproperty, ...: PClassAttr);
       (3) otherwise Aggregate.__getattr__ (models/base.py:540-549): for each name in cls.subaggregates (spec order, ListAggregates
           included) fetch it and look the attribute up there, going on after AttributeError / KeyError, finally AttributeError.
           fx = false: the first fetch stands OUTSIDE the try (the code as found: its KeyError escapes); fx = true: inside (fixes/C16-1).
    Instance dictionaries hold spec attributes only (what __init__ stores); attributes stapled on afterwards are not represented.
    A scalar stored under a sub-aggregate attribute cannot be built through the API (SubAggregate.convert): LOther, outside the domain
    [lk_wf].   Definitions only. *)
From OfxV Require Import Base.Prelude Model.Schema Model.Convert Model.Shortcuts.
Local Open Scope string_scope.

Section Lookup.
  Variable sval : Type.
  Variable fx : bool.
  Variable S : schema.
  Variable tb : ltab.
  Notation inst := (inst sval).
  Notation fval := (fval sval).
  Notation member := (member sval).
  Notation pyobj := (pyobj sval).
  Notation lres := (lres sval).

  (** the loop of __getattr__ over cls.subaggregates; tab = for every dictionary entry (k, value): (k, getattr(value, attr)) *)
  Fixpoint proxy_loop (subs : list string) (tab : list (string * lres)) : lres :=
    match subs with
    | [] => LAttr sval
    | s :: t =>
      match assoc s tab with
      | None => if fx then proxy_loop t tab else LKey sval            (* getattr(self, s): KeyError *)
      | Some (LOK _ v) => LOK sval v
      | Some (LOther _) => LOther sval
      | Some _ => proxy_loop t tab                                     (* except (AttributeError, KeyError): continue *)
      end
    end.

  Definition lookup_body (cn : string) (fs : list (string * fval)) (ms : list member) (name : string)
             (fsubf : string -> list (string * lres)) (msubf : (member -> list string) -> list (member * list lres)) : lres :=
    match find_cls S cn with
    | None => LOther sval
    | Some c =>
      match assoc name (ci_spec c) with
      | Some _ => own_get sval c fs name
      | None =>
        match class_attr tb cn name with
        | Some (KShortcut sc) =>
          match run_shortcut sval S tb c fs ms fsubf msubf sc with
          | LAttr _ => proxy_loop (subaggregates c) (fsubf name)
          | r => r
          end
        | Some KOther => LOK sval (PClassAttr sval)
        | None => proxy_loop (subaggregates c) (fsubf name)
        end
      end
    end.

  (** getattr(value, n) for a value held in an instance dictionary *)
  Definition held_get (look : inst -> string -> lres) (f : fval) (n : string) : lres :=
    match f with
    | FNone _ => none_get sval tb n
    | FVal _ _ => LOther sval
    | FSub _ j => look j n
    end.

  Fixpoint lookup (i : inst) (name : string) {struct i} : lres :=
    match i with
    | Inst _ cn fs ms =>
      let fsub := fix fsub (l : list (string * fval)) (n : string) {struct l} : list (string * lres) :=
        match l with
        | [] => []
        | (k, FSub _ j) :: t => (k, lookup j n) :: fsub t n
        | (k, FNone _) :: t => (k, none_get sval tb n) :: fsub t n
        | (k, FVal _ _) :: t => (k, LOther sval) :: fsub t n
        end in
      let msub := fix msub (l : list member) (pick : member -> list string) {struct l} : list (member * list lres) :=
        match l with
        | [] => []
        | MAgg _ j :: t => (MAgg sval j, map (fun n => lookup j n) (pick (MAgg sval j))) :: msub t pick
        | m :: t => (m, []) :: msub t pick
        end in
      lookup_body cn fs ms name (fsub fs) (msub ms)
    end.

  (** the two inner loops, named (convertible with the local ones: [lookup_unfold] in Proofs/LookupCore.v) *)
  Fixpoint fsub_of (l : list (string * fval)) (n : string) {struct l} : list (string * lres) :=
    match l with
    | [] => []
    | (k, FSub _ j) :: t => (k, lookup j n) :: fsub_of t n
    | (k, FNone _) :: t => (k, none_get sval tb n) :: fsub_of t n
    | (k, FVal _ _) :: t => (k, LOther sval) :: fsub_of t n
    end.
  Fixpoint msub_of (l : list member) (pick : member -> list string) {struct l} : list (member * list lres) :=
    match l with
    | [] => []
    | MAgg _ j :: t => (MAgg sval j, map (fun n => lookup j n) (pick (MAgg sval j))) :: msub_of t pick
    | m :: t => (m, []) :: msub_of t pick
    end.

  Definition to_result (r : lres) : result pyobj :=
    match r with LOK _ v => OK v | LAttr _ => Err Reject | _ => Err Crash end.
  (** getattr(i, name): OK value | Err Reject = AttributeError | Err Crash = KeyError or anything else *)
  Definition getattr_m (i : inst) (name : string) : result pyobj := to_result (lookup i name).

  (** ---- what the theorems quantify over ---- *)
  (** every class is in the table and no scalar sits under a sub-aggregate attribute, at every depth (through dictionary
      entries and list members) *)
  Definition node_wf_b (cn : string) (fs : list (string * fval)) : bool :=
    match find_cls S cn with
    | None => false
    | Some c => forallb (fun kf => match snd kf with FVal _ _ => negb (mem (fst kf) (subaggregates c)) | _ => true end) fs
    end.
  Fixpoint lk_wf_b (i : inst) : bool :=
    match i with
    | Inst _ cn fs ms =>
      node_wf_b cn fs
      && (fix go (l : list (string * fval)) : bool :=
            match l with [] => true | (_, FSub _ j) :: t => lk_wf_b j && go t | _ :: t => go t end) fs
      && (fix go (l : list member) : bool :=
            match l with [] => true | MAgg _ j :: t => lk_wf_b j && go t | _ :: t => go t end) ms
    end.

  (** type(i) defines name: a spec attribute or a class-level name *)
  Definition defines (cn name : string) : bool :=
    match find_cls S cn with
    | None => false
    | Some c => mem name (map fst (ci_spec c)) || match class_attr tb cn name with Some _ => true | None => false end
    end.

  (** the aggregate reached from i by a path of NON-REPEATED sub-aggregate attributes (the only ones the proxy can follow) *)
  Fixpoint at_path (i : inst) (p : list string) {struct p} : option inst :=
    match p with
    | [] => Some i
    | s :: t =>
      match find_cls S (icls sval i) with
      | Some c => if mem s (subaggregates c)
                  then match assoc s (ifields sval i) with Some (FSub _ j) => at_path j t | _ => None end
                  else None
      | None => None
      end
    end.
End Lookup.
