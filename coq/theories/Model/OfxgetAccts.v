(** Model of the statement commands of ofxtools/scripts/ofxget.py (engine OfxgetAccts, property C19):

      request_stmt, request_stmtend (the four bank loops in the generated order, credit cards, investments),
      convert_datetime (DateTime().convert is an oracle: a function from the option's text to an instant),
      init_client's [x or None] mapping of bankid / brokerid and its version / close_elements check,
      _merge_acctinfo: extract_acctinfos (status checks, one ACCTINFOTRNRS, flattening of the nested lists),
      sorted by class name, itertools.groupby, parse_bankacctinfos / parse_ccacctinfos / parse_invacctinfos,
      _acctIsActive, utils.collapseToSingle, args.maps.insert(1, ChainMap of the parsed dicts),

    and of what ofxtools.Client.OFXClient.request_statements then puts in the request document, as far as
    the property observes it: the statement requests in document order (requests sorted by container class
    name, grouped into BANKMSGSRQV1 / CREDITCARDMSGSRQV1 / INVSTMTMSGSRQV1), each with its BANKID / BROKERID
    from the client, ACCTID, ACCTTYPE, INCTRAN / INCPOS / INCOO / INCBAL or DTSTART / DTEND, after the
    String / OneOf validation of the account aggregates (required, max length, XML entities unescaped).

    parse_bankacctinfos / parse_invacctinfos are modelled AFTER fixes/C19-1 (BANKID / BROKERID taken only when
    some account is ACTIVE).  The server's ACCTINFORS document is an input in abstract form (parsing it is
    C01-C03's subject).  Definitions only. *)
From OfxV Require Import Base.Prelude Base.Digits Base.OfxgetBase Gen.OfxgetGen Model.OfxgetCfg.
Local Open Scope N_scope.

(* ------------------------------------------------------------------ the server's account information *)
Inductive svc := AVAIL | PEND | ACTIVE.
Inductive bankty := CHECKING | SAVINGS | MONEYMRKT | CREDITLINE | CD.
Inductive acctinfo :=
| BankInfo (bankid acctid : text) (ty : bankty) (st : svc)      (* BANKACCTINFO *)
| BpInfo (st : svc)                                             (* BPACCTINFO: no parser is registered for it *)
| CcInfo (acctid : text) (st : svc)                             (* CCACCTINFO *)
| InvInfo (brokerid acctid : text) (st : svc).                  (* INVACCTINFO *)

(** ACCTINFOTRNRS: STATUS code and, when present, ACCTINFORS as the list of its ACCTINFO lists *)
Record trnrs := { t_code : Z; t_rs : option (list (list acctinfo)) }.
(** the response document: SONRS STATUS code and the members of SIGNUPMSGSRSV1 *)
Record reply := { rp_sonrs : Z; rp_trnrs : list trnrs }.

(** rank of the class name in string order: BANKACCTINFO < BPACCTINFO < CCACCTINFO < INVACCTINFO *)
Definition ai_rank (a : acctinfo) : N :=
  match a with BankInfo _ _ _ _ => 0 | BpInfo _ => 1 | CcInfo _ _ => 2 | InvInfo _ _ _ => 3 end.
Definition ai_status (a : acctinfo) : svc :=
  match a with BankInfo _ _ _ s => s | BpInfo s => s | CcInfo _ s => s | InvInfo _ _ s => s end.
(** _acctIsActive *)
Definition is_active (a : acctinfo) : bool := match ai_status a with ACTIVE => true | _ => false end.

Definition bankty_name (t : bankty) : text :=            (* inf.accttype.lower() *)
  match t with
  | CHECKING => T "checking" | SAVINGS => T "savings" | MONEYMRKT => T "moneymrkt"
  | CREDITLINE => T "creditline" | CD => T "cd"
  end.

(** ACCTINFO.validate_args: at most one aggregate of each kind (ValueError otherwise) *)
Fixpoint count_rank (k : N) (l : list acctinfo) : nat :=
  match l with [] => 0%nat | a :: r => if ai_rank a =? k then S (count_rank k r) else count_rank k r end.
Definition acctinfo_valid (l : list acctinfo) : bool :=
  negb (is_nil l) && forallb (fun k => Nat.leb (count_rank k l) 1) [0; 1; 2; 3].

(** extract_acctinfos *)
Definition extract_acctinfos (r : reply) : result (list acctinfo) :=
  if negb (Z.eqb (rp_sonrs r) 0) then Err Reject                       (* verify_status(sonrs) *)
  else match rp_trnrs r with
       | [t] =>
         if negb (Z.eqb (t_code t) 0) then Err Reject                   (* verify_status(trnrs) *)
         else match t_rs t with
              | None => Err Crash                                       (* assert isinstance(acctinfors, ACCTINFORS) *)
              | Some ls => if forallb acctinfo_valid ls then OK (List.concat ls) else Err Reject
              end
       | _ => Err Crash                                                 (* assert len(msgs) == 1 *)
       end.

(** sorted(..., key=class name): stable insertion sort on the rank *)
Fixpoint insert_ai (a : acctinfo) (l : list acctinfo) : list acctinfo :=
  match l with
  | [] => [a]
  | b :: r => if ai_rank a <=? ai_rank b then a :: l else b :: insert_ai a r
  end.
Fixpoint sort_ai (l : list acctinfo) : list acctinfo :=
  match l with [] => [] | a :: r => insert_ai a (sort_ai r) end.

(** itertools.groupby(acctinfos, key=class name): maximal runs of equal rank *)
Fixpoint groupby_ai (l : list acctinfo) : list (N * list acctinfo) :=
  match l with
  | [] => []
  | a :: r => match groupby_ai r with
              | (k, g) :: gs => if ai_rank a =? k then (k, a :: g) :: gs else (ai_rank a, [a]) :: (k, g) :: gs
              | [] => [(ai_rank a, [a])]
              end
  end.

(** utils.collapseToSingle (ValueError when empty or when two distinct items occur) *)
Definition collapse_to_single (l : list text) : result text :=
  match l with
  | [] => Err Reject
  | x :: r => if forallb (text_eqb x) r then OK x else Err Reject
  end.

(** args_[key].append(v) on a defaultdict(list) *)
Fixpoint dd_append (k v : text) (m : dict (list text)) : dict (list text) :=
  match m with
  | [] => [(k, [v])]
  | (k', l) :: r => if text_eqb k k' then (k', l ++ [v]) :: r else (k', l) :: dd_append k v r
  end.
Definition dd_to_amap (m : dict (list text)) : amap := map (fun p => (fst p, PList (snd p))) m.

(** parse_bankacctinfos (after fixes/C19-1) *)
Fixpoint bank_scan (l : list acctinfo) (ids : list text) (m : dict (list text)) : list text * dict (list text) :=
  match l with
  | [] => (ids, m)
  | BankInfo b a ty st :: r =>
    if is_active (BankInfo b a ty st) then bank_scan r (ids ++ [b]) (dd_append (bankty_name ty) a m)
    else bank_scan r ids m
  | _ :: r => bank_scan r ids m
  end.
Definition parse_bankacctinfos (l : list acctinfo) : result amap :=
  let (ids, m) := bank_scan l [] [] in
  match ids with
  | [] => OK (dd_to_amap m)
  | _ => bind (collapse_to_single ids) (fun b => OK (dd_to_amap m ++ [(T "bankid", PStr b)]))
  end.

(** parse_invacctinfos (after fixes/C19-1) *)
Fixpoint inv_scan (l : list acctinfo) (ids : list text) (m : dict (list text)) : list text * dict (list text) :=
  match l with
  | [] => (ids, m)
  | InvInfo b a st :: r =>
    if is_active (InvInfo b a st) then inv_scan r (ids ++ [b]) (dd_append (T "investment") a m)
    else inv_scan r ids m
  | _ :: r => inv_scan r ids m
  end.
Definition parse_invacctinfos (l : list acctinfo) : result amap :=
  let (ids, m) := inv_scan l [] [] in
  match ids with
  | [] => OK (dd_to_amap m)
  | _ => bind (collapse_to_single ids) (fun b => OK (dd_to_amap m ++ [(T "brokerid", PStr b)]))
  end.

(** parse_ccacctinfos *)
Definition cc_ids (l : list acctinfo) : list text :=
  List.concat (map (fun a => match a with CcInfo i ACTIVE => [i] | _ => [] end) l).
Definition parse_ccacctinfos (l : list acctinfo) : result amap := OK [(T "creditcard", PList (cc_ids l))].

Definition parse_group (g : N * list acctinfo) : result amap :=
  match fst g with
  | 0 => parse_bankacctinfos (snd g)
  | 2 => parse_ccacctinfos (snd g)
  | 3 => parse_invacctinfos (snd g)
  | _ => OK []
  end.
Fixpoint parse_groups (gs : list (N * list acctinfo)) : result (list amap) :=
  match gs with
  | [] => OK []
  | g :: r => bind (parse_group g) (fun m => bind (parse_groups r) (fun ms => OK (m :: ms)))
  end.

(** the dict-like object inserted at position 1: ChainMap(d1, d2, ...) looks keys up in d1, then d2, ... *)
Definition discovered (l : list acctinfo) : result amap :=
  bind (parse_groups (groupby_ai (sort_ai l))) (fun ms => OK (List.concat ms)).

(** _merge_acctinfo(args, markup) *)
Definition merge_acctinfo (a : args) (r : reply) : result args :=
  bind (extract_acctinfos r) (fun l =>
  bind (discovered l) (fun d =>
  match a with
  | m0 :: rest => OK (m0 :: d :: rest)
  | [] => OK [d]
  end)).

(* ------------------------------------------------------------------ the statement requests *)
Inductive rkind := KStmt | KCcStmt | KInvStmt | KStmtEnd | KCcStmtEnd.
(** the containers request_stmt / request_stmtend build (StmtRq, CcStmtRq, InvStmtRq, StmtEndRq, CcStmtEndRq) *)
Record rq := {
  q_kind : rkind;
  q_acctid : text;
  q_accttype : option text;
  q_dtstart : option Z; q_dtend : option Z; q_dtasof : option Z;
  q_inctran : pyval; q_incoo : pyval; q_incpos : pyval; q_incbal : pyval }.

Record dates := { d_start : option Z; d_end : option Z; d_asof : option Z }.

(** D(args[d] or None) *)
Definition conv_date (conv : text -> result Z) (a : args) (k : text) : result (option Z) :=
  match args_get a k with
  | None => Err Crash
  | Some v => if py_truthy v then match v with PStr s => rmap Some (conv s) | _ => Err Reject end else OK None
  end.
Definition convert_datetime (conv : text -> result Z) (a : args) : result dates :=
  bind (conv_date conv a (T "dtstart")) (fun s =>
  bind (conv_date conv a (T "dtend")) (fun e =>
  bind (conv_date conv a (T "dtasof")) (fun f => OK {| d_start := s; d_end := e; d_asof := f |}))).

(** [for acctid in args[key]] *)
Definition acct_list (a : args) (k : text) : result (list text) :=
  match args_get a k with
  | Some (PList l) => OK l
  | Some PNone => Err Reject                       (* TypeError: 'NoneType' object is not iterable *)
  | Some (PStr s) => OK (map (fun c => [c]) s)     (* a str iterates by character *)
  | Some _ => Err Reject
  | None => Err Crash
  end.
Definition flag (a : args) (k : text) : pyval := get_or a k PNone.

Definition mk_bank (kind : rkind) (a : args) (dt : dates) (ty : text) (id : text) : rq :=
  {| q_kind := kind; q_acctid := id; q_accttype := Some (upper ty);
     q_dtstart := d_start dt; q_dtend := d_end dt; q_dtasof := None;
     q_inctran := match kind with KStmt => flag a (T "inctran") | _ => PNone end;
     q_incoo := PNone; q_incpos := PNone; q_incbal := PNone |}.
Definition mk_cc (kind : rkind) (a : args) (dt : dates) (id : text) : rq :=
  {| q_kind := kind; q_acctid := id; q_accttype := None;
     q_dtstart := d_start dt; q_dtend := d_end dt; q_dtasof := None;
     q_inctran := match kind with KCcStmt => flag a (T "inctran") | _ => PNone end;
     q_incoo := PNone; q_incpos := PNone; q_incbal := PNone |}.
Definition mk_inv (a : args) (dt : dates) (id : text) : rq :=
  {| q_kind := KInvStmt; q_acctid := id; q_accttype := None;
     q_dtstart := d_start dt; q_dtend := d_end dt; q_dtasof := d_asof dt;
     q_inctran := flag a (T "inctran"); q_incoo := flag a (T "incoo");
     q_incpos := flag a (T "incpos"); q_incbal := flag a (T "incbal") |}.

(** the loop over the account types: stmtrqs.extend([... for acctid in args[accttype]]) *)
Fixpoint bank_loop (kind : rkind) (a : args) (dt : dates) (types : list text) (acc : list rq) : result (list rq) :=
  match types with
  | [] => OK acc
  | ty :: r => bind (acct_list a ty) (fun ids => bank_loop kind a dt r (acc ++ map (mk_bank kind a dt ty) ids))
  end.

(** the list request_stmt hands to client.request_statements *)
Definition stmt_rqs (a : args) (dt : dates) : result (list rq) :=
  bind (bank_loop KStmt a dt og_stmt_types []) (fun l1 =>
  bind (acct_list a (T "creditcard")) (fun cc =>
  bind (acct_list a (T "investment")) (fun inv =>
  OK (l1 ++ map (mk_cc KCcStmt a dt) cc ++ map (mk_inv a dt) inv)))).
(** the list request_stmtend hands to client.request_statements *)
Definition stmtend_rqs (a : args) (dt : dates) : result (list rq) :=
  bind (bank_loop KStmtEnd a dt og_stmtend_types []) (fun l1 =>
  bind (acct_list a (T "creditcard")) (fun cc =>
  OK (l1 ++ map (mk_cc KCcStmtEnd a dt) cc))).

(* ------------------------------------------------------------------ what reaches the request document *)
(** str.replace(pat, rep), left to right, non-overlapping; [skip] counts characters of a match still to drop *)
Fixpoint starts_with (p s : text) : bool :=
  match p, s with
  | [], _ => true
  | c :: p', d :: s' => (c =? d) && starts_with p' s'
  | _ :: _, [] => false
  end.
Fixpoint replace_go (pat rep : text) (skip : nat) (s : text) : text :=
  match s with
  | [] => []
  | c :: r =>
    match skip with
    | S k => replace_go pat rep k r
    | O => if starts_with pat s then rep ++ replace_go pat rep (Nat.pred (List.length pat)) r
           else c :: replace_go pat rep O r
    end
  end.
Definition replace_all (pat rep s : text) : text :=
  match pat with [] => s | _ => replace_go pat rep O s end.
(** saxutils.unescape(value, entities) with entities nbsp -> blank, apos -> single quote, quot -> double quote:
    lt, gt first, then the entities in that order, the ampersand last *)
Definition unescape (s : text) : text :=
  replace_all (T "&amp;") (T "&")
   (replace_all (T "&quot;") [34]
    (replace_all (T "&apos;") [39]
     (replace_all (T "&nbsp;") [32]
      (replace_all (T "&gt;") (T ">")
       (replace_all (T "&lt;") (T "<") s))))).

(** String(n, required=True).convert on a str (strict: too long is an error; NagString only warns) *)
Definition conv_string (max : option N) (v : option text) : result text :=
  match v with
  | None => Err Reject
  | Some [] => Err Reject
  | Some s => let u := unescape s in
              match max with
              | Some n => if n <? N.of_nat (List.length u) then Err Reject else OK u
              | None => OK u
              end
  end.

(** one statement request as the document shows it *)
Record docrq := {
  o_kind : rkind;
  o_inst : option text;                              (* BANKID / BROKERID *)
  o_acctid : text;
  o_accttype : option text;
  o_inctran : option (option Z * option Z * bool);   (* INCTRAN: DTSTART, DTEND, INCLUDE *)
  o_dtstart : option Z; o_dtend : option Z;          (* of a closing-statement request *)
  o_incoo : option bool;
  o_incpos : option (option Z * bool);               (* INCPOS: DTASOF, INCLUDE *)
  o_incbal : option bool }.

(** Bool(required=True).convert *)
Definition conv_bool (v : pyval) : result bool :=
  match v with PBool b => OK b | _ => Err Reject end.

Definition accttype_ok (t : text) : bool :=
  mem_text t [T "CHECKING"; T "SAVINGS"; T "MONEYMRKT"; T "CREDITLINE"; T "CD"].

(** client.stmttrnrq / ccstmttrnrq / invstmttrnrq / stmtendtrnrq / ccstmtendtrnrq for one container *)
Definition wrap (bankid brokerid : option text) (q : rq) : result docrq :=
  match q_kind q with
  | KStmt | KStmtEnd =>
    bind (conv_string (Some 9) bankid) (fun b =>
    bind (conv_string None (Some (q_acctid q))) (fun id =>
    match q_accttype q with
    | Some t =>
      if negb (accttype_ok t) then Err Reject else
      match q_kind q with
      | KStmt => bind (conv_bool (q_inctran q)) (fun i =>
                 OK {| o_kind := KStmt; o_inst := Some b; o_acctid := id; o_accttype := Some t;
                       o_inctran := Some (q_dtstart q, q_dtend q, i); o_dtstart := None; o_dtend := None;
                       o_incoo := None; o_incpos := None; o_incbal := None |})
      | _ => OK {| o_kind := KStmtEnd; o_inst := Some b; o_acctid := id; o_accttype := Some t;
                   o_inctran := None; o_dtstart := q_dtstart q; o_dtend := q_dtend q;
                   o_incoo := None; o_incpos := None; o_incbal := None |}
      end
    | None => Err Reject
    end))
  | KCcStmt =>
    bind (conv_string None (Some (q_acctid q))) (fun id =>
    bind (conv_bool (q_inctran q)) (fun i =>
    OK {| o_kind := KCcStmt; o_inst := None; o_acctid := id; o_accttype := None;
          o_inctran := Some (q_dtstart q, q_dtend q, i); o_dtstart := None; o_dtend := None;
          o_incoo := None; o_incpos := None; o_incbal := None |}))
  | KCcStmtEnd =>
    bind (conv_string None (Some (q_acctid q))) (fun id =>
    OK {| o_kind := KCcStmtEnd; o_inst := None; o_acctid := id; o_accttype := None;
          o_inctran := None; o_dtstart := q_dtstart q; o_dtend := q_dtend q;
          o_incoo := None; o_incpos := None; o_incbal := None |})
  | KInvStmt =>
    bind (conv_string (Some 22) brokerid) (fun b =>
    bind (conv_string None (Some (q_acctid q))) (fun id =>
    bind (conv_bool (q_incoo q)) (fun oo =>
    bind (conv_bool (q_incpos q)) (fun pos =>
    bind (conv_bool (q_incbal q)) (fun bal =>
    OK {| o_kind := KInvStmt; o_inst := Some b; o_acctid := id; o_accttype := None;
          o_inctran := if py_truthy (q_inctran q) then Some (q_dtstart q, q_dtend q, true) else None;
          o_dtstart := None; o_dtend := None;
          o_incoo := Some oo; o_incpos := Some (q_dtasof q, pos); o_incbal := Some bal |})))))
  end.

Fixpoint wrap_all (bankid brokerid : option text) (l : list rq) : result (list docrq) :=
  match l with
  | [] => OK []
  | q :: r => bind (wrap bankid brokerid q) (fun d => bind (wrap_all bankid brokerid r) (fun ds => OK (d :: ds)))
  end.

Definition kind_eqb (a b : rkind) : bool :=
  match a, b with
  | KStmt, KStmt | KCcStmt, KCcStmt | KInvStmt, KInvStmt | KStmtEnd, KStmtEnd | KCcStmtEnd, KCcStmtEnd => true
  | _, _ => false
  end.
Definition of_kind (k : rkind) (l : list rq) : list rq := filter (fun q => kind_eqb (q_kind q) k) l.
(** request_statements: sorted by container class name (CcStmtEndRq < CcStmtRq < InvStmtRq < StmtEndRq < StmtRq),
    grouped, the groups sorted by message-set class name (BANKMSGSRQV1 < CREDITCARDMSGSRQV1 < INVSTMTMSGSRQV1) *)
Definition doc_order (l : list rq) : list rq :=
  of_kind KStmtEnd l ++ of_kind KStmt l ++ of_kind KCcStmtEnd l ++ of_kind KCcStmt l ++ of_kind KInvStmt l.

(** args[k] or None, for a str option *)
Definition str_or_none (a : args) (k : text) : result (option text) :=
  match args_get a k with
  | None => Err Crash
  | Some v => if py_truthy v then match v with PStr s => OK (Some s) | _ => Err Reject end else OK None
  end.

(** init_client: OFXClient.__init__ refuses unclosed elements for OFX 2 *)
Definition init_client_ok (a : args) : result unit :=
  match args_get a (T "version"), args_get a (T "unclosedelements") with
  | Some (PInt v), Some u => if py_truthy u && (200 <=? v)%Z then Err Reject else OK tt
  | Some _, Some _ => Err Reject
  | _, _ => Err Crash
  end.

(** the statement requests of the document client.request_statements(password, *rqs) composes *)
Definition compose (a : args) (rqs : list rq) : result (list docrq) :=
  bind (init_client_ok a) (fun _ =>
  bind (str_or_none a (T "bankid")) (fun bankid =>
  bind (str_or_none a (T "brokerid")) (fun brokerid =>
  wrap_all bankid brokerid (doc_order rqs)))).

(** request_stmt(args) / request_stmtend(args), observed at the request document.
    [reply]: what the server answers to the ACCTINFORQ sent for --all *)
Definition with_all (a : args) (r : reply) : result args :=
  if py_truthy (get_or a (T "all") PNone) then
    if py_truthy (get_or a (T "dryrun") PNone)
    then bind (init_client_ok a) (fun _ => Err Crash)    (* the dry-run ACCTINFORQ is parsed as if it were the response *)
    else bind (init_client_ok a) (fun _ => merge_acctinfo a r)
  else OK a.

Definition request_stmt (conv : text -> result Z) (r : reply) (a : args) : result (list docrq) :=
  bind (convert_datetime conv a) (fun dt =>
  bind (with_all a r) (fun a' =>
  bind (stmt_rqs a' dt) (fun rqs => compose a' rqs))).

Definition request_stmtend (conv : text -> result Z) (r : reply) (a : args) : result (list docrq) :=
  bind (convert_datetime conv a) (fun dt =>
  bind (with_all a r) (fun a' =>
  bind (stmtend_rqs a' dt) (fun rqs => compose a' rqs))).
