(** Decidable instance validity (the domain of the round-trip theorem), generic in the scalar values (with a decidable
    equality) and in the converters: run over real instances by the C01/C13 correspondence - with handles and converter tables,
    and with the concrete typed converters - to show the theorem's hypothesis is inhabited by what the library actually builds. *)
From OfxV Require Import Base.Prelude Model.Schema Model.SchemaWf Model.Convert Proofs.RoundTrip3 Proofs.RoundTrip6.
Local Open Scope string_scope.

Section VB.
  Variable sval : Type.
  Variable sval_eqb : sval -> sval -> bool.
  Variable conv : N -> sin sval -> result (option sval).
  Variable unconv : N -> sval -> result text.
  Variable S : schema.
  Notation inst := (inst sval).

  Fixpoint ginst_eqb (a b : inst) {struct a} : bool :=
    match a, b with
    | Inst _ ca fa ma, Inst _ cb fb mb =>
      let fv := fun (x y : fval sval) => match x, y with
                  | FNone _, FNone _ => true | FVal _ u, FVal _ v => sval_eqb u v | FSub _ i, FSub _ j => ginst_eqb i j | _, _ => false end in
      let feq := fix feq (x : list (string * fval sval)) (y : list (string * fval sval)) {struct x} : bool :=
        match x, y with
        | [], [] => true
        | (k, u) :: x', (k', v) :: y' => String.eqb k k' && fv u v && feq x' y'
        | _, _ => false
        end in
      let mv := fun (x y : member sval) => match x, y with
                  | MAgg _ i, MAgg _ j => ginst_eqb i j | MStr _ s, MStr _ t => text_eqb s t
                  | MVal _ u, MVal _ v => option_eqb sval_eqb u v | _, _ => false end in
      let meq := fix meq (x : list (member sval)) (y : list (member sval)) {struct x} : bool :=
        match x, y with
        | [], [] => true
        | u :: x', v :: y' => mv u v && meq x' y'
        | _, _ => false
        end in
      String.eqb ca cb && feq fa fb && meq ma mb
    end.

  Definition is_nil {A} (l : list A) : bool := match l with [] => true | _ => false end.
  Definition scalar_ok (t : N) (x : sval) : bool :=
    match unconv t x with
    | OK s => negb (is_nil s) && match conv t (SText sval s) with OK (Some y) => sval_eqb y x | _ => false end
    | Err _ => false
    end.

  Fixpoint valid_b (i : inst) : bool :=
    match i with
    | Inst _ cn fs ms =>
      match find_cls S cn with
      | None => false
      | Some c =>
        rt_class_okb c
        && strs_eqb (map fst fs) (map fst (spec_no_list c))
        && (fix go (l : list (string * fval sval)) : bool :=
              match l with
              | [] => true
              | (k, FNone _) :: t => go t
              | (k, FVal _ x) :: t => match assoc k (ci_spec c) with Some (AElem ty _) => scalar_ok ty x | _ => false end && go t
              | (k, FSub _ j) :: t => match assoc k (ci_spec c) with Some (ASub _ _) => true | _ => false end
                                      && String.eqb (lower (icls sval j)) k && negb (has_dot (icls sval j)) && valid_b j && go t
              end) fs
        && (fix go (l : list (member sval)) : bool :=
              match l with
              | [] => true
              | MAgg _ j :: t => negb (ci_elist c) && mem (lower (icls sval j)) (listaggregates c) && negb (has_dot (icls sval j)) && valid_b j && go t
              | MVal _ (Some x) :: t => ci_elist c && match the_listelem c with Some (_, ty) => scalar_ok ty x | None => false end && go t
              | _ :: _ => false
              end) ms
        && (match split_at (ci_spec c) with None => is_nil ms | Some _ => true end)
        && match construct sval conv S cn (canon_args sval unconv c ms) (canon_kw sval unconv c fs) with
           | OK j => ginst_eqb j (Inst sval cn fs ms)
           | Err _ => false
           end
      end
    end.
End VB.
