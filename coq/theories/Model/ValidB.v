(** Decidable instance validity (the domain of the round-trip theorem), for instances whose scalars are handles and whose
    converters are tables: run over real instances by the C01/C13 correspondence to show the theorem's hypothesis is inhabited
    by what the library actually builds. *)
From OfxV Require Import Base.Prelude Model.Schema Model.SchemaWf Model.Convert Model.ConvertCases Proofs.RoundTrip3 Proofs.RoundTrip6.
Local Open Scope string_scope.

Section VB.
  Variable tb : conv_table.
  Variable utb : unconv_table.
  Variable S : schema.
  Notation conv := (tconv tb).
  Notation unconv := (tunconv utb).

  Definition is_nil {A} (l : list A) : bool := match l with [] => true | _ => false end.
  Definition scalar_ok (t : N) (x : hval) : bool :=
    match unconv t x with
    | OK s => negb (is_nil s) && match conv t (SText hval s) with OK (Some y) => N.eqb y x | _ => false end
    | Err _ => false
    end.

  Fixpoint valid_b (i : hinst) : bool :=
    match i with
    | Inst _ cn fs ms =>
      match find_cls S cn with
      | None => false
      | Some c =>
        rt_class_okb c
        && strs_eqb (map fst fs) (map fst (spec_no_list c))
        && (fix go (l : list (string * fval hval)) : bool :=
              match l with
              | [] => true
              | (k, FNone _) :: t => go t
              | (k, FVal _ x) :: t => match assoc k (ci_spec c) with Some (AElem ty _) => scalar_ok ty x | _ => false end && go t
              | (k, FSub _ j) :: t => match assoc k (ci_spec c) with Some (ASub _ _) => true | _ => false end
                                      && String.eqb (lower (icls hval j)) k && negb (has_dot (icls hval j)) && valid_b j && go t
              end) fs
        && (fix go (l : list (member hval)) : bool :=
              match l with
              | [] => true
              | MAgg _ j :: t => negb (ci_elist c) && mem (lower (icls hval j)) (listaggregates c) && negb (has_dot (icls hval j)) && valid_b j && go t
              | MVal _ (Some x) :: t => ci_elist c && match the_listelem c with Some (_, ty) => scalar_ok ty x | None => false end && go t
              | _ :: _ => false
              end) ms
        && (match split_at (ci_spec c) with None => is_nil ms | Some _ => true end)
        && match construct hval conv S cn (canon_args hval unconv c ms) (canon_kw hval unconv c fs) with
           | OK j => inst_eqb j (Inst hval cn fs ms)
           | Err _ => false
           end
      end
    end.
End VB.
