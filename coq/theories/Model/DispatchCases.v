(** Case format of the C17 dispatch correspondence run.  A case starts in the import-time state, runs a list of
    events - [ESeq o]: operation [o] performed through the real API without interruption; [EStep k]: thread [k]
    of the case advances by one atomic step (re-enacted by the harness on the real registry / cache objects) -
    and records what the IMPLEMENTATION showed: registry and dispatch cache (in dict order) before the first and
    after every event, the outcome of every uninterrupted unconvert, and per thread the outcomes of its
    completed unconverts.  [dcase_ok] runs the model on the events and compares everything.
    Encodings: class -> [ty_code]; handler -> 0 default function, 1 _unconvert_datetime (plain function),
    2 _unconvert_none, 3 the value None, 10+k _unconvert_datetime bound to instance k of the harness's pool.
    [fmt] is a table measured by calling the function _unconvert_datetime directly on (instance k, value j);
    [DTbl] checks the hypothesis of the theorems: the interpreter rebinds registered bound methods to the caller
    ([rebinds], measured) or the measured table does not depend on the instance. *)
From OfxV Require Import Base.Prelude Model.Dispatch.
Local Open Scope N_scope.

Definition dec_ty (n : N) : ty :=
  match n with 0 => TObject | 1 => TDate | 2 => TDatetime | 3 => TDatetimeSub | 4 => TNone | 5 => TStr | _ => TOther end.
Definition handler_code (h : handler) : N :=
  match h with
  | Default => 0 | UnconvDatetime None => 1 | UnconvNone => 2 | NoImpl => 3
  | UnconvDatetime (Some i) => 10 + iid i
  end.
Definition enc_dict (l : list (ty * handler)) : list (N * N) :=
  map (fun p => (ty_code (fst p), handler_code (snd p))) l.
Definition snap := (list (N * N) * list (N * N))%type.
Definition snap_of (st : state) : snap := (enc_dict (registry st), enc_dict (cache st)).

Definition fmt_tbl := list (N * N * result text).
(** a pair absent from the table answers Crash, which no measured outcome of a well-formed case is: it shows up as a disagreement *)
Fixpoint fmt_lookup (tbl : fmt_tbl) (k j : N) : result text :=
  match tbl with
  | [] => Err Crash
  | (k', j', r) :: rest => if (k =? k') && (j =? j') then r else fmt_lookup rest k j
  end.
Definition fmt_of (tbl : fmt_tbl) (i : inst) (v : pyval) : result text := fmt_lookup tbl (iid i) (vid v).
Definition tbl_self_irrelevant (tbl : fmt_tbl) : bool :=
  forallb (fun e1 => forallb (fun e2 =>
    if snd (fst e1) =? snd (fst e2) then result_eqb true text_eqb (snd e1) (snd e2) else true) tbl) tbl.

Inductive event := ESeq (o : op) | EStep (k : nat).
(* short forms used by the generated case files *)
Definition cv (k : N) (req reaches : bool) : event := ESeq (ConvertStr (Inst k req) reaches).
Definition uc (k : N) (req : bool) (t j : N) : event := ESeq (Unconvert (Inst k req) (PV (dec_ty t) j)).
Definition tm : event := ESeq TimeOp.
Definition es (k : N) : event := EStep (N.to_nat k).
Definition pcv (k : N) (req reaches : bool) : op := ConvertStr (Inst k req) reaches.
Definition puc (k : N) (req : bool) (t j : N) : op := Unconvert (Inst k req) (PV (dec_ty t) j).
Definition ot (s : text) : result outv := OK (OText s).
Definition ov (t j : N) : result outv := OK (OVal (PV (dec_ty t) j)).
Definition rj : result outv := Err Reject.
Definition cr : result outv := Err Crash.

Inductive dcase :=
| DTbl
| DCase (progs : list (list op)) (events : list event) (snaps : list snap)
        (seq_outs : list (result outv)) (thr_outs : list (list (result outv))).

Definition ev_step (rereg rebinds : bool) (fmt : inst -> pyval -> result text) (cfg : state * list thread) (e : event)
  : (state * list thread) * option (result outv) :=
  match e with
  | ESeq o => let (st', out) := run_op rereg rebinds fmt (fst cfg) o in ((st', snd cfg), out)
  | EStep k => (sched_step rereg rebinds fmt cfg k, None)
  end.
Fixpoint run_events (rereg rebinds : bool) (fmt : inst -> pyval -> result text) (cfg : state * list thread) (evs : list event)
  : (state * list thread) * list snap * list (result outv) :=
  match evs with
  | [] => (cfg, [], [])
  | e :: r =>
      let (cfg1, out) := ev_step rereg rebinds fmt cfg e in
      let '(cfg2, snaps, outs) := run_events rereg rebinds fmt cfg1 r in
      (cfg2, snap_of (fst cfg1) :: snaps, match out with Some x => x :: outs | None => outs end)
  end.

Definition outv_eqb (a b : outv) : bool :=
  match a, b with
  | OText s, OText t => text_eqb s t
  | OVal v, OVal w => ty_eqb (vty v) (vty w) && (vid v =? vid w)
  | _, _ => false
  end.
Definition out_eqb : result outv -> result outv -> bool := result_eqb true outv_eqb.
Definition dict_eqb : list (N * N) -> list (N * N) -> bool := list_eqb (pair_eqb N.eqb N.eqb).
Definition snap_eqb : snap -> snap -> bool := pair_eqb dict_eqb dict_eqb.

Definition dcase_ok (rereg rebinds : bool) (tbl : fmt_tbl) (c : dcase) : bool :=
  match c with
  | DTbl => rebinds || tbl_self_irrelevant tbl
  | DCase progs events snaps seq_outs thr_outs =>
      let fmt := fmt_of tbl in
      let '(cfg, msnaps, mouts) := run_events rereg rebinds fmt (init_state, map new_thread progs) events in
      list_eqb snap_eqb (snap_of init_state :: msnaps) snaps
      && list_eqb out_eqb mouts seq_outs
      && list_eqb (list_eqb out_eqb) (map (fun th => map d_out (done th)) (snd cfg)) thr_outs
  end.
