(** Case format of the C10 / C11 correspondence runs: one routine of the Scalars / PyDecimal models applied to
    its arguments, with the outcome the IMPLEMENTATION produced; [scase_ok] runs the model and compares
    (Reject and Crash merged into "an error": no clause of C10 / C11 distinguishes exception classes). *)
From OfxV Require Import Base.Prelude Base.Digits Gen.ScalarsGen Model.PyDecimal Model.Scalars Model.ScalarsLex.
Local Open Scope N_scope.

(** big integers are written in the case files as base-10^18 chunks, most significant first *)
Definition bigZ (neg : bool) (chunks : list N) : Z :=
  let m := Z.of_N (fold_left (fun a c => a * 1000000000000000000 + c) chunks 0) in if neg then (- m)%Z else m.

Inductive scase :=
| SConv (e : elem) (v : pyval) (exp : result (pyval * bool))           (* e.convert(v), warned? *)
| SUnconv (e : elem) (v : pyval) (exp : result (option text * bool))   (* e.unconvert(v), warned? *)
| SDecStr (d : dec) (exp : text)                                       (* str(d) *)
| SDecPlain (d : dec) (exp : text)                                     (* format(d, "f") *)
| SWire (f : wireform) (s : text) (exp : text)                         (* the datum of <X>s</X> in the serialized bytes *)
| SUnescape (s : text) (exp : text)                                    (* saxutils.unescape(s, <entities of String>) *)
| SLex (t : sty) (s : text) (exp : bool)                               (* the harness's lexical oracle on (type, text) *)
| SWireOk (s : text) (exp : bool).                                     (* the harness's wire-data oracle *)

Definition pw_eqb (a b : pyval * bool) : bool := pyval_eqb (fst a) (fst b) && Bool.eqb (snd a) (snd b).
Definition ow_eqb (a b : option text * bool) : bool := option_eqb text_eqb (fst a) (fst b) && Bool.eqb (snd a) (snd b).

Definition scase_ok (c : scase) : bool :=
  match c with
  | SConv e v exp => result_eqb false pw_eqb (convert e v) exp
  | SUnconv e v exp => result_eqb false ow_eqb (unconvert e v) exp
  | SDecStr d exp => text_eqb (to_sci d) exp
  | SDecPlain d exp => text_eqb (to_plain d) exp
  | SWire f s exp => text_eqb (wire_datum f s) exp
  | SUnescape s exp => text_eqb (string_unescape s) exp
  | SLex t s exp => Bool.eqb (lexical_ok t s) exp
  | SWireOk s exp => Bool.eqb (wire_data_ok s) exp
  end.
