(** The date-time converters of the typed schema model (Model/Typed.v's section variables conv_dt / unconv_dt), built from
    the C09 engine (Model/DateTimeM.v): values are held as instants - [PDT x]: microseconds since 1970-01-01T00:00 UTC, the
    value a Python aware datetime is compared by; [PTime x]: microseconds after midnight UTC on the 24-hour dial.
    [conv_dt_m] is Types.DateTime.convert / Types.Time.convert on text; [unconv_dt_utc] is unconvert on the value as every
    converted instance holds it (tzinfo UTC).  Definitions only. *)
From OfxV Require Import Base.Prelude Model.Calendar Model.DateTimeM Model.DateTimeMCases Model.Scalars.
Local Open Scope Z_scope.

Definition EPOCH_US : Z := 62135596800000000.
Definition UTC_NAME : text := [85; 84; 67]%N.

Section DT.
  Variable zeros : list N.
  Variable tzs : list (text * Z).
  Definition conv_dt_m (is_time : bool) (s : text) : result (option pyval) :=
    if is_time then rmap (fun f => Some (PTime (tod_us f))) (tm_convert zeros tzs s)
    else rmap (fun f => Some (PDT (us_of_fields f - EPOCH_US))) (dt_convert zeros tzs s).
End DT.

Definition utc_value (f : dtf) : aware := mkaware f (Some 0) (Some UTC_NAME).
Definition unconv_dt_utc (is_time : bool) (v : pyval) : result text :=
  match is_time, v with
  | false, PDT x => let t := x + EPOCH_US in
                    if (0 <=? t) && (t <? MAXORDINAL * US_DAY) then dt_unconvert (utc_value (fields_of_us t)) else Err Crash
  | true, PTime x => if (0 <=? x) && (x <? US_DAY) then tm_unconvert (utc_value (fields_of_us x)) else Err Crash
  | _, _ => Err Crash
  end.
