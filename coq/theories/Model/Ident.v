(** Model of the securities-identifier routines of ofxtools/utils.py:144-235
    (cusip_checksum, validate_cusip, sedol_checksum, isin_checksum, validate_isin,
    cusip2isin, sedol2isin), transcribed statement by statement: the string
    concatenation / reversal / digit summing is kept as the code does it.
    Domain: ASCII text (Python's int(c, 36) also accepts non-ASCII decimal digits;
    the model answers Reject there and the theorems quantify over ASCII alphabets).
    Definitions only. *)
From OfxV Require Import Base.Prelude Base.Digits.
Local Open Scope N_scope.

(** int(c, 36) for one ASCII character *)
Definition val36 (c : N) : option N :=
  if (48 <=? c) && (c <=? 57) then Some (c - 48)
  else if (65 <=? c) && (c <=? 90) then Some (c - 55)
  else if (97 <=? c) && (c <=? 122) then Some (c - 87)
  else None.

(** {"*": 36, "@": 37, "#": 38}.get(char) falling back to int(char, 36) *)
Definition cusip_val (c : N) : option N :=
  if c =? 42 then Some 36 else if c =? 64 then Some 37 else if c =? 35 then Some 38 else val36 c.

(** "".join(encode(index, char) ...) with encode = str(num*2) if index % 2 else str(num) *)
Fixpoint cusip_encode (odd : bool) (s : text) : option text :=
  match s with
  | [] => Some []
  | c :: r =>
    match cusip_val c, cusip_encode (negb odd) r with
    | Some v, Some t => Some (dec_of_N (if odd then v * 2 else v) ++ t)
    | _, _ => None
    end
  end.

Definition check_char (sum : N) : text := dec_of_N ((10 - sum mod 10) mod 10).

Definition len (s : text) : N := N.of_nat (List.length s).

Definition cusip_checksum (base : text) : result text :=
  if negb (len base =? 8) then Err Crash            (* assert len(base) == 8 *)
  else match cusip_encode false base with
       | None => Err Reject                          (* ValueError from int(char, 36) *)
       | Some check => OK (check_char (digit_sum check))
       end.

Definition validate_cusip (cusip : text) : result bool :=
  if len cusip =? 9 then
    bind (cusip_checksum (firstn 8 cusip)) (fun c => OK (text_eqb c (skipn 8 cusip)))
  else OK false.

Definition sedol_weights : list N := [1; 3; 1; 7; 3; 9].
Fixpoint sedol_sum (ws : list N) (s : text) : option N :=
  match s, ws with
  | [], _ => Some 0
  | c :: r, w :: ws' =>
    match val36 c, sedol_sum ws' r with Some v, Some t => Some (v * w + t) | _, _ => None end
  | _ :: _, [] => None
  end.
Definition is_AEIO (c : N) : bool := (c =? 65) || (c =? 69) || (c =? 73) || (c =? 79).

Definition sedol_checksum (base : text) : result text :=
  if negb (len base =? 6) then Err Crash
  else if existsb is_AEIO base then Err Crash        (* assert badLetter not in base *)
  else match sedol_sum sedol_weights base with
       | None => Err Reject
       | Some s => OK (check_char s)
       end.

(** "".join(str(int(char, 36)) for char in base) *)
Fixpoint isin_expand (s : text) : option text :=
  match s with
  | [] => Some []
  | c :: r => match val36 c, isin_expand r with Some v, Some t => Some (dec_of_N v ++ t) | _, _ => None end
  end.
(** "".join(d if n % 2 else str(int(d) * 2) for n, d in enumerate(check)) *)
Fixpoint isin_double (odd : bool) (s : text) : text :=
  match s with
  | [] => []
  | d :: r => (if odd then [d] else dec_of_N (digit_val d * 2)) ++ isin_double (negb odd) r
  end.

Section Agencies.
  (** keys of lib.NUMBERING_AGENCIES, regenerated from the source (Gen/ConstGen.v) *)
  Variable agencies : list text.
  Definition is_agency (p : text) : bool := existsb (text_eqb p) agencies.

  Definition isin_checksum (base : text) : result text :=
    if negb (len base =? 11) then Err Crash
    else if negb (is_agency (firstn 2 base)) then Err Crash
    else match isin_expand base with
         | None => Err Reject
         | Some check => OK (check_char (digit_sum (isin_double false (rev check))))
         end.

  Definition validate_isin (isin : text) : result bool :=
    if (len isin =? 12) && is_agency (firstn 2 isin) then
      bind (isin_checksum (firstn 11 isin)) (fun c => OK (text_eqb c (skipn 11 isin)))
    else OK false.

  (** nation = None is modelled by the caller passing the default "US" / "GB"
      (`nation or "US"`: the empty string also selects the default) *)
  Definition cusip2isin (cusip : text) (nation : text) : result text :=
    bind (validate_cusip cusip) (fun v =>
      if negb v then Err Reject
      else let nation := match nation with [] => [85; 83] | _ => nation end in
        if negb (is_agency nation) then Err Reject
        else let base := nation ++ cusip in
             bind (isin_checksum base) (fun c => OK (base ++ c))).

  (** sedol.zfill(9) for a 7-character string without sign: two zeros in front *)
  Definition sedol2isin (sedol : text) (nation : text) : result text :=
    let nation := match nation with [] => [71; 66] | _ => nation end in
    if negb (len sedol =? 7) then Err Crash
    else bind (sedol_checksum (firstn 6 sedol)) (fun c =>
      if negb (text_eqb c (skipn 6 sedol)) then Err Crash
      else let base := nation ++ [48; 48] ++ sedol in
           bind (isin_checksum base) (fun k => OK (base ++ k))).
End Agencies.

(** ---- independent statement of the published algorithms (the specification) ---- *)
Definition ds2 (p : N) : N := p / 10 + p mod 10.        (* digit sum of a product < 100 *)
(** CUSIP (ANSI X9.6): every second character (2nd, 4th, ...) is doubled, digits of the products summed *)
Fixpoint cusip_spec_sum (odd : bool) (vs : list N) : N :=
  match vs with [] => 0 | v :: r => ds2 (if odd then v * 2 else v) + cusip_spec_sum (negb odd) r end.
(** SEDOL: weighted sum *)
Fixpoint sedol_spec_sum (ws vs : list N) : N :=
  match vs, ws with v :: r, w :: ws' => v * w + sedol_spec_sum ws' r | _, _ => 0 end.
(** ISIN (ISO 6166): Luhn over the expanded digit string, rightmost payload digit doubled *)
Fixpoint luhn_sum (dbl : bool) (rev_digits : list N) : N :=
  match rev_digits with [] => 0 | d :: r => (if dbl then ds2 (d * 2) else d) + luhn_sum (negb dbl) r end.
Definition spec_check (sum : N) : N := (10 - sum mod 10) mod 10.
