(** Engine HttpClient (C14): what an [OFXClient] sends, where, and with which cookies.

    Transcribed from /repo/ofxtools/Client.py:
      - [post]            = post_request (870-905): method POST, http_headers (310-323), body, HTTPCookieProcessor(self.cookiejar)
                            installed only when persist_cookies; the jar is per instance (296-298)
      - [download]        = download (820-868): a dry run returns the serialized request BEFORE post_request
      - [profile_step]    = request_profile (472-547) + _request_profile (549-589): cache file <org>-<fid>.profrs, DTPROFUP of the
                            profile held, AUTH_PLACEHOLDER as user and password, status 1 / status 0 / asserts on status and dates
      - [service_url]     = _get_service_urls (425-470) followed by `urls = set(RqCls2url.values()); assert len(urls) == 1`
      - [authed_step]     = request_statements (345-364,417-423), request_accounts (604-619,637-643), request_tax1099 (659-674,691-697)
    The HTTP server is an arbitrary oracle [world]: it may depend on the number of requests made so far and on the request.
    Abstracted (CPython runtime, see PARTIAL in tools/ofxv/props/c14.py): urllib, the domain/path/expiry policy of
    http.cookiejar ("same host" here), TLS, sockets, redirects.  The profile cache is the sequential one (whole files only);
    crashes and interleavings of the cache protocol are engine ProfileCache (C15).  Definitions only. *)
From OfxV Require Import Base.Prelude.
Local Open Scope N_scope.

Record url := Url { u_host : N; u_path : N }.
Definition url_eqb (a b : url) : bool := (u_host a =? u_host b) && (u_path a =? u_path b).

Inductive kind := KProfile | KStmt | KAcct | KTax.
Inductive mode := MDry | MSkip | MNormal.
(** one call of a public method: request_profile(dryrun=…) has no skip_profile parameter, [MSkip] is read as [MNormal] there *)
Record op := Op { o_kind : kind; o_mode : mode; o_pass : N }.

(** user ids / passwords are numbers; [0] is AUTH_PLACEHOLDER ("anonymous00000000000000000000000") *)
Definition placeholder : N := 0.

(** the part of a profile that the client reads *)
Inductive setkind := SBank | SCc | SInv | SOther.
Record msgset := MsgSet { ms_kind : setkind; ms_url : url; ms_closing : bool }.
Record profile := Profile { pf_id : N; pf_date : N; pf_sets : list msgset }.

(** the body of a request, as far as C14 speaks about it (the bytes are compared by the harness) *)
Record body := Body { b_kind : kind; b_user : N; b_pass : N; b_dtprofup : option N }.
Definition has_credentials (b : body) : bool := negb ((b_user b =? placeholder) && (b_pass b =? placeholder)).

Definition mime_ofx : N := 1.        (* "application/x-ofx" *)
Definition accept_ofx : N := 1.      (* "*/*, application/x-ofx, application/xml;q=0.9" *)
Record http_request := Rq { rq_url : url; rq_post : bool; rq_ctype : N; rq_accept : N; rq_ua : N;
                            rq_cookies : list (N * N); rq_body : body }.

(** what the server's answer amounts to for the client *)
Inductive payload :=
 | RProfile (p : profile)      (* PROFTRNRS status 0 with a PROFRS *)
 | RUpToDate                   (* PROFTRNRS status 1, no PROFRS *)
 | RErrStatus                  (* PROFTRNRS with another status code *)
 | ROpaque.                    (* anything else: a statement, HTML, nothing *)
Record response := Rs { rs_transport : bool;      (* false: URLError, no response at all *)
                        rs_http_ok : bool;        (* false: HTTPError raised after the cookie processor ran *)
                        rs_cookies : list (N * N);
                        rs_payload : payload }.
Definition world := nat -> http_request -> response.

Record cfg := Cfg { c_url : url; c_user : N; c_org : option N; c_fid : option N; c_persist : bool; c_ua : N }.
Definition jar := list (N * (N * N)).            (* host, (name, value) *)
Record client := Client { cl_cfg : cfg; cl_jar : jar }.
Definition ckey := (option N * option N)%type.    (* f"{self.org}-{self.fid}.profrs" *)
Definition key_of (c : cfg) : ckey := (c_org c, c_fid c).
Definition ckey_eqb (a b : ckey) : bool := option_eqb N.eqb (fst a) (fst b) && option_eqb N.eqb (snd a) (snd b).
(** the cache directory; the [url] next to each profile is GHOST (where the request that fetched it was posted): never read by the code *)
Definition cache := list (ckey * (profile * url)).
Record state := St { s_clients : list client; s_cache : cache; s_nreq : nat }.

Fixpoint cache_get (c : cache) (k : ckey) : option (profile * url) :=
  match c with
  | [] => None
  | (k', v) :: r => if ckey_eqb k' k then Some v else cache_get r k
  end.
Fixpoint cache_set (c : cache) (k : ckey) (v : profile * url) : cache :=
  match c with
  | [] => [(k, v)]
  | (k', v') :: r => if ckey_eqb k' k then (k, v) :: r else (k', v') :: cache_set r k v
  end.

(** ---- cookies: http.cookiejar abstracted to "same host, last value of a name wins" ---- *)
Fixpoint jar_get (j : jar) (host : N) : list (N * N) :=
  match j with
  | [] => []
  | (h, nv) :: r => if h =? host then nv :: jar_get r host else jar_get r host
  end.
Fixpoint jar_drop (j : jar) (host name : N) : jar :=
  match j with
  | [] => []
  | (h, (n, v)) :: r => if (h =? host) && (n =? name) then jar_drop r host name else (h, (n, v)) :: jar_drop r host name
  end.
Definition jar_set1 (j : jar) (host : N) (nv : N * N) : jar := (jar_drop j host (fst nv) ++ [(host, nv)])%list.
Definition jar_update (j : jar) (host : N) (cs : list (N * N)) : jar := fold_left (fun j nv => jar_set1 j host nv) cs j.

Fixpoint set_nth {A} (l : list A) (k : nat) (x : A) : list A :=
  match l, k with
  | [], _ => []
  | _ :: r, O => x :: r
  | y :: r, S k' => y :: set_nth r k' x
  end.

(** post_request: exactly one POST; returns the new jar, the request as sent and the server's answer *)
Definition post (w : world) (n : nat) (cl : client) (u : url) (b : body) : client * http_request * response :=
  let c := cl_cfg cl in
  let cookies := if c_persist c then jar_get (cl_jar cl) (u_host u) else [] in
  let rq := Rq u true mime_ofx accept_ofx (c_ua c) cookies b in
  let rs := w n rq in
  let j' := if c_persist c && rs_transport rs then jar_update (cl_jar cl) (u_host u) (rs_cookies rs) else cl_jar cl in
  (Client c j', rq, rs).
(** what post_request returns to download: the body, or URLError / HTTPError *)
Definition delivered (rs : response) : result payload :=
  if rs_transport rs && rs_http_ok rs then OK (rs_payload rs) else Err Crash.

(** request_profile once the answer is in: (new cache, result) *)
Definition accept_profile (ca : cache) (c : cfg) (r : result payload) : cache * result profile :=
  let held := cache_get ca (key_of c) in
  match r with
  | Err k => (ca, Err k)
  | OK RUpToDate => match held with Some (p, _) => (ca, OK p) | None => (ca, Err Crash) end      (* assert profrs is not None *)
  | OK (RProfile p) =>
      match held with
      | Some (h, _) => if pf_date h <=? pf_date p then (cache_set ca (key_of c) (p, c_url c), OK p)
                       else (ca, Err Crash)                                                       (* assert dtprofup <= dtprofup_server *)
      | None => (cache_set ca (key_of c) (p, c_url c), OK p)
      end
  | OK RErrStatus => (ca, Err Crash)                                                              (* assert status.code == 0 *)
  | OK ROpaque => (ca, Err Reject)                                                                (* parse / convert fails *)
  end.

Definition profile_body (ca : cache) (c : cfg) : body :=
  Body KProfile placeholder placeholder (match cache_get ca (key_of c) with Some (p, _) => Some (pf_date p) | None => None end).

(** result of one call: [OK n], n = 0 for a dry run (the serialized request), otherwise 1 + the index of the answer returned
    (for a profile served from the cache: 1 + index is replaced by the profile id, see [outcome]) *)
Inductive outcome := ODry | OAnswer (n : nat) | OProf (id : N).

Definition last_url (k : setkind) (sets : list msgset) : option url :=
  fold_left (fun acc m => match ms_kind m, k with
                          | SBank, SBank | SCc, SCc | SInv, SInv => Some (ms_url m)
                          | _, _ => acc end) sets None.
Fixpoint first_closing (k : setkind) (sets : list msgset) : option url :=
  match sets with
  | [] => None
  | m :: r => match ms_kind m, k with
              | SBank, SBank | SCc, SCc => if ms_closing m then Some (ms_url m) else None
              | _, _ => first_closing k r end
  end.
Definition opt_list {A} (o : option A) : list A := match o with Some a => [a] | None => [] end.
Definition advertised (p : profile) : list url :=
  (opt_list (last_url SBank (pf_sets p)) ++ opt_list (last_url SCc (pf_sets p)) ++ opt_list (last_url SInv (pf_sets p))
   ++ opt_list (first_closing SBank (pf_sets p)) ++ opt_list (first_closing SCc (pf_sets p)))%list.
(** `assert len(set(urls)) == 1` *)
Definition service_url (p : profile) : option url :=
  match advertised p with
  | [] => None
  | u :: r => if forallb (url_eqb u) r then Some u else None
  end.

(** one call of a public method by client number [k]: new state, the exchanges with the server in order, the outcome *)
Definition xchg := (http_request * response)%type.
Definition step (w : world) (st : state) (k : nat) (o : op) : state * list xchg * result outcome :=
  match nth_error (s_clients st) k with
  | None => (st, [], Err Crash)
  | Some cl =>
    let c := cl_cfg cl in
    match o_kind o, o_mode o with
    | _, MDry => (st, [], OK ODry)
    | KProfile, _ =>
        let '(cl1, rq, rs) := post w (s_nreq st) cl (c_url c) (profile_body (s_cache st) c) in
        let '(ca1, r) := accept_profile (s_cache st) c (delivered rs) in
        (St (set_nth (s_clients st) k cl1) ca1 (S (s_nreq st)), [(rq, rs)], rmap (fun p => OProf (pf_id p)) r)
    | kd, MSkip =>
        let '(cl1, rq, rs) := post w (s_nreq st) cl (c_url c) (Body kd (c_user c) (o_pass o) None) in
        (St (set_nth (s_clients st) k cl1) (s_cache st) (S (s_nreq st)), [(rq, rs)], rmap (fun _ => OAnswer (s_nreq st)) (delivered rs))
    | kd, MNormal =>
        let '(cl1, rq, rs) := post w (s_nreq st) cl (c_url c) (profile_body (s_cache st) c) in
        let '(ca1, r) := accept_profile (s_cache st) c (delivered rs) in
        let st1 := St (set_nth (s_clients st) k cl1) ca1 (S (s_nreq st)) in
        match r with
        | Err e => (st1, [(rq, rs)], Err e)
        | OK p =>
            match service_url p with
            | None => (st1, [(rq, rs)], Err Crash)
            | Some u =>
                let '(cl2, rq2, rs2) := post w (s_nreq st1) cl1 u (Body kd (c_user c) (o_pass o) None) in
                (St (set_nth (s_clients st1) k cl2) ca1 (S (s_nreq st1)), [(rq, rs); (rq2, rs2)],
                 rmap (fun _ => OAnswer (s_nreq st1)) (delivered rs2))
            end
        end
    end
  end.

(** a history: calls by numbered clients; the trace keeps, per call, who called, what was sent and what came back *)
Record event := Ev { e_client : nat; e_op : op; e_xchg : list xchg; e_result : result outcome }.
Definition e_reqs (ev : event) : list http_request := map fst (e_xchg ev).
Fixpoint run (w : world) (st : state) (ops : list (nat * op)) : state * list event :=
  match ops with
  | [] => (st, [])
  | (k, o) :: r =>
      let '(st1, xs, res) := step w st k o in
      let '(st2, tr) := run w st1 r in
      (st2, Ev k o xs res :: tr)
  end.

Definition init (cfgs : list cfg) : state := St (map (fun c => Client c []) cfgs) [] 0.

(** ---- vocabulary of the theorems (computable, so that refutations are closed by vm_compute) ---- *)
(** the exchanges of a trace in order, each tagged with the client that made it *)
Definition flat (tr : list event) : list (nat * xchg) := flat_map (fun ev => map (fun x => (e_client ev, x)) (e_xchg ev)) tr.
(** profiles that the server at [u] delivered in answer to profile requests *)
Definition xchg_profile (u : url) (x : xchg) : list profile :=
  match b_kind (rq_body (fst x)), rs_payload (snd x) with
  | KProfile, RProfile p => if url_eqb (rq_url (fst x)) u && rs_transport (snd x) && rs_http_ok (snd x) then [p] else []
  | _, _ => []
  end.
Definition profiles_sent (tr : list event) (u : url) : list profile := flat_map (fun ev => flat_map (xchg_profile u) (e_xchg ev)) tr.
(** the jar that the answers given to client [k] alone produce (no other client's exchange enters) *)
Definition jar_spec (xs : list (nat * xchg)) (k : nat) : jar :=
  fold_left (fun j kx => if Nat.eqb (fst kx) k && rs_transport (snd (snd kx))
                         then jar_update j (u_host (rq_url (fst (snd kx)))) (rs_cookies (snd (snd kx))) else j) xs [].
