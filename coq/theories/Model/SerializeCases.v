(** Case format of the [Serialize] correspondence run (part of C02's check): a tree (with tails), the
    options of OFXClient.serialize, and the BYTES the implementation wrote (or its exception class).
      mode 0: ET.tostring(t, encoding="utf_8", method="html")        1: utils.tostring_unclosed_elements(t)
      mode 2: utils.indent(t) then mode 0                            3: utils.indent(t) then mode 1
      mode 4: utils.indent(t) alone, observed through an html dump of text and tails (every field bracketed) *)
From OfxV Require Import Base.Prelude Base.SgmlBase Model.Serialize.
Local Open Scope N_scope.
Inductive sercase := SerCase (mode : N) (t : itree) (exp : result (list N)).
(** dump of all fields, to compare [indent] field by field *)
Fixpoint dump (e : itree) : text :=
  match e with INode t x tl ch =>
    ([40] ++ t ++ [124] ++ (match x with None => [78] | Some s => 83 :: s end) ++ [124]
     ++ (match tl with None => [78] | Some s => 83 :: s end) ++ [124]
     ++ (fix go (l : list itree) : text := match l with [] => [] | c :: r => dump c ++ go r end) ch ++ [41])%list
  end.
Definition run_sercase (he : list text) (esc : bool) (mode : N) (t : itree) : result (list N) :=
  match mode with
  | 0 => OK (tostring_html he t)
  | 1 => tostring_unclosed esc t
  | 2 => OK (tostring_html he (indent 0 t))
  | 3 => tostring_unclosed esc (indent 0 t)
  | _ => utf8_strict (dump (indent 0 t))
  end.
Definition sercase_ok (he : list text) (esc : bool) (c : sercase) : bool :=
  match c with SerCase mode t exp => result_eqb false (list_eqb N.eqb) (run_sercase he esc mode t) exp end.
