(** Case format of the C18 correspondence run.  One case = one FI database text, one initial user
    file, an OFX Home oracle table, and a sequence of ofxget runs on that same user file; each run carries
    what the IMPLEMENTATION did: extractns(parse_args(argv)), the merged mapping (as a difference from
    DEFAULTS plus the keys DEFAULTS lacks) or the error, whether write_config was called / returned /
    raised, and the text of ofxget.cfg afterwards.  [ccase_ok] runs the model and compares. *)
From OfxV Require Import Base.Prelude Base.Digits Base.OfxgetBase Gen.OfxgetGen Model.OfxgetCfg.
Local Open Scope N_scope.

Record crun := CRun {
  r_cli : amap;               (* extractns(namespace) *)
  r_uuid : text;              (* what OFXClient.uuid answers during this run *)
  r_eff : result amap;        (* merged mapping: entries that differ from DEFAULTS + extra keys *)
  r_wout : N;                 (* write_config: 0 not called, 1 returned, 2 raised *)
  r_file : option text }.     (* ofxget.cfg after the run *)

Inductive ccase := CCase (fi : text) (user : option text) (oh : dict ohrec) (runs : list crun).

Definition eff_ok (a : args) (exp : amap) : bool :=
  forallb (fun kd => pyval_eqb (get_or a (fst kd) PNone)
                               (match assoc (fst kd) exp with Some v => v | None => snd kd end)) og_defaults
  && forallb (fun kv => match args_get a (fst kv) with Some v => pyval_eqb v (snd kv) | None => false end) exp.

Definition same_file (a b : option text) : bool := option_eqb text_eqb a b.

Definition crun_ok (lookup : text -> option ohrec) (fi : text) (user : option text) (r : crun) : bool :=
  match run_ofxget lookup (r_uuid r) fi user (r_cli r), r_eff r with
  | Err _, Err _ => (r_wout r =? 0) && same_file (r_file r) user
  | OK (a, w), OK exp =>
    eff_ok a exp &&
    (if py_truthy (get_or a (T "write") PNone) then
       match w with
       | OK None => (r_wout r =? 1) && same_file (r_file r) user
       | OK (Some t) => (r_wout r =? 1) && same_file (r_file r) (Some t)
       | Err _ => (r_wout r =? 2) && same_file (r_file r) user
       end
     else (r_wout r =? 0) && same_file (r_file r) user)
  | _, _ => false
  end.

(** the runs share the user file; after each run the model continues from the file the implementation left *)
Fixpoint cruns_ok (lookup : text -> option ohrec) (fi : text) (user : option text) (rs : list crun) : bool :=
  match rs with
  | [] => true
  | r :: rest => crun_ok lookup fi user r && cruns_ok lookup fi (r_file r) rest
  end.

Definition ccase_ok (c : ccase) : bool :=
  match c with CCase fi user oh runs => cruns_ok (fun id => assoc id oh) fi user runs end.

(** what the model computes for a case (for replay files / debugging) *)
Definition ccase_model (c : ccase) : list (result (args * result (option text))) :=
  match c with CCase fi user oh runs =>
    (fix go (user : option text) (rs : list crun) :=
       match rs with
       | [] => []
       | r :: rest => run_ofxget (fun id => assoc id oh) (r_uuid r) fi user (r_cli r) :: go (r_file r) rest
       end) user runs
  end.
