(** Model of the settings machinery of ofxtools/scripts/ofxget.py (engine OfxgetCfg, property C18):

      convert_list, UserConfig/LibraryConfig (configparser.ConfigParser with the "list" converter and
      -- after fixes/C18-1 -- interpolation=None), USERCFG.read([CONFIGPATH, USERCONFIGPATH]) /
      LIBCFG.read(CONFIGPATH), read_config, merge_config, merge_from_ofxhome, extractns (the caller hands
      the model the namespace with None already dropped), write_config, mk_server_cfg (test_cfg_val),
      arg2config.

    and of the part of the Python runtime the property depends on (transcribed from CPython 3.12
    configparser.py): RawConfigParser._read (comment lines, blank lines, continuation lines, section
    headers, [key = value] / [key: value] lines, strict duplicate detection, missing section header),
    _join_multiline_values, optionxform (ASCII lower), RawConfigParser.write / _write_section,
    options()/get()/getint()/getboolean(), SectionProxy iteration, MutableMapping.clear() (which leaves
    the [DEFAULT] section in place), text-mode universal newlines, str.strip/split/repr.

    Tables (DEFAULTS, CONFIGURABLE, NULL_ARGS, the OFX Home keys, str.isspace, BOOLEAN_STATES) come from
    Gen/OfxgetGen.v.  ofxhome.lookup and OFXClient.uuid are oracles (arguments).  Errors: Reject =
    ValueError/TypeError, Crash = anything else (configparser.Error, KeyError, SystemExit).
    Limits (see PARTIAL in tools/ofxv/props/c18.py): str.lower and int() on ASCII; repr() of code points
    >= 256 taken as printable; urlparse's scheme test without its netloc validation.
    Definitions only. *)
From OfxV Require Import Base.Prelude Base.Digits Base.OfxgetBase Gen.OfxgetGen.
Local Open Scope N_scope.

(* ------------------------------------------------------------------ text *)
Definition is_space (c : N) : bool := existsb (N.eqb c) og_isspace.

Fixpoint lstrip (s : text) : text :=
  match s with
  | [] => []
  | c :: r => if is_space c then lstrip r else s
  end.
Fixpoint rstrip (s : text) : text :=
  match s with
  | [] => []
  | c :: r => match rstrip r with
              | [] => if is_space c then [] else [c]
              | r' => c :: r'
              end
  end.
(** str.strip() *)
Definition strip (s : text) : text := rstrip (lstrip s).

Fixpoint split_aux (d : N) (s : text) : text * list text :=
  match s with
  | [] => ([], [])
  | c :: r => let (p, ps) := split_aux d r in
              if c =? d then ([], p :: ps) else (c :: p, ps)
  end.
(** s.split(d) for a one-character separator: at least one piece *)
Definition split_on (d : N) (s : text) : list text := let (p, ps) := split_aux d s in p :: ps.

(** sep.join(l) *)
Fixpoint join (sep : text) (l : list text) : text :=
  match l with
  | [] => []
  | [x] => x
  | x :: r => x ++ sep ++ join sep r
  end.

Definition lower_c (c : N) : N := if (65 <=? c) && (c <=? 90) then c + 32 else c.
Definition upper_c (c : N) : N := if (97 <=? c) && (c <=? 122) then c - 32 else c.
(** str.lower() / str.upper() (ASCII) *)
Definition lower (s : text) : text := map lower_c s.
Definition upper (s : text) : text := map upper_c s.

Definition is_nil {A} (l : list A) : bool := match l with [] => true | _ => false end.

(** index of the first character satisfying p, with the prefix before it *)
Fixpoint break_at (p : N -> bool) (s : text) : option (text * N * text) :=
  match s with
  | [] => None
  | c :: r => if p c then Some ([], c, r)
              else match break_at p r with
                   | Some (a, d, b) => Some (c :: a, d, b)
                   | None => None
                   end
  end.

(** text-mode reading: "\r\n" and "\r" become "\n" *)
Fixpoint unl (s : text) : text :=
  match s with
  | [] => []
  | c :: r => if c =? 13
              then 10 :: match r with
                         | c' :: r' => if c' =? 10 then unl r' else unl r
                         | [] => []
                         end
              else c :: unl r
  end.
Fixpoint drop_last_empty (l : list text) : list text :=
  match l with
  | [] => []
  | [x] => if is_nil x then [] else [x]
  | x :: r => x :: drop_last_empty r
  end.
(** the lines a text-mode file object yields (without their terminators) *)
Definition file_lines (s : text) : list text := drop_last_empty (split_on 10 (unl s)).

(* ------------------------------------------------------------------ configparser state *)
Definition section := dict text.
Record cfg := { c_defaults : section; c_sections : dict section }.
Definition empty_cfg : cfg := {| c_defaults := []; c_sections := [] |}.
Definition DEFAULTSECT : text := T "DEFAULT".

(** the dict a section name denotes for the reader / for __setitem__ *)
Definition sect_get (c : cfg) (name : text) : option section :=
  match assoc name (c_sections c) with
  | Some d => Some d
  | None => if text_eqb name DEFAULTSECT then Some (c_defaults c) else None
  end.
Definition sect_set_opt (c : cfg) (name k v : text) : cfg :=
  match assoc name (c_sections c) with
  | Some d => {| c_defaults := c_defaults c; c_sections := dset name (dset k v d) (c_sections c) |}
  | None => {| c_defaults := dset k v (c_defaults c); c_sections := c_sections c |}
  end.

(* ------------------------------------------------------------------ RawConfigParser._read *)
Record rstate := {
  rs_cfg : cfg;
  rs_cur : option text;                  (* sectname of cursect; None before the first header *)
  rs_pend : option (text * list text);   (* optname and the lines of its value so far (cursect[optname]) *)
  rs_indent : N;
  rs_secs : list text;                   (* elements_added: section names *)
  rs_opts : list (text * text) }.        (* elements_added: (sectname, optname) *)

(** '\n'.join(lines).rstrip() stored under the pending option (_join_multiline_values) *)
Definition flush (st : rstate) : cfg :=
  match rs_pend st, rs_cur st with
  | Some (k, ls), Some cur => sect_set_opt (rs_cfg st) cur k (rstrip (join [10] ls))
  | _, _ => rs_cfg st
  end.

Definition is_comment (sline : text) : bool :=
  match sline with c :: _ => (c =? 35) || (c =? 59) | [] => false end.

Fixpoint indent_of (line : text) : N :=
  match line with
  | [] => 0
  | c :: r => if is_space c then 1 + indent_of r else 0
  end.

(** SECTCRE = \[(?P<header>.+)\] matched at the start of the stripped line: greedy, up to the last ']' *)
Fixpoint upto_last_rbracket (s : text) : option text :=
  match s with
  | [] => None
  | c :: r => match upto_last_rbracket r with
              | Some h => Some (c :: h)
              | None => if c =? 93 then Some [] else None
              end
  end.
Definition section_header (sline : text) : option text :=
  match sline with
  | c :: r => if c =? 91
              then match upto_last_rbracket r with
                   | Some [] => None
                   | Some h => Some h
                   | None => None
                   end
              else None
  | [] => None
  end.

Definition is_delim (c : N) : bool := (c =? 61) || (c =? 58).
(** _optcre (option: shortest prefix, then blanks, the first '=' or ':', blanks, the rest of the line), then
    optname.rstrip() and optval.strip() *)
Definition split_option (sline : text) : option (text * text) :=
  match break_at is_delim sline with
  | Some (k, _, v) => Some (rstrip k, strip v)
  | None => None
  end.

Definition pair_mem (a b : text) (l : list (text * text)) : bool :=
  existsb (fun p => text_eqb a (fst p) && text_eqb b (snd p)) l.

(** cursect[optname].append(x) *)
Definition append_pending (st : rstate) (x : text) : rstate :=
  match rs_pend st with
  | Some (k, ls) => {| rs_cfg := rs_cfg st; rs_cur := rs_cur st; rs_pend := Some (k, ls ++ [x]);
                       rs_indent := rs_indent st; rs_secs := rs_secs st; rs_opts := rs_opts st |}
  | None => st
  end.

(** the part of the loop body after the continuation test failed *)
Definition read_header_or_option (st : rstate) (line : text) : result rstate :=
  let sline := strip line in
  let ind := indent_of line in
  match section_header sline with
  | Some name =>
    let c := flush st in
    if has_key name (c_sections c) then
      if mem_text name (rs_secs st) then Err Crash                       (* DuplicateSectionError *)
      else OK {| rs_cfg := c; rs_cur := Some name; rs_pend := None; rs_indent := ind;
                 rs_secs := name :: rs_secs st; rs_opts := rs_opts st |}
    else if text_eqb name DEFAULTSECT then
      OK {| rs_cfg := c; rs_cur := Some name; rs_pend := None; rs_indent := ind;
            rs_secs := rs_secs st; rs_opts := rs_opts st |}
    else
      OK {| rs_cfg := {| c_defaults := c_defaults c; c_sections := c_sections c ++ [(name, [])] |};
            rs_cur := Some name; rs_pend := None; rs_indent := ind;
            rs_secs := name :: rs_secs st; rs_opts := rs_opts st |}
  | None =>
    match rs_cur st with
    | None => Err Crash                                                   (* MissingSectionHeaderError *)
    | Some cur =>
      match split_option sline with
      | None => Err Crash                                                 (* ParsingError (raised at the end) *)
      | Some (k0, v) =>
        if is_nil k0 then Err Crash                                       (* ParsingError *)
        else
          let k := lower k0 in
          if pair_mem cur k (rs_opts st) then Err Crash                   (* DuplicateOptionError *)
          else OK {| rs_cfg := flush st; rs_cur := Some cur; rs_pend := Some (k, [v]); rs_indent := ind;
                     rs_secs := rs_secs st; rs_opts := (cur, k) :: rs_opts st |}
      end
    end
  end.

Definition is_continuation (st : rstate) (line : text) : bool :=
  match rs_pend st with
  | Some _ => rs_indent st <? indent_of line
  | None => false
  end.

(** one iteration of the loop over the file's lines *)
Definition read_step (st : rstate) (line : text) : result rstate :=
  let sline := strip line in
  if is_comment sline then OK st                                  (* full-line comment: nothing is appended *)
  else if is_nil sline then OK (append_pending st [])             (* empty_lines_in_values *)
  else if is_continuation st line then OK (append_pending st sline)
  else read_header_or_option st line.

Fixpoint read_lines (st : rstate) (ls : list text) : result rstate :=
  match ls with
  | [] => OK st
  | l :: r => bind (read_step st l) (fun st' => read_lines st' r)
  end.

(** the loop of _read run on one file by itself *)
Definition parse_text (s : text) : result cfg :=
  bind (read_lines {| rs_cfg := empty_cfg; rs_cur := None; rs_pend := None; rs_indent := 0; rs_secs := []; rs_opts := [] |}
                   (file_lines s))
       (fun st => OK (flush st)).

(** d0.update(d) key by key: existing keys keep their place, new keys follow in the file's order *)
Definition dmerge {A} (d0 d : dict A) : dict A := fold_left (fun acc kv => dset (fst kv) (snd kv) acc) d d0.
Definition merge_section (secs : dict section) (p : text * section) : dict section :=
  match assoc (fst p) secs with
  | Some d0 => dset (fst p) (dmerge d0 (snd p)) secs
  | None => secs ++ [p]
  end.
Definition cfg_merge (c fc : cfg) : cfg :=
  {| c_defaults := dmerge (c_defaults c) (c_defaults fc);
     c_sections := fold_left merge_section (c_sections fc) (c_sections c) |}.

(** parser.read_file(f) on top of the state c.  _read stores every option directly into the live parser; it
    looks at the live state only to decide whether a header opens an existing section or creates one, its
    duplicate detection (elements_added) is per file, and an error aborts the whole read.  The model therefore
    parses the file by itself and merges the result: same sections, same keys in the same positions. *)
Definition read_text (c : cfg) (s : text) : result cfg :=
  bind (parse_text s) (fun fc => OK (cfg_merge c fc)).

(** parser.read([f1, f2, ...]); None = the file does not exist (skipped) *)
Fixpoint read_files (c : cfg) (fs : list (option text)) : result cfg :=
  match fs with
  | [] => OK c
  | None :: r => read_files c r
  | Some s :: r => bind (read_text c s) (fun c' => read_files c' r)
  end.

(* ------------------------------------------------------------------ RawConfigParser.write *)
Fixpoint replace_nl (s : text) : text :=       (* str(value).replace("\n", "\n\t") *)
  match s with
  | [] => []
  | c :: r => if c =? 10 then 10 :: 9 :: replace_nl r else c :: replace_nl r
  end.
Definition write_item (kv : text * text) : text := fst kv ++ [32; 61; 32] ++ replace_nl (snd kv) ++ [10].
Definition write_section (name : text) (d : section) : text :=
  [91] ++ name ++ [93; 10] ++ List.concat (map write_item d) ++ [10].
Definition cfg_write (c : cfg) : text :=
  (if is_nil (c_defaults c) then [] else write_section DEFAULTSECT (c_defaults c))
  ++ List.concat (map (fun p => write_section (fst p) (snd p)) (c_sections c)).

(* ------------------------------------------------------------------ typed getters *)
(** `section in cfg` *)
Definition cfg_has (c : cfg) (s : text) : bool := text_eqb s DEFAULTSECT || has_key s (c_sections c).

(** list(cfg[section]): the section's own keys, then the [DEFAULT] keys it does not override *)
Definition options (c : cfg) (s : text) : result (list text) :=
  match assoc s (c_sections c) with
  | Some d => OK (map fst d ++ filter (fun k => negb (has_key k d)) (map fst (c_defaults c)))
  | None => if text_eqb s DEFAULTSECT then OK (map fst (c_defaults c)) else Err Crash
  end.

(** parser.get(section, option, raw) without interpolation: the section's dict, then [DEFAULT] *)
Definition cfg_get (c : cfg) (s k : text) : option text :=
  match assoc s (c_sections c) with
  | Some d => match assoc k d with Some v => Some v | None => assoc k (c_defaults c) end
  | None => if text_eqb s DEFAULTSECT then assoc k (c_defaults c) else None
  end.

(** convert_list *)
Definition convert_list (s : text) : list text := map strip (split_on 44 s).

(** int(text): surrounding whitespace, a sign, ASCII digits with single underscores between digits *)
Fixpoint strip_underscores (prev_digit : bool) (s : text) : option text :=
  match s with
  | [] => if prev_digit then Some [] else None
  | c :: r => if c =? 95 then (if prev_digit then match r with [] => None | _ => strip_underscores false r end else None)
              else if is_digit c then match strip_underscores true r with Some t => Some (c :: t) | None => None end
              else None
  end.
Definition py_int (s : text) : result Z :=
  let t := strip s in
  let '(neg, body) := match t with
                      | 45 :: r => (true, r)
                      | 43 :: r => (false, r)
                      | _ => (false, t)
                      end in
  match strip_underscores false body with
  | None => Err Reject
  | Some ds =>
    if 4300 <? N.of_nat (List.length ds) then Err Reject              (* sys.int_info.default_max_str_digits *)
    else match N_of_dec ds with
         | Some n => OK (if neg then (- Z.of_N n)%Z else Z.of_N n)
         | None => Err Reject
         end
  end.

(** RawConfigParser._convert_to_boolean *)
Definition py_bool (s : text) : result bool :=
  match assoc (lower s) og_bool_states with Some b => OK b | None => Err Reject end.

Definition typed (ty : oty) (raw : text) : result pyval :=
  match ty with
  | TStr => OK (PStr raw)
  | TInt => rmap PInt (py_int raw)
  | TBool => rmap PBool (py_bool raw)
  | TList => OK (PList (convert_list raw))
  end.

Fixpoint read_opts (c : cfg) (s : text) (opts : list text) : result amap :=
  match opts with
  | [] => OK []
  | o :: r =>
    match assoc o og_configurable with
    | None => read_opts c s r
    | Some ty =>
      match cfg_get c s o with
      | None => Err Crash
      | Some raw => bind (typed ty raw) (fun v => bind (read_opts c s r) (fun m => OK ((o, v) :: m)))
      end
    end
  end.

(** read_config(cfg, section) *)
Definition read_config (c : cfg) (s : text) : result amap :=
  if negb (cfg_has c s) then OK []
  else bind (options c s) (fun opts => read_opts c s opts).

(* ------------------------------------------------------------------ merge_config *)
Record ohrec := { oh_url : option text; oh_org : option text; oh_fid : option text; oh_brokerid : option text }.
Definition oh_field (r : ohrec) (i : N) : option text :=
  match i with 0 => oh_url r | 1 => oh_org r | 2 => oh_fid r | _ => oh_brokerid r end.
Definition opt2py (o : option text) : pyval := match o with Some s => PStr s | None => PNone end.
Definition ofxhome_map (r : ohrec) : amap := map (fun p => (fst p, opt2py (oh_field r (snd p)))) og_ofxhome_keys.

(** list.insert(-1, x) *)
Fixpoint insert_before_last {A} (x : A) (l : list A) : list A :=
  match l with
  | [] => [x]
  | [y] => [x; y]
  | y :: r => y :: insert_before_last x r
  end.

(** merge_from_ofxhome *)
Definition merge_from_ofxhome (lookup : text -> option ohrec) (a : args) : result args :=
  match args_get a (T "ofxhome") with
  | None => Err Crash
  | Some id =>
    if py_truthy id then
      match id with
      | PStr s => match lookup s with
                  | Some r => OK (insert_before_last (ofxhome_map r) a)
                  | None => OK a
                  end
      | _ => Err Crash
      end
    else OK a
  end.

Definition is_alpha_ascii (c : N) : bool := ((65 <=? c) && (c <=? 90)) || ((97 <=? c) && (c <=? 122)).
Definition is_scheme_char (c : N) : bool :=
  is_alpha_ascii c || is_digit c || (c =? 43) || (c =? 45) || (c =? 46).
Fixpoint lstrip_c0 (s : text) : text :=            (* url.lstrip(_WHATWG_C0_CONTROL_OR_SPACE) *)
  match s with
  | [] => []
  | c :: r => if c <=? 32 then lstrip_c0 r else s
  end.
(** bool(urllib.parse.urlparse(s).scheme) *)
Definition has_scheme (s : text) : bool :=
  let s1 := filter (fun c => negb ((c =? 9) || (c =? 10) || (c =? 13))) (lstrip_c0 s) in
  match break_at (fun c => c =? 58) s1 with
  | Some (c :: pre, _, _) => is_alpha_ascii c && forallb is_scheme_char pre
  | _ => false
  end.

Definition get_or (a : args) (k : text) (d : pyval) : pyval :=
  match args_get a k with Some v => v | None => d end.

(** merge_config(args, config); [cli] = extractns(args) *)
Definition merge_config (lookup : text -> option ohrec) (cli : amap) (c : cfg) : result args :=
  bind (match assoc (T "server") cli with
        | Some (PStr s) => read_config c s
        | Some _ => Err Crash
        | None => OK []
        end) (fun user_cfg =>
  let merged := [cli; user_cfg; og_defaults] in
  match args_get merged (T "url") with
  | None => Err Crash
  | Some url =>
    bind (if has_key (T "ofxhome") cli || has_key (T "ofxhome") user_cfg || negb (py_truthy url)
          then merge_from_ofxhome lookup merged else OK merged) (fun merged =>
    if py_truthy (get_or merged (T "url") PNone)
       || py_truthy (get_or merged (T "dryrun") (PBool false))
       || py_eq (get_or merged (T "request") PNone) (PStr (T "list"))
    then OK merged
    else
      match assoc (T "server") cli with
      | None => Err Crash                                                  (* help text, sys.exit() *)
      | Some (PStr server) =>
        if has_scheme server then
          match merged with
          | m0 :: rest => OK (dset (T "server") PNone (dset (T "url") (PStr server) m0) :: rest)
          | [] => Err Crash
          end
        else Err Reject                                                    (* ValueError: Missing URL *)
      | Some _ => Err Crash
      end)
  end).

(* ------------------------------------------------------------------ write_config *)
Definition hex_digit (n : N) : N := if n <? 10 then 48 + n else 87 + n.
Definition nonprintable_low (c : N) : bool :=
  (c <? 32) || ((127 <=? c) && (c <=? 160)) || (c =? 173).
(** repr(str) *)
Definition repr_char (q c : N) : text :=
  if (c =? q) || (c =? 92) then [92; c]
  else if c =? 9 then [92; 116] else if c =? 10 then [92; 110] else if c =? 13 then [92; 114]
  else if nonprintable_low c then [92; 120; hex_digit (c / 16); hex_digit (c mod 16)]
  else [c].
Definition repr_str (s : text) : text :=
  let q := if existsb (N.eqb 39) s && negb (existsb (N.eqb 34) s) then 34 else 39 in
  [q] ++ List.concat (map (repr_char q) s) ++ [q].
(** str.strip("[]") *)
Definition is_bracket (c : N) : bool := (c =? 91) || (c =? 93).
Fixpoint lstrip_b (s : text) : text :=
  match s with [] => [] | c :: r => if is_bracket c then lstrip_b r else s end.
Fixpoint rstrip_b (s : text) : text :=
  match s with
  | [] => []
  | c :: r => match rstrip_b r with
              | [] => if is_bracket c then [] else [c]
              | r' => c :: r'
              end
  end.
(** write_list: str(value).strip("[]").replace("'", "") *)
Definition write_list (l : list text) : text :=
  filter (fun c => negb (c =? 39))
         (rstrip_b (lstrip_b ([91] ++ join [44; 32] (map repr_str l) ++ [93]))).

Definition str_of_Z (z : Z) : text :=
  match z with
  | Z0 => [48]
  | Zpos p => dec_of_N (Npos p)
  | Zneg p => 45 :: dec_of_N (Npos p)
  end.

(** arg2config(key, cfg_type, value), then SectionProxy.__setitem__'s check that the value is a str.
    Values whose dynamic type is not the option's type cannot come out of merge_config when the
    command line is typed by argparse; the model answers Crash there. *)
Definition arg2config (ty : oty) (v : pyval) : result text :=
  match ty, v with
  | TStr, PStr s => OK s
  | TInt, PInt z => OK (str_of_Z z)
  | TBool, PBool b => OK (if b then T "true" else T "false")
  | TList, PList l => OK (write_list l)
  | _, _ => Err Crash
  end.

(** test_cfg_val(opt, value) inside mk_server_cfg; [dflt_uid] = defaults["clientuid"] *)
Definition test_cfg_val (dflt_uid : option text) (lib_cfg : amap) (opt : text) (v : pyval) : result bool :=
  if existsb (py_eq v) og_null_args then OK false
  else if text_eqb opt (T "clientuid") then
    match dflt_uid with
    | None => Err Crash                                                    (* KeyError *)
    | Some u => if py_eq v (PStr u) then OK false
                else match assoc opt lib_cfg, assoc opt og_defaults with
                     | Some d, _ | None, Some d => OK (negb (py_eq v d))
                     | None, None => Err Crash
                     end
    end
  else match assoc opt lib_cfg, assoc opt og_defaults with
       | Some d, _ | None, Some d => OK (negb (py_eq v d))
       | None, None => Err Crash
       end.

(** the loop `for opt, opt_type in CONFIGURABLE.items()` of mk_server_cfg; the section written to is
    [server] (or [DEFAULT] itself when the nickname is "DEFAULT") *)
Fixpoint cfg_loop (a : args) (lib_cfg : amap) (server : text) (c : cfg) (opts : dict oty) : result cfg :=
  match opts with
  | [] => OK c
  | (o, ty) :: r =>
    match args_get a o with
    | None => cfg_loop a lib_cfg server c r
    | Some v =>
      bind (test_cfg_val (assoc (T "clientuid") (c_defaults c)) lib_cfg o v) (fun w =>
      if w then bind (arg2config ty v) (fun s => cfg_loop a lib_cfg server (sect_set_opt c server o s) r)
      else cfg_loop a lib_cfg server c r)
    end
  end.

(** mk_server_cfg(args): the new in-memory user configuration.
    [mem_defaults]: USERCFG's [DEFAULT] entries at the time of the call (clear() leaves them);
    [user]: text of ofxget.cfg (None: no such file); [lib]: LIBCFG; [uuid]: OFXClient.uuid *)
Definition mk_server_cfg (uuid : text) (a : args) (mem_defaults : section) (user : option text) (lib : cfg) : result cfg :=
  bind (read_files {| c_defaults := mem_defaults; c_sections := [] |} [user]) (fun c1 =>
  let c2 := if has_key (T "clientuid") (c_defaults c1) then c1
            else {| c_defaults := dset (T "clientuid") uuid (c_defaults c1); c_sections := c_sections c1 |} in
  let server := get_or a (T "server") PNone in
  match args_get a (T "url") with
  | None => Err Crash
  | Some url =>
    if negb (py_truthy server) || py_eq server url then Err Reject        (* ValueError: no server nickname *)
    else
      match server with
      | PStr s =>
        let c3 := if has_key s (c_sections c2) then c2
                  else if text_eqb s DEFAULTSECT then {| c_defaults := []; c_sections := c_sections c2 |}
                  else {| c_defaults := c_defaults c2; c_sections := c_sections c2 ++ [(s, [])] |} in
        bind (read_config lib s) (fun lib_cfg => cfg_loop a lib_cfg s c3 og_configurable)
      | _ => Err Crash
      end
  end).

(** write_config(args): None = the file is left alone (dry run), Some t = ofxget.cfg now reads t *)
Definition write_config (uuid : text) (a : args) (mem_defaults : section) (user : option text) (lib : cfg)
  : result (option text) :=
  match args_get a (T "dryrun") with
  | None => Err Crash
  | Some d =>
    if py_truthy d then OK None
    else bind (mk_server_cfg uuid a mem_defaults user lib) (fun c => OK (Some (cfg_write c)))
  end.

(* ------------------------------------------------------------------ one run of ofxget *)
(** module import (USERCFG.read([fi.cfg, ofxget.cfg]); LIBCFG.read(fi.cfg)), merge_config, and -- when the
    merged "write" is set -- the handler's write_config.  Result: the merged args and the new file. *)
Definition run_ofxget (lookup : text -> option ohrec) (uuid : text) (fi : text) (user : option text) (cli : amap)
  : result (args * result (option text)) :=
  bind (read_files empty_cfg [Some fi; user]) (fun ucfg =>
  bind (read_files empty_cfg [Some fi]) (fun lib =>
  bind (merge_config lookup cli ucfg) (fun a =>
  if py_truthy (get_or a (T "write") PNone)
  then OK (a, write_config uuid a (c_defaults ucfg) user lib)
  else OK (a, OK None)))).
