(** Case format of the Lookup correspondence run (C16).  One case = one real instance (encoded as in Model/ConvertCases.v,
    scalars as opaque handles) + the attribute names asked of it + what the IMPLEMENTATION answered for each.  An aggregate the
    implementation returned is given by the PATH at which the harness found that very object (identity) inside the instance
    (EAt), or literally (EInst) when it is not part of it.  Errors are compared strictly: AttributeError = Err Reject,
    anything else = Err Crash. *)
From OfxV Require Import Base.Prelude Model.Schema Model.Convert Model.ConvertCases Model.Shortcuts Model.Lookup Model.LookupWalk.
Local Open Scope string_scope.

Inductive pstep := PF (k : string) | PM (n : nat).
Fixpoint at_steps (i : hinst) (p : list pstep) {struct p} : option hinst :=
  match p with
  | [] => Some i
  | PF k :: t => match assoc k (ifields hval i) with Some (FSub _ j) => at_steps j t | _ => None end
  | PM n :: t => match nth_error (imembers hval i) n with Some (MAgg _ j) => at_steps j t | _ => None end
  end.

Inductive eobj := ENone | EVal (h : N) | EStr (s : text) | EAt (p : list pstep) | EInst (i : hinst) | EList (l : list eobj) | EOther.

(** names: handle of the str value equal to a class name (curtype returns cur.__class__.__name__) *)
Fixpoint obj_matches (names : list (string * N)) (root : hinst) (m : pyobj hval) (e : eobj) {struct m} : bool :=
  match m, e with
  | PNone _, ENone => true
  | PVal _ v, EVal h => N.eqb v h
  | PName _ s, EVal h => match assoc s names with Some h' => N.eqb h h' | None => false end
  | PStr _ s, EStr s' => text_eqb s s'
  | PInst _ i, EAt p => match at_steps root p with Some j => inst_eqb i j | None => false end
  | PInst _ i, EInst j => inst_eqb i j
  | PClassAttr _, EOther => true
  | PList _ l, EList l' =>
    (fix go (a : list (pyobj hval)) (b : list eobj) {struct a} : bool :=
       match a, b with
       | [], [] => true
       | x :: a', y :: b' => obj_matches names root x y && go a' b'
       | _, _ => false
       end) l l'
  | _, _ => false
  end.

Definition res_matches (names : list (string * N)) (root : hinst) (m : result (pyobj hval)) (e : result eobj) : bool :=
  match m, e with
  | OK x, OK y => obj_matches names root x y
  | Err j, Err k => errkind_eqb j k
  | _, _ => false
  end.

(** populated = built by the constructor (as opposed to the blank instance cls.__new__(cls)) *)
Inductive lcase := LCase (populated : bool) (i : hinst) (names : list (string * N)) (qs : list (string * result eobj)).

(** the side conditions of the path-walk theorems hold of a constructor-built instance of a class carrying such a shortcut *)
Definition walk_hyps_ok (S : schema) (tb : ltab) (i : hinst) : bool :=
  let cn := icls hval i in
  forallb (fun n => match class_attr tb cn n with
                    | Some (KShortcut (SCWrapped _ _ _)) => wrapped_ok_b hval S tb n i
                    | Some (KShortcut (SCConcat _ _)) => concat_ok_b hval S tb n i
                    | Some (KShortcut (SCTruthyVia _ _)) => truthy_ok_b hval S tb n i
                    | _ => true
                    end) ["statements"; "securities"].

(** every query answered alike, and the instance is in the domain of the theorems *)
Definition lcase_ok (fx : bool) (S : schema) (tb : ltab) (c : lcase) : bool :=
  match c with
  | LCase pop i names qs =>
    lk_wf_b hval S i
    && (if pop then walk_hyps_ok S tb i else true)
    && forallb (fun q => res_matches names i (getattr_m hval fx S tb i (fst q)) (snd q)) qs
  end.
