(** C17, engine Dispatch: the one piece of shared mutable state behind parsing, converting
    and writing - the [functools.singledispatch] machinery of [DateTime.unconvert].

    Python transcribed:
    - /repo/ofxtools/Types.py, class DateTime (556-650): [unconvert] is a [singledispatchmethod]
      whose import-time registry is  object -> unconvert (raises TypeError),
      datetime.datetime -> _unconvert_datetime, NoneType -> _unconvert_none;
      [normalize_to_gmt] (613-616) executes
        self.unconvert.register(datetime.datetime, self._unconvert_datetime)
      on EVERY string conversion that gets as far as normalising (the argument is a BOUND method
      of whichever DateTime instance is converting).  Class Time (690-745) defines its own
      [convert]/[unconvert] dispatchers and its own [normalize_to_gmt] that does not register:
      operations on Time instances touch disjoint state ([TimeOp] below).
    - CPython 3.12 Lib/functools.py, [singledispatch] (800-918):
        registry = {}; dispatch_cache = WeakKeyDictionary()
        register(cls, func):  registry[cls] = func; dispatch_cache.clear()      (two writes)
        dispatch(cls): try impl = dispatch_cache[cls]                            (read)
                       except KeyError: try impl = registry[cls]
                                        except KeyError: impl = _find_impl(cls, registry)   (read, MRO walk)
                                        dispatch_cache[cls] = impl               (write)
                       return impl
      [_find_impl] (774-798) with no ABC among the keys: first class of cls.__mro__ that is a key,
      then registry.get(match) (None when nothing matches: [NoImpl] below);
      [singledispatchmethod.__get__] (943-951):
        method = self.dispatcher.dispatch(args[0].__class__); return method.__get__(obj, cls)(value)
      For a plain function [__get__] binds the CALLING instance.  For a bound method the answer depends on
      the interpreter: before CPython 3.11 the method type had its own __get__ returning the method unchanged
      (the handler then runs with the instance that REGISTERED it); on CPython 3.11+ (3.12.1 here) method objects
      have no __get__ of their own, the attribute lookup [method.__get__] is forwarded to the underlying function
      and binds the CALLING instance again.  Both behaviours are modelled: parameter [rebinds], measured by the
      harness on every run (Gen/DispatchGen.v [method_get_rebinds]) and exercised by the correspondence run.

    What [_unconvert_datetime] computes from (self, value) is a parameter [fmt] of the semantics
    (the date-time formatting itself is the subject of C09/C11); the hypothesis the theorems need -
    [rebinds = true] or its result does not depend on [self] (the code reads self.__type__ only to build
    an error message) - is explicit in every statement and is measured by the correspondence run.
    The [convert] dispatcher is never registered on after import and is not modelled.
    Definitions only. *)
From OfxV Require Import Base.Prelude.
Local Open Scope N_scope.

(** classes that reach [unconvert] in the correspondence run; [TOther] is any class whose MRO is [cls; object] *)
Inductive ty := TObject | TDate | TDatetime | TDatetimeSub | TNone | TStr | TOther.

Definition ty_code (t : ty) : N :=
  match t with TObject => 0 | TDate => 1 | TDatetime => 2 | TDatetimeSub => 3 | TNone => 4 | TStr => 5 | TOther => 6 end.
Definition ty_eqb (a b : ty) : bool := ty_code a =? ty_code b.

(** cls.__mro__ (datetime.datetime derives from datetime.date) *)
Definition mro (t : ty) : list ty :=
  match t with
  | TObject => [TObject]
  | TDate => [TDate; TObject]
  | TDatetime => [TDatetime; TDate; TObject]
  | TDatetimeSub => [TDatetimeSub; TDatetime; TDate; TObject]
  | TNone => [TNone; TObject]
  | TStr => [TStr; TObject]
  | TOther => [TOther; TObject]
  end.

(** a DateTime converter instance: identity and its [required] flag *)
Record inst := Inst { iid : N; ireq : bool }.

(** values stored in the registry / cache *)
Inductive handler :=
| Default                                (* DateTime.unconvert: the function registered for object *)
| UnconvDatetime (bound : option inst)   (* _unconvert_datetime: the plain function (None) or a method bound to an instance *)
| UnconvNone                             (* _unconvert_none, plain function *)
| NoImpl.                                (* the value None that registry.get(None) yields when no class of the MRO is a key *)

(** a Python value handed to unconvert: its class and an identifier (index in the harness's value pool) *)
Record pyval := PV { vty : ty; vid : N }.
Definition is_none (v : pyval) : bool := ty_eqb (vty v) TNone.

(** what unconvert returns: a str, or (through enforce_required) the very value it was given *)
Inductive outv := OText (s : text) | OVal (v : pyval).

Record state := St { registry : list (ty * handler); cache : list (ty * handler) }.

(** state after [import ofxtools.Types] *)
Definition init_state : state :=
  St [(TObject, Default); (TDatetime, UnconvDatetime None); (TNone, UnconvNone)] [].

(** dict read: d[k] / KeyError *)
Fixpoint lookup (t : ty) (l : list (ty * handler)) : option handler :=
  match l with
  | [] => None
  | (k, h) :: r => if ty_eqb t k then Some h else lookup t r
  end.

(** dict write d[k] = h: an existing key keeps its position, a new key goes last *)
Fixpoint set (t : ty) (h : handler) (l : list (ty * handler)) : list (ty * handler) :=
  match l with
  | [] => [(t, h)]
  | (k, x) :: r => if ty_eqb t k then (k, h) :: r else (k, x) :: set t h r
  end.

(** the two writes of [register] *)
Definition reg_set (st : state) (t : ty) (h : handler) : state := St (set t h (registry st)) (cache st).
Definition cache_clear (st : state) : state := St (registry st) [].
Definition register (st : state) (t : ty) (h : handler) : state := cache_clear (reg_set st t h).

(** _find_impl: first class of the MRO that is a key; registry.get(None) = None otherwise *)
Fixpoint find_impl (reg : list (ty * handler)) (m : list ty) : handler :=
  match m with
  | [] => NoImpl
  | t :: r => match lookup t reg with Some h => h | None => find_impl reg r end
  end.
(** registry[cls], on KeyError _find_impl(cls, registry) *)
Definition search (reg : list (ty * handler)) (t : ty) : handler :=
  match lookup t reg with Some h => h | None => find_impl reg (mro t) end.
Definition cache_store (st : state) (t : ty) (h : handler) : state := St (registry st) (set t h (cache st)).

(** [dispatch(cls)] run without interruption: the handler and the state it leaves *)
Definition dispatch (st : state) (t : ty) : handler * state :=
  match lookup t (cache st) with
  | Some h => (h, st)
  | None => let h := search (registry st) t in (h, cache_store st t h)
  end.

(** [method.__get__(obj, cls)(value)]: plain functions run with the calling instance as self, a bound
    method with its own unless the interpreter rebinds it; [fmt self value] is what _unconvert_datetime computes *)
Definition sem (rebinds : bool) (fmt : inst -> pyval -> result text) (h : handler) (caller : inst) (v : pyval) : result outv :=
  match h with
  | Default => Err Reject                                     (* TypeError *)
  | UnconvDatetime b => rmap OText (fmt (match b with Some i => if rebinds then caller else i | None => caller end) v)
  | UnconvNone => if is_none v && ireq caller then Err Reject (* OFXSpecError *) else OK (OVal v)
  | NoImpl => Err Crash                                       (* None has no usable __get__ result to call *)
  end.

(** operations of a workload.  [ConvertStr i reaches]: instance i converts a string; [reaches] says whether
    the conversion gets as far as normalize_to_gmt (a string the regex or the datetime constructor refuses
    raises earlier and registers nothing).  [TimeOp]: any operation on a Time instance. *)
Inductive op :=
| ConvertStr (i : inst) (reaches : bool)
| Unconvert (c : inst) (v : pyval)
| TimeOp.

(** [rereg]: does normalize_to_gmt contain the register line (regenerated from the source: Gen/DispatchGen.v) *)
Definition run_op (rereg rebinds : bool) (fmt : inst -> pyval -> result text) (st : state) (o : op)
  : state * option (result outv) :=
  match o with
  | ConvertStr i reaches =>
      if rereg && reaches then (register st TDatetime (UnconvDatetime (Some i)), None) else (st, None)
  | Unconvert c v => let (h, st') := dispatch st (vty v) in (st', Some (sem rebinds fmt h c v))
  | TimeOp => (st, None)
  end.

(** a history run sequentially: final state and the outcomes of its unconvert calls, in order *)
Fixpoint run_ops (rereg rebinds : bool) (fmt : inst -> pyval -> result text) (st : state) (ops : list op)
  : state * list (result outv) :=
  match ops with
  | [] => (st, [])
  | o :: r =>
      let (st1, out) := run_op rereg rebinds fmt st o in
      let (st2, outs) := run_ops rereg rebinds fmt st1 r in
      (st2, match out with Some x => x :: outs | None => outs end)
  end.

(** the stateless specification: what an unconvert call answers as a function of its own arguments only *)
Definition spec_unconvert (fmt : inst -> pyval -> result text) (c : inst) (v : pyval) : result outv :=
  match vty v with
  | TDatetime | TDatetimeSub => rmap OText (fmt c v)
  | TNone => if ireq c then Err Reject else OK (OVal v)
  | _ => Err Reject
  end.
Fixpoint spec_outcomes (fmt : inst -> pyval -> result text) (ops : list op) : list (result outv) :=
  match ops with
  | [] => []
  | Unconvert c v :: r => spec_unconvert fmt c v :: spec_outcomes fmt r
  | _ :: r => spec_outcomes fmt r
  end.

(** ---- interleaving semantics: every read/write of the shared dictionaries is one atomic step ---- *)
Inductive tpc :=
| PIdle                                           (* between operations *)
| PRegClear                                       (* registry[cls] = func done, dispatch_cache.clear() pending *)
| PMiss (c : inst) (v : pyval)                    (* dispatch_cache[cls] raised KeyError *)
| PFound (c : inst) (v : pyval) (h : handler)     (* impl found in the registry, dispatch_cache[cls] = impl pending *)
| PHave (c : inst) (v : pyval) (h : handler).     (* dispatch returned impl, the call is pending *)

(** a completed unconvert: caller, value, the handler dispatch returned, what calling it gave *)
Record completed := Done { d_caller : inst; d_val : pyval; d_handler : handler; d_out : result outv }.
Record thread := Th { pc : tpc; todo : list op; done : list completed }.
Definition new_thread (prog : list op) : thread := Th PIdle prog [].

(** one atomic step of one thread *)
Definition step (rereg rebinds : bool) (fmt : inst -> pyval -> result text) (st : state) (th : thread) : state * thread :=
  match pc th with
  | PIdle =>
      match todo th with
      | [] => (st, th)
      | ConvertStr i reaches :: r =>
          if rereg && reaches then (reg_set st TDatetime (UnconvDatetime (Some i)), Th PRegClear r (done th))
          else (st, Th PIdle r (done th))
      | Unconvert c v :: r =>
          match lookup (vty v) (cache st) with
          | Some h => (st, Th (PHave c v h) r (done th))
          | None => (st, Th (PMiss c v) r (done th))
          end
      | TimeOp :: r => (st, Th PIdle r (done th))
      end
  | PRegClear => (cache_clear st, Th PIdle (todo th) (done th))
  | PMiss c v => (st, Th (PFound c v (search (registry st) (vty v))) (todo th) (done th))
  | PFound c v h => (cache_store st (vty v) h, Th (PHave c v h) (todo th) (done th))
  | PHave c v h => (st, Th PIdle (todo th) (done th ++ [Done c v h (sem rebinds fmt h c v)])%list)
  end.

Fixpoint replace_nth {A} (k : nat) (x : A) (l : list A) : list A :=
  match l, k with
  | [], _ => []
  | _ :: r, O => x :: r
  | y :: r, S k' => y :: replace_nth k' x r
  end.

(** the scheduler picks thread [k] (an index that names no thread is a lost turn) *)
Definition sched_step (rereg rebinds : bool) (fmt : inst -> pyval -> result text)
           (cfg : state * list thread) (k : nat) : state * list thread :=
  match nth_error (snd cfg) k with
  | None => cfg
  | Some th => let (st', th') := step rereg rebinds fmt (fst cfg) th in (st', replace_nth k th' (snd cfg))
  end.
Definition run_schedule (rereg rebinds : bool) (fmt : inst -> pyval -> result text)
           (cfg : state * list thread) (sched : list nat) : state * list thread :=
  fold_left (sched_step rereg rebinds fmt) sched cfg.

Definition finished (th : thread) : bool :=
  match pc th, todo th with PIdle, [] => true | _, _ => false end.
