(** Small text helpers for the client engines (HttpClient, ProfileCache): reading an Accept header.  Definitions only. *)
From OfxV Require Import Base.Prelude.
Local Open Scope N_scope.

Fixpoint split_on (sep : N) (s cur : text) : list text :=
  match s with
  | [] => [rev cur]
  | c :: r => if c =? sep then rev cur :: split_on sep r [] else split_on sep r (c :: cur)
  end.
Fixpoint lstrip (s : text) : text := match s with 32 :: r => lstrip r | _ => s end.
Definition strip (s : text) : text := rev (lstrip (rev (lstrip s))).
(** "type/subtype" of one element of an Accept header (parameters after ';' dropped) *)
Definition media_range (s : text) : text := strip (hd [] (split_on 59 s [])).
(** RFC 7231 5.3.2, as far as needed: the header lists the type itself or the wildcard *)
Definition accept_admits (accept mime : text) : bool :=
  existsb (fun r => text_eqb r mime || text_eqb r (T "*/*")) (map media_range (split_on 44 accept [])).
