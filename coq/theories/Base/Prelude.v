(** Shared vocabulary of every model: text as code points, results, decidable
    equalities used by the correspondence case files.  Definitions only (plus
    trivial lemmas); no axioms. *)
From Coq Require Export List NArith ZArith Bool Ascii String Lia.
Export ListNotations.

(** Python [str] = list of Unicode code points; [bytes] = list of N < 256. *)
Definition text := list N.

Fixpoint text_of_string (s : string) : text :=
  match s with
  | EmptyString => []
  | String c r => N_of_ascii c :: text_of_string r
  end.
(** [T "abc"]: ASCII literal as text (each byte of the Coq string is one code point). *)
Notation T := text_of_string.

Inductive errkind := Reject | Crash.
Inductive result (A : Type) := OK (a : A) | Err (k : errkind).
Arguments OK {A} a.
Arguments Err {A} k.

Definition bind {A B} (r : result A) (f : A -> result B) : result B :=
  match r with OK a => f a | Err k => Err k end.
Definition rmap {A B} (f : A -> B) (r : result A) : result B :=
  match r with OK a => OK (f a) | Err k => Err k end.
Definition is_ok {A} (r : result A) : bool := match r with OK _ => true | Err _ => false end.

Fixpoint list_eqb {A} (eqb : A -> A -> bool) (a b : list A) : bool :=
  match a, b with
  | [], [] => true
  | x :: a', y :: b' => eqb x y && list_eqb eqb a' b'
  | _, _ => false
  end.
Definition text_eqb : text -> text -> bool := list_eqb N.eqb.
Definition option_eqb {A} (eqb : A -> A -> bool) (a b : option A) : bool :=
  match a, b with
  | Some x, Some y => eqb x y
  | None, None => true
  | _, _ => false
  end.
Definition pair_eqb {A B} (ea : A -> A -> bool) (eb : B -> B -> bool) (a b : A * B) : bool :=
  ea (fst a) (fst b) && eb (snd a) (snd b).
Definition errkind_eqb (a b : errkind) : bool :=
  match a, b with Reject, Reject | Crash, Crash => true | _, _ => false end.
(** equality of outcomes; [strict = false] merges Reject and Crash into "an error". *)
Definition result_eqb {A} (strict : bool) (eqb : A -> A -> bool) (a b : result A) : bool :=
  match a, b with
  | OK x, OK y => eqb x y
  | Err j, Err k => if strict then errkind_eqb j k else true
  | _, _ => false
  end.

(** indices (from 0) of the cases on which [ok] is false: what a case file prints. *)
Fixpoint bad_from {A} (ok : A -> bool) (i : nat) (l : list A) : list nat :=
  match l with
  | [] => []
  | x :: r => if ok x then bad_from ok (S i) r else i :: bad_from ok (S i) r
  end.
Definition bad_indices {A} (ok : A -> bool) (l : list A) : list nat := bad_from ok 0 l.

Lemma list_eqb_eq {A} (eqb : A -> A -> bool) :
  (forall x y, eqb x y = true <-> x = y) -> forall a b, list_eqb eqb a b = true <-> a = b.
Proof.
  intros H a. induction a as [|x a IH]; intros [|y b]; cbn [list_eqb]; try (split; [discriminate|discriminate]); [tauto|].
  rewrite andb_true_iff, H, IH. split; [intros [-> ->]; reflexivity | intros E; injection E; auto].
Qed.
Lemma text_eqb_eq a b : text_eqb a b = true <-> a = b.
Proof. apply list_eqb_eq. intros x y. apply N.eqb_eq. Qed.
