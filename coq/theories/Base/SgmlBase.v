(** Shared vocabulary of the engines [Sgml] (ofxtools/Parser.py) and [Serialize]
    (xml.etree html writer, ofxtools/utils.py): element trees, the whitespace class of
    [str.strip()] / [str.isspace()] / regex [\s], prefix and run scanners on [text].
    Definitions only. *)
From OfxV Require Import Base.Prelude.
Local Open Scope N_scope.

(** xml.etree element without attributes and without tail: tag, text, children.
    [txt = None] is Python [None]; parsed trees never carry [Some []]. *)
Inductive etree := Node (tag : text) (txt : option text) (ch : list etree).
Definition etag (e : etree) : text := match e with Node t _ _ => t end.
Definition etext (e : etree) : option text := match e with Node _ x _ => x end.
Definition echildren (e : etree) : list etree := match e with Node _ _ c => c end.

Fixpoint etree_eqb (a b : etree) {struct a} : bool :=
  match a, b with
  | Node t x ch, Node t' x' ch' =>
    text_eqb t t' && option_eqb text_eqb x x' &&
    (fix go (l : list etree) (l' : list etree) {struct l} : bool :=
       match l, l' with
       | [], [] => true
       | e :: r, e' :: r' => etree_eqb e e' && go r r'
       | _, _ => false
       end) ch ch'
  end.

(** The code points [c] with [chr(c).isspace()]; [str.strip()] and the regex class [\s] (str patterns)
    use the same predicate.  Tied to the running interpreter by the obligation
    [Gen.SgmlGen.py_isspace = space_points] (regenerated on every run). *)
Definition space_points : list N :=
  [9; 10; 11; 12; 13; 28; 29; 30; 31; 32; 133; 160; 5760; 8192; 8193; 8194; 8195; 8196; 8197; 8198;
   8199; 8200; 8201; 8202; 8232; 8233; 8239; 8287; 12288].
Definition is_space (c : N) : bool := existsb (N.eqb c) space_points.

Fixpoint take_while (p : N -> bool) (s : text) : text * text :=
  match s with
  | [] => ([], [])
  | c :: s' => if p c then let (a, b) := take_while p s' in (c :: a, b) else ([], s)
  end.
Fixpoint strip_prefix (p s : text) : option text :=
  match p, s with
  | [], _ => Some s
  | a :: p', b :: s' => if a =? b then strip_prefix p' s' else None
  | _ :: _, [] => None
  end.

(** [str.strip()] *)
Definition lstrip (s : text) : text := snd (take_while is_space s).
Definition rstrip (s : text) : text := rev (lstrip (rev s)).
Definition strip (s : text) : text := rstrip (lstrip s).

Definition nonempty (s : text) : bool := match s with [] => false | _ :: _ => true end.

(** [s.replace(a, b)] for a single character [a] *)
Fixpoint replace1 (a : N) (b : text) (s : text) : text :=
  match s with
  | [] => []
  | c :: r => if c =? a then (b ++ replace1 a b r)%list else c :: replace1 a b r
  end.
