(** Helpers of the [Compose] engine (property C06): lexicographic comparison of texts (Python [str] "<="),
    the stable insertion sort standing for [sorted(..., key=...)] / [list.sort(key=...)], the consecutive
    grouping of [itertools.groupby], [str.replace], and their lemmas: the sort is a permutation, and for a
    key of finite rank the stable sort has the closed form "concatenation, in rank order, of the elements of
    each rank in their original order" (so permutation, sortedness and stability all follow), and
    [groupby] of such a concatenation of blocks yields exactly the non-empty blocks.  No axioms. *)
From OfxV Require Import Base.Prelude.
From Coq Require Import Permutation Arith.
Local Open Scope N_scope.

(** Python [a <= b] on [str]: lexicographic on code points, a proper prefix is smaller. *)
Fixpoint text_leb (a b : text) : bool :=
  match a, b with
  | [], _ => true
  | _ :: _, [] => false
  | x :: a', y :: b' => if x <? y then true else if y <? x then false else text_leb a' b'
  end.

Section Sort.
  Context {A : Type}.
  Variable leb : A -> A -> bool.
  (** [x] goes in front of the first element it is <= to: elements equal to [x] that were already there stay
      behind it, and [isort] inserts from the right, so equal elements keep their original order (stable),
      which is what CPython's [sorted] guarantees. *)
  Fixpoint insert (x : A) (l : list A) : list A :=
    match l with
    | [] => [x]
    | y :: r => if leb x y then x :: l else y :: insert x r
    end.
  Fixpoint isort (l : list A) : list A :=
    match l with
    | [] => []
    | x :: r => insert x (isort r)
    end.
End Sort.

Section Group.
  Context {A K : Type}.
  Variable keqb : K -> K -> bool.
  Variable key : A -> K.
  (** [itertools.groupby(l, key)]: maximal runs of consecutive elements with equal keys, as (key, run) pairs. *)
  Fixpoint groupby (l : list A) : list (K * list A) :=
    match l with
    | [] => []
    | x :: r =>
      match groupby r with
      | (k, g) :: gs => if keqb (key x) k then (k, x :: g) :: gs else (key x, [x]) :: (k, g) :: gs
      | [] => [(key x, [x])]
      end
    end.
End Group.

(** [s.startswith(p)] *)
Fixpoint prefixb (p s : text) : bool :=
  match p, s with
  | [], _ => true
  | _ :: _, [] => false
  | x :: p', y :: s' => (x =? y) && prefixb p' s'
  end.
(** [s.replace(pat, rep)] for a non-empty [pat]: leftmost non-overlapping occurrences; [skip] counts the
    characters of a matched occurrence still to be dropped (structural recursion, no fuel). *)
Fixpoint replace_go (pat rep : text) (skip : nat) (s : text) : text :=
  match s with
  | [] => []
  | c :: r =>
    match skip with
    | S k => replace_go pat rep k r
    | O => if prefixb pat s then (rep ++ replace_go pat rep (List.length pat - 1) r)%list
           else c :: replace_go pat rep 0 r
    end
  end.
Definition replace (pat rep s : text) : text := replace_go pat rep 0 s.

(** Shape of one attribute of an [Aggregate] subclass as the translator reads it from the live class
    ([cls.spec] in order): what the [Compose] model needs to know about a class it instantiates. *)
Inductive cattr :=
| CStr (len : option N) (strict req : bool)     (* Types.String / NagString *)
| CBool (req : bool)
| COneOf (valid : list text) (req : bool)
| CDate (req : bool)                            (* Types.DateTime *)
| CSub (target : text) (req : bool)             (* SubAggregate *)
| CListAgg (target : text)                      (* ListAggregate *)
| CListInt (len : option N)                     (* ListElement(Integer(len)) *)
| COther (req : bool)                           (* Integer / Decimal / Time: never set by the client *)
| CUnsupported.
Record cclass := { cc_name : text; cc_spec : list (text * cattr); cc_optmx : list (list text); cc_reqmx : list (list text);
                   cc_elementlist : bool }.

(* ------------------------------------------------------------------ lemmas *)

Lemma text_leb_refl a : text_leb a a = true.
Proof. induction a as [|x a IH]; cbn [text_leb]; [reflexivity|]. rewrite N.ltb_irrefl. exact IH. Qed.

(** a text without the first character of [pat] is left alone by [replace] *)
Lemma replace_absent pat rep c p s :
  pat = c :: p -> forallb (fun x => negb (x =? c)) s = true -> replace pat rep s = s.
Proof.
  intros -> H. unfold replace. induction s as [|y s IH]; [reflexivity|].
  cbn [forallb] in H. apply andb_true_iff in H. destruct H as [Hy Hs].
  cbn [replace_go prefixb]. rewrite N.eqb_sym. apply negb_true_iff in Hy. rewrite Hy. cbn [andb].
  f_equal. apply IH, Hs.
Qed.

Section SortLemmas.
  Context {A : Type}.
  Variable leb : A -> A -> bool.

  Lemma insert_perm x l : Permutation (x :: l) (insert leb x l).
  Proof.
    induction l as [|y r IH]; cbn [insert]; [apply Permutation_refl|].
    destruct (leb x y); [apply Permutation_refl|].
    eapply perm_trans; [apply perm_swap|]. apply perm_skip, IH.
  Qed.
  Lemma isort_perm l : Permutation l (isort leb l).
  Proof.
    induction l as [|x r IH]; cbn [isort]; [apply perm_nil|].
    eapply perm_trans; [apply perm_skip, IH|]. apply insert_perm.
  Qed.
  Lemma isort_length l : List.length (isort leb l) = List.length l.
  Proof. symmetry. apply Permutation_length, isort_perm. Qed.
End SortLemmas.

(** Sorting by a rank in [0, n): closed form. *)
Section Rank.
  Context {A : Type}.
  Variable rank : A -> nat.
  Definition rleb (a b : A) : bool := Nat.leb (rank a) (rank b).
  Definition of_rank (k : nat) (l : list A) : list A := filter (fun x => Nat.eqb (rank x) k) l.
  Definition by_ranks (ks : list nat) (l : list A) : list A := flat_map (fun k => of_rank k l) ks.

  (** inserting in front of a list none of whose elements is smaller *)
  Lemma insert_front x l : Forall (fun y => rank x <= rank y)%nat l -> insert rleb x l = x :: l.
  Proof.
    intros H. destruct l as [|y r]; [reflexivity|]. inversion H; subst. cbn [insert]. unfold rleb.
    destruct (Nat.leb_spec (rank x) (rank y)); [reflexivity|lia].
  Qed.
  (** inserting passes over strictly smaller elements *)
  Lemma insert_skip x l1 l2 :
    Forall (fun y => rank y < rank x)%nat l1 -> insert rleb x (l1 ++ l2) = (l1 ++ insert rleb x l2)%list.
  Proof.
    induction l1 as [|y r IH]; intros H; [reflexivity|]. inversion H; subst.
    cbn [app insert]. unfold rleb at 1. destruct (Nat.leb_spec (rank x) (rank y)); [lia|]. f_equal. apply IH. assumption.
  Qed.

  Lemma of_rank_rank k l : Forall (fun y => rank y = k) (of_rank k l).
  Proof. apply Forall_forall. intros y Hy. apply filter_In in Hy. destruct Hy as [_ E]. apply Nat.eqb_eq in E. exact E. Qed.
  Lemma by_ranks_seq_lt a n l x : (a + n <= rank x)%nat -> Forall (fun y => rank y < rank x)%nat (by_ranks (seq a n) l).
  Proof.
    intros H. apply Forall_forall. intros y Hy. unfold by_ranks in Hy. apply in_flat_map in Hy.
    destruct Hy as [k [Hk Hy]]. apply in_seq in Hk. pose proof (of_rank_rank k l) as F.
    rewrite Forall_forall in F. specialize (F y Hy). lia.
  Qed.
  Lemma by_ranks_seq_ge a n l x : (rank x <= a)%nat -> Forall (fun y => rank x <= rank y)%nat (by_ranks (seq a n) l).
  Proof.
    intros H. apply Forall_forall. intros y Hy. unfold by_ranks in Hy. apply in_flat_map in Hy.
    destruct Hy as [k [Hk Hy]]. apply in_seq in Hk. pose proof (of_rank_rank k l) as F.
    rewrite Forall_forall in F. specialize (F y Hy). lia.
  Qed.
  Lemma by_ranks_cons_other ks x l : ~ In (rank x) ks -> by_ranks ks (x :: l) = by_ranks ks l.
  Proof.
    induction ks as [|k ks IH]; intros H; [reflexivity|]. unfold by_ranks in *. cbn [flat_map].
    rewrite IH by (intros C; apply H; right; exact C). f_equal.
    unfold of_rank. cbn [filter]. destruct (Nat.eqb_spec (rank x) k) as [E|E]; [exfalso; apply H; left; auto|reflexivity].
  Qed.

  Lemma insert_by_ranks n x l : (rank x < n)%nat ->
    insert rleb x (by_ranks (seq 0 n) l) = by_ranks (seq 0 n) (x :: l).
  Proof.
    intros H. set (r := rank x).
    assert (Hseq : seq 0 n = (seq 0 r ++ r :: seq (S r) (n - S r))%list).
    { replace n with (r + S (n - S r))%nat at 1 by (unfold r; lia). rewrite seq_app. reflexivity. }
    rewrite Hseq. unfold by_ranks. rewrite !flat_map_app. cbn [flat_map].
    fold (by_ranks (seq 0 r) l) (by_ranks (seq 0 r) (x :: l)) (by_ranks (seq (S r) (n - S r)) l) (by_ranks (seq (S r) (n - S r)) (x :: l)).
    rewrite insert_skip by (apply by_ranks_seq_lt; unfold r; lia).
    rewrite (by_ranks_cons_other (seq 0 r)) by (intros C; apply in_seq in C; unfold r in C; lia).
    rewrite (by_ranks_cons_other (seq (S r) (n - S r))) by (intros C; apply in_seq in C; unfold r in C; lia).
    assert (E : of_rank r (x :: l) = x :: of_rank r l).
    { unfold of_rank. cbn [filter]. fold r. rewrite Nat.eqb_refl. reflexivity. }
    rewrite E. f_equal. cbn [app]. apply insert_front. apply Forall_app. split.
    - eapply Forall_impl; [|apply of_rank_rank]. intros y ->. fold r. lia.
    - apply by_ranks_seq_ge. fold r. lia.
  Qed.

  (** the stable sort by rank lists rank 0 first, then rank 1, ...; within a rank the original order *)
  Theorem isort_by_ranks n l : Forall (fun x => rank x < n)%nat l -> isort rleb l = by_ranks (seq 0 n) l.
  Proof.
    induction l as [|x r IH]; intros H.
    - cbn [isort]. unfold by_ranks. induction (seq 0 n); [reflexivity|]. cbn [flat_map]. assumption.
    - inversion H; subst. cbn [isort]. rewrite IH by assumption. apply insert_by_ranks. assumption.
  Qed.
End Rank.

(** a sort whose comparison agrees with a rank comparison is the sort by that rank *)
Lemma isort_ext {A} (f g : A -> A -> bool) l : (forall a b, f a b = g a b) -> isort f l = isort g l.
Proof.
  intros E. induction l as [|x r IH]; [reflexivity|]. cbn [isort]. rewrite IH.
  generalize (isort g r). intros m. induction m as [|y m IHm]; [reflexivity|]. cbn [insert]. rewrite E, IHm. reflexivity.
Qed.

(** [groupby] of a concatenation of blocks with pairwise distinct keys: the non-empty blocks *)
Section GroupLemmas.
  Context {A K : Type}.
  Variable keqb : K -> K -> bool.
  Variable key : A -> K.
  Hypothesis keqb_eq : forall a b, keqb a b = true <-> a = b.

  Definition block (kb : K * list A) : list (K * list A) :=
    match snd kb with [] => [] | _ :: _ => [kb] end.

  Lemma keqb_refl k : keqb k k = true.
  Proof. apply keqb_eq. reflexivity. Qed.

  Lemma groupby_block k b rest :
    Forall (fun x => key x = k) b -> b <> [] ->
    match groupby keqb key rest with (k', _) :: _ => k' <> k | [] => True end ->
    groupby keqb key (b ++ rest) = (k, b) :: groupby keqb key rest.
  Proof.
    intros Hb Hne Hr. induction b as [|x b IH]; [congruence|]. inversion Hb; subst. cbn [app groupby].
    destruct b as [|y b].
    - cbn [app]. destruct (groupby keqb key rest) as [|[k' g] gs]; [reflexivity|].
      destruct (keqb (key x) k') eqn:E; [apply keqb_eq in E; congruence|reflexivity].
    - rewrite IH by (assumption || discriminate). rewrite keqb_refl. reflexivity.
  Qed.

  Fixpoint blocks_of (kbs : list (K * list A)) : list A :=
    match kbs with [] => [] | kb :: r => (snd kb ++ blocks_of r)%list end.

  Lemma groupby_blocks kbs :
    NoDup (map fst kbs) -> Forall (fun kb => Forall (fun x => key x = fst kb) (snd kb)) kbs ->
    groupby keqb key (blocks_of kbs) = flat_map block kbs
    /\ Forall (fun kg => In (fst kg) (map fst kbs)) (flat_map block kbs).
  Proof.
    induction kbs as [|[k b] r IH]; intros ND HF; [split; [reflexivity|constructor]|].
    inversion ND; subst. inversion HF; subst. cbn [fst snd] in *.
    destruct (IH H2 H4) as [IH1 IH2]. cbn [blocks_of flat_map snd].
    unfold block at 1 3. cbn [snd]. destruct b as [|x b].
    - cbn [app]. split; [exact IH1|]. eapply Forall_impl; [|exact IH2]. intros kg Hk. right. exact Hk.
    - split.
      + rewrite groupby_block with (k := k); [rewrite IH1; reflexivity|assumption|discriminate|].
        rewrite IH1. destruct (flat_map block r) as [|[k' g] gs] eqn:E; [exact I|].
        inversion IH2; subst. cbn [fst] in *. intros ->. contradiction.
      + cbn [app]. constructor; [left; reflexivity|]. eapply Forall_impl; [|exact IH2]. intros kg Hk. right. exact Hk.
  Qed.
End GroupLemmas.
