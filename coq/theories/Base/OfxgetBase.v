(** Vocabulary shared by the two ofxget engines (OfxgetCfg: C18, OfxgetAccts: C19) and by the
    generated tables of Gen/OfxgetGen.v: Python values that cross ofxget's argument maps,
    option types, insertion-ordered dicts as association lists.  Definitions only. *)
From OfxV Require Import Base.Prelude.
Local Open Scope N_scope.

(** values found in argparse namespaces / DEFAULTS / typed configuration reads *)
Inductive pyval :=
| PNone
| PStr (s : text)
| PInt (z : Z)
| PBool (b : bool)
| PList (l : list text).

(** type(DEFAULTS[k]) for the CONFIGURABLE table *)
Inductive oty := TStr | TInt | TBool | TList.

(** a Python dict with str keys, in insertion order *)
Definition dict (A : Type) := list (text * A).
Definition amap := dict pyval.

Fixpoint assoc {A} (k : text) (m : dict A) : option A :=
  match m with
  | [] => None
  | (k', v) :: r => if text_eqb k k' then Some v else assoc k r
  end.

Definition has_key {A} (k : text) (m : dict A) : bool :=
  match assoc k m with Some _ => true | None => false end.

(** d[k] = v : an existing key keeps its position, a new key goes last *)
Fixpoint dset {A} (k : text) (v : A) (m : dict A) : dict A :=
  match m with
  | [] => [(k, v)]
  | (k', v') :: r => if text_eqb k k' then (k', v) :: r else (k', v') :: dset k v r
  end.

Definition mem_text (k : text) (l : list text) : bool := existsb (text_eqb k) l.

(** structural equality (used to compare the model with the implementation: type-exact) *)
Definition pyval_eqb (a b : pyval) : bool :=
  match a, b with
  | PNone, PNone => true
  | PStr x, PStr y => text_eqb x y
  | PInt x, PInt y => Z.eqb x y
  | PBool x, PBool y => Bool.eqb x y
  | PList x, PList y => list_eqb text_eqb x y
  | _, _ => false
  end.

(** Python's [==] on these values: bool is an int (True == 1) *)
Definition py_eq (a b : pyval) : bool :=
  match a, b with
  | PBool x, PInt y | PInt y, PBool x => Z.eqb (if x then 1%Z else 0%Z) y
  | _, _ => pyval_eqb a b
  end.

(** truth value ([if x], [x or None], [not x]) *)
Definition py_truthy (v : pyval) : bool :=
  match v with
  | PNone => false
  | PStr [] => false
  | PStr _ => true
  | PInt z => negb (Z.eqb z 0)
  | PBool b => b
  | PList [] => false
  | PList _ => true
  end.

(** ChainMap: [maps] searched in order *)
Definition args := list amap.
Fixpoint args_get (a : args) (k : text) : option pyval :=
  match a with
  | [] => None
  | m :: r => match assoc k m with Some v => Some v | None => args_get r k end
  end.
