(** Decimal printing / parsing of naturals as text (Python [str(int)] / [int(str)] on
    ASCII digits), through the standard library's [N.to_uint] / [N.of_uint], whose
    inverse laws are proved in [DecimalN]. *)
From OfxV Require Import Base.Prelude.
From Coq Require Import Decimal DecimalN DecimalPos DecimalFacts.
Local Open Scope N_scope.

Definition is_digit (c : N) : bool := (48 <=? c) && (c <=? 57).

Fixpoint uint_to_text (u : Decimal.uint) : text :=
  match u with
  | Nil => []
  | D0 r => 48 :: uint_to_text r | D1 r => 49 :: uint_to_text r
  | D2 r => 50 :: uint_to_text r | D3 r => 51 :: uint_to_text r
  | D4 r => 52 :: uint_to_text r | D5 r => 53 :: uint_to_text r
  | D6 r => 54 :: uint_to_text r | D7 r => 55 :: uint_to_text r
  | D8 r => 56 :: uint_to_text r | D9 r => 57 :: uint_to_text r
  end.

Fixpoint text_to_uint (s : text) : option Decimal.uint :=
  match s with
  | [] => Some Nil
  | c :: r =>
    match text_to_uint r with
    | None => None
    | Some u =>
      if c =? 48 then Some (D0 u) else if c =? 49 then Some (D1 u)
      else if c =? 50 then Some (D2 u) else if c =? 51 then Some (D3 u)
      else if c =? 52 then Some (D4 u) else if c =? 53 then Some (D5 u)
      else if c =? 54 then Some (D6 u) else if c =? 55 then Some (D7 u)
      else if c =? 56 then Some (D8 u) else if c =? 57 then Some (D9 u)
      else None
    end
  end.

(** Python [str(n)] for n >= 0. *)
Definition dec_of_N (n : N) : text := uint_to_text (N.to_uint n).
(** Python [int(s)] restricted to non-empty ASCII digit strings. *)
Definition N_of_dec (s : text) : option N :=
  match s with
  | [] => None
  | _ => match text_to_uint s with Some u => Some (N.of_uint u) | None => None end
  end.

Definition digit_val (c : N) : N := c - 48.
(** sum of the digit characters of a text (non-digits count as written: c - 48, saturating) *)
Fixpoint digit_sum (s : text) : N :=
  match s with [] => 0 | c :: r => digit_val c + digit_sum r end.

Lemma text_to_uint_to_text u : text_to_uint (uint_to_text u) = Some u.
Proof. induction u as [|u IH|u IH|u IH|u IH|u IH|u IH|u IH|u IH|u IH|u IH]; cbn [uint_to_text text_to_uint]; [reflexivity|..]; rewrite IH; reflexivity. Qed.

Lemma uint_to_text_nil u : uint_to_text u = [] -> u = Nil.
Proof. destruct u; cbn; congruence. Qed.

Lemma N_of_dec_of_N n : N_of_dec (dec_of_N n) = Some n.
Proof.
  unfold N_of_dec, dec_of_N. rewrite text_to_uint_to_text.
  destruct (uint_to_text (N.to_uint n)) eqn:E.
  - apply uint_to_text_nil in E. exfalso.
    destruct n as [|p]; [discriminate E|]. cbn in E.
    exact (DecimalPos.Unsigned.to_uint_nonnil p E).
  - rewrite DecimalN.Unsigned.of_to. reflexivity.
Qed.

Lemma digit_sum_app a b : digit_sum (a ++ b) = digit_sum a + digit_sum b.
Proof.
  induction a as [|c a IH]; [reflexivity|].
  change (digit_sum ((c :: a) ++ b)) with (digit_val c + digit_sum (a ++ b)). rewrite IH. cbn [digit_sum]. lia.
Qed.

Lemma dec_of_N_all_digits_uint u : forallb is_digit (uint_to_text u) = true.
Proof. induction u; cbn [uint_to_text forallb]; try reflexivity; rewrite IHu; reflexivity. Qed.
Lemma dec_of_N_all_digits n : forallb is_digit (dec_of_N n) = true.
Proof. apply dec_of_N_all_digits_uint. Qed.

(** finite sweep, lifted: the digit sum of the decimal string of n < 100 is n/10 + n mod 10 *)
Definition small_digit_sum_ok (n : N) : bool := digit_sum (dec_of_N n) =? n / 10 + n mod 10.
Lemma small_digit_sum_sweep : forallb small_digit_sum_ok (map N.of_nat (seq 0 100)) = true.
Proof. vm_compute. reflexivity. Qed.
Lemma small_digit_sum n : n < 100 -> digit_sum (dec_of_N n) = n / 10 + n mod 10.
Proof.
  intro H. pose proof small_digit_sum_sweep as S. rewrite forallb_forall in S.
  apply N.eqb_eq. apply (S n). apply in_map_iff. exists (N.to_nat n). split; [lia|].
  apply in_seq. lia.
Qed.
