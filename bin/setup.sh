#!/bin/sh
# MANIFEST.setup_cmd: regenerate Gen/*.v from /repo, then a full .vo build of the whole development (offline).
cd "$(dirname "$0")/.." || exit 2
export PYTHONHASHSEED=0 PYTHONDONTWRITEBYTECODE=1
exec /venv/bin/python tools/ofxv/setup_all.py
