# Hand-written recogniser for OFXHeaderV1.regex (search semantics) vs re, incl. no-separator layouts
import re, itertools, random, sys
from ofxtools.header import OFXHeaderV1
RX=OFXHeaderV1.regex
def isspace(c): return c.isspace()
def isword(c): return c.isalnum() or c=="_"    # \w (unicode); model domain ASCII
FIELDS=[("OFXHEADER",lambda c:c.isdigit(),True),("DATA",lambda c:"A"<=c<="Z",True),("VERSION",lambda c:c.isdigit(),True),
        ("SECURITY",isword,True),("ENCODING",lambda c:("A"<=c<="Z") or c.isdigit() or c=="-",True),("CHARSET",lambda c:isword(c) or c=="-",True),
        ("COMPRESSION",lambda c:"A"<=c<="Z",False),("OLDFILEUID",lambda c:isword(c) or c=="-",True),("NEWFILEUID",lambda c:isword(c) or c=="-",True)]
def skipws(s,i):
    while i<len(s) and isspace(s[i]): i+=1
    return i
def match_from(s,i,k,vals):
    """try to match fields k.. at position i (after the \\s* that follows the previous value has NOT yet been consumed)."""
    if k==len(FIELDS): return (i,vals)
    name,cls,mandatory=FIELDS[k]
    def attempt(i):
        j=i
        if not s.startswith(name+":",j): return None
        j=skipws(s,j+len(name)+1)
        e=j
        while e<len(s) and cls(s[e]): e+=1
        # greedy value with backtracking: longest first
        last=(k==len(FIELDS)-1)
        for end in range(e,j,-1):
            if last: return (end,vals+[s[j:end]])
            r=match_from(s,skipws(s,end),k+1,vals+[s[j:end]])
            if r: return r
            # \s* between is greedy too but can only give back whitespace; next token starts with a letter so no ambiguity
        return None
    r=attempt(i)
    if r: return r
    if not mandatory: return match_from(s,i,k+1,vals+[None])
    return None
def search(s):
    for st in range(len(s)+1):
        r=match_from(s,skipws(s,st),0,[])
        if r: return (st,r[0],r[1])
    return None
def ref(s):
    m=RX.search(s)
    if not m: return None
    g=m.groupdict()
    return (m.start(),m.end(),[g[n] for n,_,_ in FIELDS])
R=random.Random(3)
vals={"OFXHEADER":["100","1"],"DATA":["OFXSGML","X"],"VERSION":["102","9999"],"SECURITY":["NONE","TYPE1","a_b"],"ENCODING":["USASCII","UTF-8"],"CHARSET":["1252","ISO-8859-1","NONE"],"COMPRESSION":["NONE"],"OLDFILEUID":["NONE","a-b_C","XNEWFILEUID","OLDFILEUID"],"NEWFILEUID":["NONE","Z9-","NEWFILEUID"]}
bad=0;cnt=0;none=0
for n in range(int(sys.argv[1])):
    parts=[]
    names=[f[0] for f in FIELDS]
    if R.random()<0.15: names.remove("COMPRESSION")
    if R.random()<0.1: names.pop(R.randrange(len(names)))
    if R.random()<0.1:
        i=R.randrange(len(names)-1); names[i],names[i+1]=names[i+1],names[i]
    sep=R.choice(["\r\n","\n","\r",""," ","  \n"])
    s=R.choice(["","\n\n","junk "])+sep.join(nm+":"+R.choice([""," "])+R.choice(vals[nm]) for nm in names)+R.choice(["","\n","<OFX>","\r\n\r\n<OFX>"])
    if R.random()<0.15:
        k=R.randrange(len(s)); s=s[:k]+R.choice([":","X"," ","9","-"])+s[k+R.randrange(2):]
    a=search(s); b=ref(s); cnt+=1; none+= b is None
    if a!=b:
        bad+=1
        if bad<8: print("DIFF",repr(s),a,b)
print("cases",cnt,"bad",bad,"nomatch",none)
