# Pure-integer prototype of DateTime/Time convert & unconvert; compare with implementation
import random, datetime, sys
from ofxtools import Types, utils
R=random.Random(5)
class Err(Exception): pass
DIM=[0,31,28,31,30,31,30,31,31,30,31,30,31]
def leap(y): return y%4==0 and (y%100!=0 or y%400==0)
def dim(y,m): return 29 if m==2 and leap(y) else DIM[m]
def ymd2ord(y,m,d):
    y1=y-1
    return y1*365+y1//4-y1//100+y1//400+sum(dim(y,k) for k in range(1,m))+d
def ord2ymd(n):
    n-=1; n400,n=divmod(n,146097); y=n400*400+1
    n100,n=divmod(n,36524); n4,n=divmod(n,1461); n1,n=divmod(n,365)
    y+=n100*100+n4*4+n1
    if n1==4 or n100==4: return (y-1,12,31)
    m=1
    while n>=dim(y,m): n-=dim(y,m); m+=1
    return (y,m,n+1)
MAXORD=ymd2ord(9999,12,31)
def isd(c): return c in "0123456789"   # ASCII-only domain
def fixed(s,i,w):
    if i+w>len(s) or not all(isd(c) for c in s[i:i+w]): return None
    return int(s[i:i+w])
TZS=utils.TZS
def parse_bracket(s):
    """s = remainder after seconds/millis; returns offset seconds"""
    if s=="": return 0
    if not (s[0]=="[" and s.endswith("]") and "\n" not in s): raise Err("nomatch")
    inner=s[1:-1]; i=0
    while i<len(inner) and inner[i] in "0123456789-+": i+=1
    if i==0: raise Err("nomatch")
    hours=inner[:i]; rest=inner[i:]; mins=None; tz=None
    if rest=="": pass
    elif len(rest)>=3 and isd(rest[1]) and isd(rest[2]) and (len(rest)==3 or rest[3]==":"):
        mins=rest[1:3]; tz=rest[4:] if len(rest)>3 else None
    elif rest[0]==":": tz=rest[1:]
    else: raise Err("nomatch")
    # int(hours): python int() of a string over [0-9+-]: optional single sign then digits
    def pyint(t):
        if t and t[0] in "+-": sg=-1 if t[0]=="-" else 1; t=t[1:]
        else: sg=1
        if t=="" or not all(isd(c) for c in t): return None
        return sg*int(t)
    h=pyint(hours)
    if h is None:
        if tz not in TZS: raise Err("ValueError tz")
        h=TZS[tz]
    m=int(mins) if mins else 0
    if not (-12<=h<=14): raise Err("assert")
    tot=60*abs(h)+m
    return (tot if h>=0 else -tot)*60      # copysign on integer hours: h==0 -> positive
def dt_convert(s, timeonly=False):
    if s.endswith("\n"): s=s[:-1]         # `$`
    if "\n" in s: pass
    i=0
    if not timeonly:
        y=fixed(s,0,4); mo=fixed(s,4,2); d=fixed(s,6,2)
        if y is None or mo is None or d is None or not (1<=mo<=12) or not (1<=d<=31): raise Err("nomatch")
        i=8
        if len(s)==8: h=mi=sec=ms=0; off=0; rest=None
    else: y,mo,d=1999,6,8
    if timeonly or len(s)>8:
        h=fixed(s,i,2); mi=fixed(s,i+2,2); sec=fixed(s,i+4,2)
        if h is None or mi is None or sec is None or h>23 or mi>59 or sec>60: raise Err("nomatch")
        i+=6; ms=0
        if s[i:i+1]=="." and fixed(s,i+1,3) is not None: ms=fixed(s,i+1,3); i+=4
        off=parse_bracket(s[i:])
    # datetime(**ints) validation
    if y<1 or d>dim(y,mo) or sec>59: raise Err("ValueError")
    us=((ymd2ord(y,mo,d)*24+h)*60+mi)*60+sec
    us=us*1000000+ms*1000-off*1000000
    if timeonly:
        return us % (86400*10**6)
    lo=ymd2ord(1,1,1)*86400*10**6; hi=(MAXORD+1)*86400*10**6
    if not (lo<=us<hi): raise Err("Overflow")
    return us
EPOCH=datetime.datetime(1,1,1,tzinfo=utils.UTC)
def real_conv(s,timeonly):
    try:
        v=(Types.Time() if timeonly else Types.DateTime()).convert(s)
    except Exception as e: return ("err",)
    if timeonly: return ("ok",((v.hour*60+v.minute)*60+v.second)*10**6+v.microsecond)
    return ("ok",(v-EPOCH)//datetime.timedelta(microseconds=1)+ymd2ord(1,1,1)*86400*10**6)
def model_conv(s,timeonly):
    try: return ("ok",dt_convert(s,timeonly))
    except Err: return ("err",)
def dt_unconvert(y,mo,d,h,mi,s,us,offmin,name,timeonly=False):
    tot=(((ymd2ord(y,mo,d)*24+h)*60+mi)*60+s)*10**6+us+500
    days,rem=divmod(tot,86400*10**6)
    if days>MAXORD: raise Err("Overflow")
    y,mo,d=ord2ymd(days); secs,us2=divmod(rem,10**6); h,r=divmod(secs,3600); mi,s=divmod(r,60)
    ms=us2//1000
    hh,mm=divmod(abs(offmin),60); tz=("-" if offmin<0 else "+")+str(hh)+(".%02d"%mm if mm else "")
    if name is not None: tz+=":"+name
    date="" if timeonly else "%d%02d%02d"%(y,mo,d)      # glibc strftime %Y: no zero padding
    return "%s%02d%02d%02d.%03d[%s]"%(date,h,mi,s,ms,tz)
bad=0;cnt=0;cls_=[0,0]
def rnd_fields():
    y=R.choice([1,1900,1999,2000,2024,2100,2200,9999,R.randint(1,9999)]); mo=R.randint(1,12); d=R.choice([1,28,dim(y,mo),R.randint(1,dim(y,mo))])
    h=R.choice([0,23,R.randint(0,23)]); mi=R.choice([0,59,R.randint(0,59)]); s=R.choice([0,59,R.randint(0,59)])
    return y,mo,d,h,mi,s
for n in range(int(sys.argv[1])):
    y,mo,d,h,mi,s=rnd_fields(); ms=R.choice([0,999,R.randint(0,999)])
    offm=R.choice([0,-30,30,-210,345,-720,840,R.randint(-720,840)])
    hh,mm=divmod(abs(offm),60); sign=R.choice(["-"] if offm<0 else ["+",""])
    off=sign+str(hh)+("."+"%02d"%mm if mm or R.random()<0.2 else "")
    name=R.choice([None,"EST","X Y","a]b","",":"])
    br="["+off+(":"+name if name is not None else "")+"]"
    form=R.randrange(6)
    date="%04d%02d%02d"%(y,mo,d); tm="%02d%02d%02d"%(h,mi,s)
    txt=[date,date+tm,date+tm+".%03d"%ms,date+tm+".%03d"%ms+br,date+tm+br,date+tm+".%03d"%ms+"[-:EST]"][form]
    timeonly=R.random()<0.25
    if timeonly: txt=txt[8:] if form>0 else tm
    if R.random()<0.4:   # corrupt
        k=R.randrange(len(txt)); txt=R.choice([txt[:k]+txt[k+1:], txt[:k]+R.choice("9x-+.[]: ")+txt[k+1:], txt[:k]+R.choice("0159")+txt[k:], txt+"\n", txt+"]"])
    a=model_conv(txt,timeonly); b=real_conv(txt,timeonly); cnt+=1; cls_[a[0]=="ok"]+=1
    if a!=b:
        bad+=1
        if bad<10: print("CONV DIFF",repr(txt),timeonly,a,b)
    # unconvert
    us=R.choice([0,499,500,999499,999500,999999,R.randint(0,999999)])
    offm2=R.randint(-720,840); nm=R.choice([None,"NST","UTC"])
    tz=datetime.timezone(datetime.timedelta(minutes=offm2),nm) if nm else datetime.timezone(datetime.timedelta(minutes=offm2))
    try:
        if R.random()<0.25:
            v=datetime.time(h,mi,s,us,tzinfo=tz); r=("ok",Types.Time().unconvert(v)); to=True
        else:
            v=datetime.datetime(y,mo,d,h,mi,s,us,tzinfo=tz); r=("ok",Types.DateTime().unconvert(v)); to=False
    except Exception as e: r=("err",)
    try:
        m=("ok",dt_unconvert(1999 if to else y,6 if to else mo,8 if to else d,h,mi,s,us,offm2,tz.tzname(None),to))
    except Err: m=("err",)
    if m!=r:
        bad+=1
        if bad<10: print("UNCONV DIFF",v,m,r)
print("cases",cnt,"bad",bad,"conv err/ok",cls_)
