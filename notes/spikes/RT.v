From Coq Require Import List String Bool Arith Lia.
Import ListNotations.
Open Scope string_scope.
Inductive kind := KElem | KSub | KList.
Definition cls := list (string * kind).
Definition schema := string -> option cls.
Inductive etree := Node (tag : string) (txt : option string) (ch : list etree).
Inductive inst := Inst (c : string) (fields : list (string * fval)) (members : list inst)
with fval := FNone | FText (x : string) | FSub (i : inst).
Definition iname (i : inst) := match i with Inst c _ _ => c end.
Definition is_list (k : kind) := match k with KList => true | _ => false end.
Definition nonlist (sp : cls) : cls := filter (fun p => negb (is_list (snd p))) sp.
Fixpoint split_at (sp : cls) : nat :=
  match sp with [] => 0 | (_, k) :: t => if is_list k then 0 else S (split_at t) end.
Fixpoint index_of (a : string) (sp : cls) : option nat :=
  match sp with [] => None | (b, _) :: t => if String.eqb a b then Some 0 else option_map S (index_of a t) end.
Fixpoint kind_of (a : string) (sp : cls) : option kind :=
  match sp with [] => None | (b, k) :: t => if String.eqb a b then Some k else kind_of a t end.
Fixpoint assoc (a : string) (kw : list (string * fval)) : option fval :=
  match kw with [] => None | (b, v) :: t => if String.eqb a b then Some v else assoc a t end.

Section WithSchema.
Variable S : schema.
Definition item_of (to : inst -> etree) (p : string * fval) : list etree :=
  match snd p with FNone => [] | FText x => [Node (fst p) (Some x) []] | FSub j => [to j] end.
Fixpoint to_etree (i : inst) : etree :=
  match i with Inst c fs ms =>
    let item := fun (p : string * fval) => match p with (a, v) =>
        match v with FNone => [] | FText x => [Node a (Some x) []] | FSub j => [to_etree j] end end in
    let mem := fix mem (l : list inst) : list etree := match l with [] => [] | m :: t => to_etree m :: mem t end in
    let rest := fix rest (l : list (string * fval)) : list etree :=
      match l with [] => [] | p :: t => (item p ++ rest t)%list end in
    let emit := fix emit (l : list (string * fval)) (k : nat) {struct l} : list etree :=
      match l with
      | [] => mem ms
      | p :: t => match k with O => (mem ms ++ item p ++ rest t)%list
                  | Datatypes.S k' => (item p ++ emit t k')%list end end in
    let k := match S c with Some sp => split_at sp | None => 0 end in
    Node c None (emit fs k)
  end.
(* accumulator: args (reversed), kwargs (reversed), prev index + 1, prev is list member *)
Definition acc := (list inst * list (string * fval) * nat * bool)%type.
Definition nonempty (x : string) : bool := negb (String.eqb x "").
Definition step (fe : etree -> option inst) (sp : cls) (st : option acc) (c : etree) : option acc :=
  match st with None => None | Some (args, kw, prev1, prevl) =>
    match c with Node a tx _ =>
      match index_of a sp, kind_of a sp with
      | Some idx, Some k =>
          let isl := is_list k in
          if Nat.ltb idx prev1 && negb (isl && prevl) then None else
          let v := match tx with
                   | Some x => if nonempty x then Some (FText x) else option_map FSub (fe c)
                   | None => option_map FSub (fe c) end in
          match v with None => None | Some v =>
            if isl then match v with FSub j => Some (j :: args, kw, Datatypes.S idx, true) | _ => None end
            else match assoc a kw with Some _ => None | None => Some (args, (a, v) :: kw, Datatypes.S idx, false) end
          end
      | _, _ => Some (args, kw, prev1, prevl)
      end end end.
Definition build (tag : string) (sp : cls) (r : option acc) : option inst :=
  match r with None => None | Some (args, kw, _, _) =>
    Some (Inst tag (map (fun p => (fst p, match assoc (fst p) kw with Some v => v | None => FNone end)) (nonlist sp)) (rev args)) end.
Fixpoint from_etree (e : etree) : option inst :=
  match e with Node tag txt ch =>
    match S tag with None => None | Some sp =>
      build tag sp (fold_left (step from_etree sp) ch (Some ([], [], 0, false))) end end.

(* ---------- top-level mirrors of to_etree's local fixes ---------- *)
Definition item (p : string * fval) : list etree :=
  match p with (a, v) => match v with FNone => [] | FText x => [Node a (Some x) []] | FSub j => [to_etree j] end end.
Definition items (l : list (string * fval)) : list etree := flat_map item l.
Fixpoint emit_top (ms : list inst) (l : list (string * fval)) (k : nat) : list etree :=
  match l with
  | [] => map to_etree ms
  | p :: t => match k with O => (map to_etree ms ++ item p ++ items t)%list
              | Datatypes.S k' => (item p ++ emit_top ms t k')%list end end.
Lemma to_etree_unfold c fs ms :
  to_etree (Inst c fs ms) = Node c None (emit_top ms fs (match S c with Some sp => split_at sp | None => 0 end)).
Proof.
  cbn [to_etree]. f_equal.
  generalize (match S c with Some sp => split_at sp | None => 0 end) as k.
  assert (Hmem : forall l, (fix mem (l : list inst) : list etree := match l with [] => [] | m :: t => to_etree m :: mem t end) l = map to_etree l).
  { induction l as [|m t IH]; [reflexivity|]. cbn [map]. rewrite <- IH. reflexivity. }
  assert (Hrest : forall l, (fix rest (l : list (string * fval)) : list etree :=
      match l with [] => [] | p :: t => ((let (a, v) := p in match v with FNone => [] | FText x => [Node a (Some x) []] | FSub j => [to_etree j] end) ++ rest t)%list end) l = items l).
  { induction l as [|p t IH]; [reflexivity|]. unfold items. cbn [flat_map]. fold (items t). rewrite <- IH. reflexivity. }
  induction fs as [|p t IH]; intro k.
  - cbn [emit_top]. apply Hmem.
  - destruct k as [|k']; cbn [emit_top].
    + rewrite Hmem, Hrest. reflexivity.
    + rewrite <- IH. reflexivity.
Qed.
Lemma emit_top_split ms l k :
  emit_top ms l k = (items (firstn k l) ++ map to_etree ms ++ items (skipn k l))%list.
Proof.
  revert k; induction l as [|p t IH]; intro k.
  - destruct k; cbn; rewrite app_nil_r; reflexivity.
  - destruct k as [|k']; cbn [emit_top firstn skipn].
    + reflexivity.
    + rewrite IH. unfold items. cbn [flat_map]. rewrite <- app_assoc. reflexivity.
Qed.

(* ---------- phase lemma 1: a run of non-list fields ---------- *)
Fixpoint incr (sp : cls) (lo : nat) (names : list string) : Prop :=
  match names with [] => True | a :: t => exists i, index_of a sp = Some i /\ lo <= i /\ incr sp (Datatypes.S i) t end.
Lemma incr_weaken sp lo lo' names : lo' <= lo -> incr sp lo names -> incr sp lo' names.
Proof. destruct names as [|a t]; cbn [incr]; [trivial|]. intros Hle (i & Hi & Hlo & Ht). exists i. repeat split; try assumption. lia. Qed.
Definition is_present (p : string * fval) : bool := match snd p with FNone => false | _ => true end.
Definition present (l : list (string * fval)) := filter is_present l.
Definition value_ok (fe : etree -> option inst) (a : string) (v : fval) : Prop :=
  match v with FNone => True | FText x => nonempty x = true | FSub j => iname j = a /\ fe (to_etree j) = Some j end.
Lemma to_etree_tag j : exists ch, to_etree j = Node (iname j) None ch.
Proof. destruct j as [c fs ms]. rewrite to_etree_unfold. eexists. reflexivity. Qed.

Lemma fold_fields fe sp ub : forall l args kw prev1 prevl,
  (forall a v, In (a, v) l -> exists k, kind_of a sp = Some k /\ is_list k = false /\ value_ok fe a v) ->
  incr sp prev1 (map fst l) ->
  (forall a i, In a (map fst l) -> index_of a sp = Some i -> i < ub) -> prev1 <= ub ->
  (forall a, In a (map fst l) -> assoc a kw = None) -> NoDup (map fst l) ->
  exists p1 pl, fold_left (step fe sp) (items l) (Some (args, kw, prev1, prevl)) = Some (args, (rev (present l) ++ kw)%list, p1, pl) /\ p1 <= ub.
Proof.
  induction l as [|[a v] t IH]; intros args kw prev1 prevl Hok Hincr Hub Hp Hkw Hnd.
  - cbn. exists prev1, prevl. split; [reflexivity|assumption].
  - cbn [map fst incr] in Hincr. destruct Hincr as (i & Hi & Hlo & Ht).
    assert (Hiub : i < ub) by (eapply Hub; [left; reflexivity|exact Hi]).
    inversion Hnd as [|? ? Hnotin Hnd']; subst.
    destruct (Hok a v (or_introl eq_refl)) as (k & Hk & Hnl & Hv).
    assert (IHt : forall args kw p pl, p <= Datatypes.S i -> (forall b, In b (map fst t) -> assoc b kw = None) ->
       exists p1 pl', fold_left (step fe sp) (items t) (Some (args, kw, p, pl)) = Some (args, (rev (present t) ++ kw)%list, p1, pl') /\ p1 <= ub).
    { intros args' kw' p pl Hple Hkw'. apply IH; try assumption.
      - intros b w Hin. apply Hok. right. exact Hin.
      - eapply incr_weaken; eassumption.
      - intros b j Hin. apply Hub. right. exact Hin.
      - lia. }
    unfold items. cbn [flat_map]. fold (items t). rewrite fold_left_app.
    destruct v as [|x|j]; cbn [item app fold_left].
    + (* absent *) unfold present. cbn [filter is_present snd]. fold (present t).
      apply IHt; [lia|]. intros b Hb. apply Hkw. right. exact Hb.
    + (* text *)
      cbn [value_ok] in Hv. unfold step at 2. rewrite Hi, Hk, Hnl.
      replace (Nat.ltb i prev1) with false by (symmetry; apply Nat.ltb_ge; lia). cbn [andb].
      rewrite Hv. rewrite (Hkw a (or_introl eq_refl)).
      destruct (IHt args ((a, FText x) :: kw) (Datatypes.S i) false (le_n _)) as (p1 & pl' & Hf & Hp1).
      { intros b Hb. cbn [assoc]. destruct (String.eqb b a) eqn:E; [apply String.eqb_eq in E; subst; contradiction|]. apply Hkw. right. exact Hb. }
      exists p1, pl'. split; [|exact Hp1]. rewrite Hf. f_equal. f_equal. f_equal.
      unfold present. cbn [filter is_present snd]. fold (present t). cbn [rev]. rewrite <- app_assoc. reflexivity.
    + (* sub-aggregate *)
      cbn [value_ok] in Hv. destruct Hv as [Hname Hfe]. destruct (to_etree_tag j) as (ch & Hj). rewrite Hname in Hj.
      rewrite Hj in *. unfold step at 2. rewrite Hi, Hk, Hnl.
      replace (Nat.ltb i prev1) with false by (symmetry; apply Nat.ltb_ge; lia). cbn [andb].
      rewrite Hfe. cbn [option_map]. rewrite (Hkw a (or_introl eq_refl)).
      destruct (IHt args ((a, FSub j) :: kw) (Datatypes.S i) false (le_n _)) as (p1 & pl' & Hf & Hp1).
      { intros b Hb. cbn [assoc]. destruct (String.eqb b a) eqn:E; [apply String.eqb_eq in E; subst; contradiction|]. apply Hkw. right. exact Hb. }
      exists p1, pl'. split; [|exact Hp1]. rewrite Hf. f_equal. f_equal. f_equal.
      unfold present. cbn [filter is_present snd]. fold (present t). cbn [rev]. rewrite <- app_assoc. reflexivity.
Qed.

(* ---------- phase lemma 2: the block of list members ---------- *)
Lemma fold_members fe sp lb ub2 : forall ms args kw prev1 prevl,
  (forall m, In m ms -> exists i, index_of (iname m) sp = Some i /\ kind_of (iname m) sp = Some KList /\ lb <= i /\ i < ub2 /\ fe (to_etree m) = Some m) ->
  prevl = true \/ prev1 <= lb -> prev1 <= ub2 ->
  exists p1 pl, fold_left (step fe sp) (map to_etree ms) (Some (args, kw, prev1, prevl)) = Some ((rev ms ++ args)%list, kw, p1, pl) /\ p1 <= ub2.
Proof.
  induction ms as [|m t IH]; intros args kw prev1 prevl Hm Hpre Hp.
  - cbn. exists prev1, prevl. split; [reflexivity|assumption].
  - destruct (Hm m (or_introl eq_refl)) as (i & Hi & Hk & Hlb & Hub & Hfe).
    destruct (to_etree_tag m) as (ch & Hj). cbn [map fold_left]. rewrite Hj in *.
    unfold step at 2. rewrite Hi, Hk. cbn [is_list].
    replace (Nat.ltb i prev1 && negb (true && prevl)) with false.
    2:{ symmetry. destruct Hpre as [->|Hle]; [cbn; apply andb_false_r|].
        replace (Nat.ltb i prev1) with false by (symmetry; apply Nat.ltb_ge; lia). reflexivity. }
    rewrite Hfe. cbn [option_map].
    destruct (IH (m :: args) kw (Datatypes.S i) true) as (p1 & pl & Hf & Hp1).
    { intros m' Hin. apply Hm. right. exact Hin. } { left. reflexivity. } { lia. }
    exists p1, pl. split; [|exact Hp1]. rewrite Hf. cbn [rev]. rewrite <- app_assoc. reflexivity.
Qed.

(* ---------- rebuilding the field list from the keyword accumulator ---------- *)
Definition lookup (kw : list (string * fval)) (a : string) : fval := match assoc a kw with Some v => v | None => FNone end.
Lemma assoc_app_none a l1 l2 : assoc a l1 = None -> assoc a (l1 ++ l2) = assoc a l2.
Proof. induction l1 as [|[b v] t IH]; cbn [assoc app]; [trivial|]. destruct (String.eqb a b); [discriminate|exact IH]. Qed.
Lemma assoc_notin a l : ~ In a (map fst l) -> assoc a l = None.
Proof. induction l as [|[b v] t IH]; cbn [assoc map fst In]; [trivial|]. intro H. destruct (String.eqb a b) eqn:E; [apply String.eqb_eq in E; subst; tauto|]. apply IH. tauto. Qed.
Lemma present_names l a : In a (map fst (present l)) -> In a (map fst l).
Proof. unfold present. induction l as [|p t IH]; cbn [filter]; [trivial|]. destruct (is_present p); cbn [map In]; tauto. Qed.
Lemma lookup_rev_present l : NoDup (map fst l) -> forall a v, In (a, v) l -> lookup (rev (present l)) a = v.
Proof.
  induction l as [|[b w] t IH]; intros Hnd a v Hin; [contradiction|].
  inversion Hnd as [|? ? Hnotin Hnd']; subst. unfold present. cbn [filter]. fold (present t). unfold lookup.
  destruct Hin as [Heq|Hin].
  - inversion Heq; subst.
    assert (Hnone : assoc a (rev (present t)) = None).
    { apply assoc_notin. intro H. apply Hnotin. apply present_names. rewrite map_rev in H. apply in_rev in H. exact H. }
    unfold is_present; cbn [snd]. destruct v; cbn [rev]; rewrite ?(assoc_app_none _ _ _ Hnone); cbn [assoc]; rewrite ?String.eqb_refl; try reflexivity. rewrite Hnone. reflexivity.
  - assert (Hab : a <> b) by (intro; subst; apply Hnotin; change b with (fst (b, v)); apply in_map; exact Hin).
    specialize (IH Hnd' a v Hin). unfold lookup in IH.
    destruct (is_present (b, w)); [|exact IH]. cbn [rev].
    destruct (assoc a (rev (present t))) as [u|] eqn:E.
    + assert (assoc a (rev (present t) ++ [(b, w)]) = Some u).
      { clear -E. induction (rev (present t)) as [|[c x] r IHr]; cbn [assoc app] in *; [discriminate|]. destruct (String.eqb a c); [exact E|apply IHr; exact E]. }
      rewrite H. exact IH.
    + rewrite (assoc_app_none _ _ _ E). cbn [assoc]. apply String.eqb_neq in Hab. rewrite Hab. exact IH.
Qed.

Lemma nodup_app_l (A : Type) (l l' : list A) : NoDup (l ++ l') -> NoDup l.
Proof. induction l as [|x t IH]; cbn [app]; intro H; [constructor|]. inversion H; subst. constructor; [intro Hin; apply H2; apply in_or_app; left; exact Hin|apply IH; assumption]. Qed.
Lemma nodup_app_r (A : Type) (l l' : list A) : NoDup (l ++ l') -> NoDup l'.
Proof. induction l as [|x t IH]; cbn [app]; intro H; [exact H|]. inversion H; subst. apply IH; assumption. Qed.
Lemma rebuild kw : forall (src : cls) fs, map fst fs = map fst src -> (forall a v, In (a, v) fs -> lookup kw a = v) ->
  map (fun p : string * kind => (fst p, match assoc (fst p) kw with Some v => v | None => FNone end)) src = fs.
Proof.
  induction src as [|[a k] t IH]; intros fs Hn Hl; destruct fs as [|[b v] fs']; cbn [map fst] in *; try discriminate; [reflexivity|].
  inversion Hn; subst. f_equal.
  - f_equal. apply (Hl a v). left. reflexivity.
  - apply IH; [assumption|]. intros a' v' Hin. apply Hl. right. exact Hin.
Qed.
Lemma present_app l1 l2 : present (l1 ++ l2) = (present l1 ++ present l2)%list.
Proof. unfold present. apply filter_app. Qed.

(* ---------- one node: if all children round-trip, the node does ---------- *)
Theorem node_roundtrip c sp fs ms lb ub2 :
  S c = Some sp ->
  NoDup (map fst fs) -> map fst fs = map fst (nonlist sp) ->
  (forall a v, In (a, v) fs -> exists k, kind_of a sp = Some k /\ is_list k = false /\ value_ok from_etree a v) ->
  (forall m, In m ms -> exists i, index_of (iname m) sp = Some i /\ kind_of (iname m) sp = Some KList /\ lb <= i /\ i < ub2 /\ from_etree (to_etree m) = Some m) ->
  incr sp 0 (map fst (firstn (split_at sp) fs)) ->
  (forall a i, In a (map fst (firstn (split_at sp) fs)) -> index_of a sp = Some i -> i < lb) ->
  incr sp ub2 (map fst (skipn (split_at sp) fs)) -> lb <= ub2 -> ub2 <= Datatypes.S (List.length sp) ->
  from_etree (to_etree (Inst c fs ms)) = Some (Inst c fs ms).
Proof.
  intros HS Hnd Hnames Hfields Hmem Hpre Hprelb Hpost Hlbub Hub2.
  rewrite to_etree_unfold, HS, emit_top_split. cbn [from_etree]. rewrite HS.
  set (k := split_at sp) in *. set (pre := firstn k fs) in *. set (post := skipn k fs) in *.
  assert (Hsplit : fs = (pre ++ post)%list) by (symmetry; apply firstn_skipn).
  assert (Hndpp : NoDup (map fst pre ++ map fst post)) by (rewrite <- map_app, <- Hsplit; exact Hnd).
  rewrite !fold_left_app.
  (* phase 1 *)
  destruct (fold_fields from_etree sp lb pre [] [] 0 false) as (p1 & pl1 & H1 & Hp1).
  { intros a v Hin. apply Hfields. rewrite Hsplit. apply in_or_app. left. exact Hin. }
  { exact Hpre. } { exact Hprelb. } { lia. } { reflexivity. } { eapply nodup_app_l. exact Hndpp. }
  rewrite H1.
  (* phase 2 *)
  destruct (fold_members from_etree sp lb ub2 ms [] (rev (present pre) ++ []) p1 pl1 Hmem (or_intror Hp1)) as (p2 & pl2 & H2 & Hp2); [lia|].
  rewrite H2.
  (* phase 3 *)
  destruct (fold_fields from_etree sp (Datatypes.S (List.length sp)) post (rev ms ++ []) (rev (present pre) ++ []) p2 pl2) as (p3 & pl3 & H3 & _).
  { intros a v Hin. apply Hfields. rewrite Hsplit. apply in_or_app. right. exact Hin. }
  { eapply incr_weaken; eassumption. }
  { intros a i _ Hi. clear -Hi. revert i Hi. induction sp as [|[b kb] t IH]; intros i Hi; cbn [index_of] in Hi; [discriminate|].
    destruct (String.eqb a b); [inversion Hi; cbn; lia|]. destruct (index_of a t) as [j|]; [|discriminate]. inversion Hi; subst. specialize (IH j eq_refl). cbn [List.length]. lia. }
  { lia. }
  { intros a Ha. rewrite app_nil_r. apply assoc_notin. intro H. rewrite map_rev in H. apply in_rev in H. apply present_names in H.
    clear -Hndpp Ha H. induction (map fst pre) as [|x xs IH]; [contradiction|]. cbn [app] in Hndpp. inversion Hndpp; subst.
    destruct H as [->|H]; [apply H2; apply in_or_app; right; exact Ha|apply IH; assumption]. }
  { eapply nodup_app_r. exact Hndpp. }
  rewrite H3. cbn [build]. f_equal. f_equal.
  - (* fields *)
    rewrite !app_nil_r. rewrite <- rev_app_distr, <- present_app, <- Hsplit.
    apply rebuild; [exact Hnames|]. intros a v Hin. apply lookup_rev_present; assumption.
  - rewrite app_nil_r. apply rev_involutive.
Qed.
Print Assumptions node_roundtrip.
End WithSchema.
