# prototype model of parse_header (current code) vs real, on layout product
import io, itertools, re, random
from ofxtools.header import parse_header, OFXHeaderV1, OFXHeaderV2, XML_REGEX, OFXHeaderError
class Crash(Exception): pass
class Rej(Exception): pass
def readline(b, pos):
    k=b.find(b"\n",pos)
    end=len(b) if k<0 else k+1
    return b[pos:end], end
def dec_ascii(bs):
    if any(x>=128 for x in bs): raise Crash("UnicodeDecodeError")
    return bs.decode("ascii")
def model(b):
    pos=0; found=False
    for _ in range(8):
        start=pos
        raw,pos=readline(b,pos)
        line=dec_ascii(raw)
        if line.strip(): found=True; break
    if not found: raise Rej("hdr")
    if XML_REGEX.match(line):
        try: src=b.decode("utf_8")
        except UnicodeDecodeError: raise Crash("utf8")
        m=OFXHeaderV2.regex.search(src)
        if not m: raise Rej("malformed")
        h=OFXHeaderV2(**{k.lower():v for k,v in m.groupdict().items()})
        return ("v2",h.version,h.security,h.oldfileuid,h.newfileuid, src[m.end():])
    rawheader=line+"\n"
    for _ in range(8):
        raw,pos=readline(b,pos); rawheader+=dec_ascii(raw)
    m=OFXHeaderV1.regex.search(rawheader)
    if not m: raise Rej("malformed")
    h=OFXHeaderV1(**{k.lower():v for k,v in m.groupdict().items()})
    off=start+m.end()
    try: msg=b[off:].decode(h.codec).strip()
    except UnicodeDecodeError: raise Crash("codec")
    return ("v1",h.version,h.security,h.oldfileuid,h.newfileuid,msg)
def run(f,b):
    try: return ("ok",)+tuple(f(b))
    except Crash: return ("crash",)
    except UnicodeDecodeError: return ("crash",)
    except OFXHeaderError: return ("rej",)
    except Rej: return ("rej",)
def real(b):
    h,m=parse_header(io.BytesIO(b))
    return ("v1" if isinstance(h,OFXHeaderV1) else "v2",h.version,h.security,h.oldfileuid,h.newfileuid,m)
R=random.Random(1)
F=lambda cs,comp:["OFXHEADER:100","DATA:OFXSGML","VERSION:102","SECURITY:NONE","ENCODING:USASCII","CHARSET:"+cs]+(["COMPRESSION:NONE"] if comp else [])+["OLDFILEUID:NONE","NEWFILEUID:A-b_9"]
bodies=["<OFX></OFX>","<OFX>\n<A>café€\n</OFX>\n","<OFX><A>x</A></OFX>  \n"]
cnt=0;bad=0;classes={}
for cs,codec in [("1252","cp1252"),("ISO-8859-1","latin_1"),("NONE","utf_8")]:
  for comp in (True,False):
    for sep in ["\r\n","\n","\r",""," ","\n\n"]:
      for gap in ["","\n","\r\n\r\n","\r","  ","\n\n\n"]:
        for lead in ["","\n","\r\n\n","\n"*7,"\n"*8," \n"]:
          for colon in ["",": "]:
            for body in bodies:
              try: bb=body.encode(codec)
              except UnicodeEncodeError: continue
              hdr=lead+sep.join(f.replace(":",":"+colon[1:] ) if colon else f for f in F(cs,comp))+gap
              b=hdr.encode("ascii")+bb
              a=run(model,b); r=run(real,b); cnt+=1
              classes[a[0]]=classes.get(a[0],0)+1
              if a!=r:
                  bad+=1
                  if bad<6: print("DIFF",repr(b[:60]),a,r)
# v2
x='<?xml version="1.0" encoding="UTF-8" standalone="no"?>'
o='<?OFX OFXHEADER="200" VERSION="203" SECURITY="NONE" OLDFILEUID="NONE" NEWFILEUID="NONE"?>'
for q in ['"',"'"]:
  for a_ in ["","\n","\r\n"," "]:
    for b_ in ["","\n","\r\n","  "]:
      for lead in ["","\n","\n\n"]:
        for body in bodies:
          b=(lead+x.replace('"',q)+a_+o+b_+body).encode("utf8")
          a=run(model,b); r=run(real,b); cnt+=1
          classes[a[0]]=classes.get(a[0],0)+1
          if a!=r:
              bad+=1
              if bad<12: print("DIFF2",repr(b[:80]),a[:2],r[:2])
print(cnt,"bad",bad,classes)
