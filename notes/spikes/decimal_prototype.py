# Pure-integer prototype of the decimal.Decimal fragment used by Types.Decimal; compare with the real module
import random, decimal, re, sys
from ofxtools import Types
R=random.Random(9)
class Err(Exception): pass
# value: ("F",sign,coeff:int,exp:int) | ("I",sign) | ("N",sign,signalling,payload:int)
WS=" \t\n\r\x0b\x0c"   # ASCII domain of str.strip(); unicode spaces outside model domain
def isd(c): return c in "0123456789"
def of_string(s):
    s=s.strip(WS).replace("_","")
    i=0; sign=0
    if s[i:i+1] in ("+","-"): sign=1 if s[i]=="-" else 0; i+=1
    body=s[i:]; low=body.lower()
    if low in ("inf","infinity"): return ("I",sign)
    for pre,sig in (("snan",1),("nan",0)):
        if low.startswith(pre) and all(isd(c) for c in low[len(pre):]):
            p=low[len(pre):].lstrip("0"); return ("N",sign,sig,int(p) if p else 0)
    # digits [. digits] | . digits ; optional exponent
    j=0
    while j<len(body) and isd(body[j]): j+=1
    ip=body[:j]; fp=""
    if body[j:j+1]==".":
        k=j+1
        while k<len(body) and isd(body[k]): k+=1
        fp=body[j+1:k]; j=k
    if ip=="" and fp=="": raise Err("syntax")
    e=0
    if body[j:j+1] in ("e","E"):
        k=j+1; es=1
        if body[k:k+1] in ("+","-"): es=-1 if body[k]=="-" else 1; k+=1
        m=k
        while m<len(body) and isd(body[m]): m+=1
        if m==k: raise Err("syntax")
        e=es*int(body[k:m]); j=m
    if j!=len(body): raise Err("syntax")
    c=int(ip+fp); ex=e-len(fp)
    # libmpdec hard limits (64-bit): exponent and adjusted exponent within +-999999999999999999
    adj=ex+len(str(c))-1
    if abs(e)>999999999999999999 or adj>999999999999999999 or ex<-1999999999999999997: raise Err("limits")
    return ("F",sign,c,ex)
def ndig(c): return len(str(c))
PREC=28; EMAX=999999; EMIN=-999999
def quantize(v,qexp):
    # value.quantize(Decimal('0.0..1')) under default context: ROUND_HALF_EVEN, prec 28
    if v[0]=="N":
        if v[2]: raise Err("InvalidOperation")      # sNaN signals
        return v
    if v[0]=="I": raise Err("InvalidOperation")
    _,sg,c,e=v
    if c==0: return ("F",sg,0,qexp)
    if e>=qexp:
        if e-qexp>PREC: raise Err("InvalidOperation")      # result would need > prec digits; avoid the huge power
        c2=c*10**(e-qexp)
    else:
        sh=qexp-e
        if sh>ndig(c): c2=0                                  # far below half a quantum; avoid the huge power
        else:
            q,r=divmod(c,10**sh); half=5*10**(sh-1)
            if r>half or (r==half and q%2==1): q+=1
            c2=q
    if ndig(c2)>PREC: raise Err("InvalidOperation")
    # adjusted exponent bound checks omitted (exp range far away)
    return ("F",sg,c2,qexp)
def to_sci(v):
    if v[0]=="I": return ("-" if v[1] else "")+"Infinity"
    if v[0]=="N": return ("-" if v[1] else "")+("sNaN" if v[2] else "NaN")+(str(v[3]) if v[3] else "")
    _,sg,c,e=v; ds=str(c); left=len(ds)+e
    if e<=0 and left>-6: dot=left
    else: dot=1
    if dot<=0: ip="0"; fp="."+"0"*(-dot)+ds
    elif dot>=len(ds): ip=ds+"0"*(dot-len(ds)); fp=""
    else: ip=ds[:dot]; fp="."+ds[dot:]
    if left==dot: ex=""
    else: ex="E%+d"%(left-dot)
    return ("-" if sg else "")+ip+fp+ex
def to_plain(v):   # format(v,'f') for finite
    _,sg,c,e=v; ds=str(c)
    if e>=0: body="0" if c==0 else ds+"0"*e
    else:
        if len(ds)<=-e: ds="0"*(-e-len(ds)+1)+ds
        body=ds[:e]+"."+ds[e:]
    return ("-" if sg else "")+body
def from_real(d):
    t=d.as_tuple()
    if t.exponent=="F": return ("I",t.sign)
    if t.exponent in ("n","N"): return ("N",t.sign,1 if t.exponent=="N" else 0,int("".join(map(str,t.digits)) or 0))
    return ("F",t.sign,int("".join(map(str,t.digits))),t.exponent)
def model_convert(s,scale):
    try:
        try: v=of_string(s)
        except Err: v=of_string(s.replace(",","."))
        if scale is not None: v=quantize(v,-scale)
        return ("ok",v)
    except Err: return ("err",)
def real_convert(s,scale):
    try: return ("ok",from_real(Types.Decimal(scale).convert(s) if scale else Types.Decimal().convert(s)))
    except Exception: return ("err",)
bad=0;cnt=0;st=[0,0]
def rnd_num():
    k=R.randrange(8)
    ip="".join(R.choice("0123456789") for _ in range(R.choice([0,1,3,12,30]))); fp="".join(R.choice("0123456789") for _ in range(R.choice([0,1,2,5,30])))
    s=R.choice(["","+","-"])+ip+R.choice(["",".",","] if fp=="" else [".",","])+fp
    if R.random()<0.2: s+=R.choice("eE")+R.choice(["","+","-"])+str(R.randint(0,40))
    if R.random()<0.1: s=R.choice(["NaN","-nan","sNaN12","Infinity","-inf","INF","nan007"])
    if R.random()<0.1: s=" "+s+"\n"
    if R.random()<0.1 and len(s)>2: k=R.randrange(len(s)); s=s[:k]+R.choice("_x ,.+-e")+s[k:]
    return s
for n in range(int(sys.argv[1])):
    s=rnd_num(); scale=R.choice([None,None,1,2,4,8])
    a=model_convert(s,scale); b=real_convert(s,scale); cnt+=1; st[a[0]=="ok"]+=1
    if a!=b:
        bad+=1
        if bad<10: print("CONV DIFF",repr(s),scale,a,b)
    if a[0]=="ok" and b[0]=="ok":
        d=Types.Decimal().convert(s) if scale is None else Types.Decimal(scale).convert(s)
        if (a[1][0]!="F" or abs(a[1][3])<10**6) and to_sci(a[1])!=str(d):
            bad+=1
            if bad<10: print("STR DIFF",repr(s),to_sci(a[1]),str(d))
        if a[1][0]=="F" and abs(a[1][3])<200 and to_plain(a[1])!=format(d,"f"):
            bad+=1
            if bad<10: print("PLAIN DIFF",repr(s),to_plain(a[1]),format(d,"f"))
print("cases",cnt,"bad",bad,st)
