From Coq Require Import ZArith List Bool Lia.
Import ListNotations.
Local Open Scope Z_scope.
Definition is_leap (y : Z) : bool := ((y mod 4 =? 0) && negb (y mod 100 =? 0)) || (y mod 400 =? 0).
Definition dim (y m : Z) : Z :=
  if m =? 2 then (if is_leap y then 29 else 28) else if (m =? 4) || (m =? 6) || (m =? 9) || (m =? 11) then 30 else 31.
Definition days_before_year (y : Z) : Z := let y' := y - 1 in y' * 365 + y' / 4 - y' / 100 + y' / 400.
Fixpoint dbm_aux (y : Z) (m : nat) : Z := match m with O => 0 | S k => dbm_aux y k + dim y (Z.of_nat (S k)) end.
Definition days_before_month (y m : Z) : Z := dbm_aux y (Z.to_nat (m - 1)).
Definition ymd2ord (y m d : Z) : Z := days_before_year y + days_before_month y m + d.
(* Python _ord2ymd *)
Definition DI400 := 146097. Definition DI100 := 36524. Definition DI4 := 1461.
Fixpoint find_month (y : Z) (n : Z) (m : nat) (fuel : nat) : Z * Z :=
  match fuel with O => (Z.of_nat m, n) | S f => let dm := dim y (Z.of_nat m) in if n <? dm then (Z.of_nat m, n) else find_month y (n - dm) (S m) f end.
Definition ord2ymd (n0 : Z) : Z * Z * Z :=
  let n := n0 - 1 in
  let n400 := n / DI400 in let n := n mod DI400 in
  let y := n400 * 400 + 1 in
  let n100 := n / DI100 in let n := n mod DI100 in
  let n4 := n / DI4 in let n := n mod DI4 in
  let n1 := n / 365 in let n := n mod 365 in
  let y := y + n100 * 100 + n4 * 4 + n1 in
  if (n1 =? 4) || (n100 =? 4) then (y - 1, 12, 31)
  else let '(m, r) := find_month y n 1 12 in (y, m, r + 1).
Definition t3eq (a b : Z*Z*Z) : bool := let '(a1,a2,a3) := a in let '(b1,b2,b3) := b in (a1=?b1)&&(a2=?b2)&&(a3=?b3).
(* sweep: all days of years 1..400 *)
Definition check_year (y : Z) : bool :=
  forallb (fun m => forallb (fun d => t3eq (ord2ymd (ymd2ord y m d)) (y, m, d))
     (map Z.of_nat (seq 1 (Z.to_nat (dim y m))))) (map Z.of_nat (seq 1 12)).
Lemma sweep400 : forallb check_year (map Z.of_nat (seq 1 400)) = true.
Proof. vm_compute. reflexivity. Qed.
Lemma ymd2ord_400 : ymd2ord 401 1 1 = ymd2ord 1 1 1 + 146097. Proof. vm_compute. reflexivity. Qed.
