# Prototype of the hand-written scanner for TreeBuilder.regex; compare with re.finditer exhaustively.
import re, itertools, sys
from ofxtools.Parser import TreeBuilder
RX=TreeBuilder.regex
TAGCH=set("ABCDEFGHIJKLMNOPQRSTUVWXYZ0123456789./_ ")
def match_at(s,i):
    """return (end, tag, cdata, text, closetag, tail) or None — mirrors regex at position i"""
    n=len(s)
    if i>=n or s[i]!="<": return None
    # lazy tag: shortest run of TAGCH (>=1) followed by '>' such that the REST matches; rest is all optional so shortest with '>' wins
    j=i+1
    while j<n and s[j] in TAGCH:
        j+=1
        if j<n and s[j]==">": break
    else:
        return None
    if not (j<n and s[j]==">" and j>i+1): return None
    tag=s[i+1:j]; p=j+1
    cdata=text=None
    # optional ((<![CDATA[(.+)]]>)|([^<]+))  -- greedy optional: try cdata, then text, else skip
    def try_cdata(p):
        if s.startswith("<![CDATA[",p):
            q=p+9
            # .+ greedy: to end of line, then backtrack to last "]]>" with at least 1 char
            eol=s.find("\n",q); eol = n if eol<0 else eol
            k=s.rfind("]]>",q+1,eol)   # need ]]> starting at >= q+1, entirely before eol
            # rfind(sub,start,end) finds sub within s[start:end]
            if k>=q+1: return (k+3, s[q:k])
        return None
    c=try_cdata(p)
    cands=[]
    if c:
        # greedy .+ could backtrack to earlier ]]> if later parts fail; later parts are all optional so first (greediest) succeeds
        p2,cdata=c
    else:
        q=p
        while q<n and s[q]!="<": q+=1
        if q>p: text=s[p:q]; p2=q
        else: p2=p
    p=p2
    closetag=None
    ct="</"+tag+">"
    if s.startswith(ct,p): closetag=tag; p+=len(ct)
    tail=None
    q=p
    while q<n and s[q]!="<": q+=1
    if q>p: tail=s[p:q]; p=q
    return (p,tag,cdata,text,closetag,tail)
def scan(s):
    out=[]; i=0; n=len(s)
    while i<n:
        m=match_at(s,i)
        if m is None: i+=1; continue
        out.append((i,)+m); i=m[0] if m[0]>i else i+1
    return out
def ref(s):
    return [(m.start(),m.end(),m["tag"],m["cdata"],m["text"],m["closetag"],m["tail"]) for m in RX.finditer(s)]
alpha=sys.argv[1]; L=int(sys.argv[2]); bad=0; cnt=0
for l in range(L+1):
    for t in itertools.product(alpha,repeat=l):
        s="".join(t); cnt+=1
        if scan(s)!=ref(s):
            bad+=1
            if bad<8: print("DIFF",repr(s),scan(s),ref(s))
print("checked",cnt,"bad",bad)
