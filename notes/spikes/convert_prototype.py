# Prototype of Convert.v (generic over a raw schema extracted by introspection): construct / from_etree / to_etree
import sys, random, decimal, datetime, warnings, collections, copy
import xml.etree.ElementTree as ET
import ofxtools.models as M
from ofxtools.models.base import Aggregate, ElementList, UnknownTagWarning
from ofxtools import Types, utils
exec(open("rt.py").read().split("def eq(a,b,path")[0].split("concrete=[")[0])  # imports only
# ---------- raw schema (what the translator would emit) ----------
seen=set(); classes=[]
def walk(c):
    for s in c.__subclasses__():
        if s not in seen: seen.add(s); classes.append(s); walk(s)
walk(Aggregate)
def kind(v):
    if isinstance(v,Types.Unsupported): return ("unsup",)
    if isinstance(v,Types.ListAggregate): return ("listagg",v.__type__.__name__)
    if isinstance(v,Types.SubAggregate): return ("sub",v.__type__.__name__,v.required)
    if isinstance(v,Types.ListElement): return ("listelem",v.converter)
    return ("elem",v)
RAW={}
allcls=set(classes)
for c in classes:
    for b in c.__mro__:
        if b not in (object,list): allcls.add(b)
for c in allcls:
    RAW[c.__name__]=dict(mro=[b.__name__ for b in c.__mro__ if b not in (object,list)],
        own=[(k,kind(v)) for k,v in c.__dict__.items() if isinstance(v,(Types.Element,Types.Unsupported))],
        optmx=c.__dict__.get("optionalMutexes"), reqmx=c.__dict__.get("requiredMutexes"),
        elist=issubclass(c,ElementList), export=getattr(M,c.__name__,None) is c)
def spec(cn):
    keys=[]
    for b in reversed(RAW[cn]["mro"]):
        for k,_ in RAW[b]["own"]:
            if k not in keys: keys.append(k)
    out=[]
    for k in keys:
        for b in RAW[cn]["mro"]:
            d=dict(RAW[b]["own"])
            if k in d: out.append((k,d[k])); break
    return out
def eff(cn,nm):
    for b in RAW[cn]["mro"]:
        v=RAW[b]["optmx" if nm=="optionalMutexes" else "reqmx"]
        if v is not None: return v
    return []
def issub(cn,target): return target in RAW[cn]["mro"]
# ---------- model values ----------
class Rej(Exception): pass
class Inst:
    def __init__(s,cls,fields,members): s.cls=cls; s.fields=fields; s.members=members
def conv_elem(t,v):
    # delegate scalar conversion to real converters (scalar models are a separate engine)
    try: return t.convert(v)
    except Exception as e: raise Rej(type(e).__name__)
def unconv_elem(t,v):
    try: return t.unconvert(v)
    except Exception as e: raise Rej(type(e).__name__)
HOOK={}
def hook(name):
    def d(f): HOOK[name]=f; return f
    return d
def atleast1(cn,args,kw):
    if len(args)==0: raise Rej("ValueError")
for n in ["MSGSETCORE","MFACHALLENGERS","CONTRIBINFO","MSGSETLIST","TAX1099MSGSRQV1","TAX1099MSGSRSV1","TAX1099MSGSETV1"]: HOOK[n]=atleast1
@hook("ACCTINFO")
def _(cn,args,kw):
    if len(args)==0: raise Rej("ValueError")
    names=[cname(a) for a in args]
    if len(set(names))!=len(names): raise Rej("ValueError")
@hook("TAX1099RS")
def _(cn,args,kw):
    if not any(cname(a).startswith("TAX1099") for a in args): raise Rej("ValueError")
@hook("EXTDPMT")
def _(cn,args,kw):
    if "EXTDPMTINV" not in [cname(a) for a in args] and "extdpmtdsc" not in kw: raise Rej("ValueError")
@hook("EXTDPAYEE")
def _(cn,args,kw):
    if kw.get("payeeid") and not all(kw.get(a) for a in ("idscope","name")): raise Rej("ValueError")
@hook("SONRQ")
def _(cn,args,kw):
    u,p,k=kw.get("userid"),kw.get("userpass"),kw.get("userkey")
    if not ((u and p) or k) or ((u or p) and k): raise Rej("ValueError")
@hook("CONTRIBSECURITY")
def _(cn,args,kw):
    suf=[k[-3:] for k in kw if k!="secid"]
    if len(set(suf))>1: raise Rej("ValueError")
    if len(kw)<2: raise Rej("ValueError")
@hook("TAX1099R_V100")
def _(cn,args,kw):
    for tag in ("grossdist","taxamt","fedtaxwh","sttaxwh","lcltaxwh"):
        if tag in kw and "irasepsimp" not in kw: raise Rej("ValueError")
@hook("TAX1099MISC_V100")
def _(cn,args,kw):
    if "STTAXWH" in kw and "PAYERSTATE" not in kw: raise Rej("ValueError")
@hook("OFX")
def _(cn,args,kw):
    if len(set(k[-7:] for k in kw))>1: raise Rej("ValueError")
def cname(a): return a.cls if isinstance(a,Inst) else type(a).__name__
def truthy(v): return not (v is None or v=="" or v is False or v==0)
def construct(cn,args,kw):
    kw=dict(kw)
    for b in RAW[cn]["mro"]:
        if b in HOOK: HOOK[b](cn,args,kw); break
    for g in eff(cn,"optionalMutexes"):
        if sum(kw.get(m) is not None for m in g)>1: raise Rej("OFXSpecError")
    for g in eff(cn,"requiredMutexes"):
        if sum(kw.get(m) is not None for m in g)!=1: raise Rej("OFXSpecError")
    sp=spec(cn); fields=[]
    for k,kd in sp:
        if kd[0] in ("listagg","listelem"): continue
        v=kw.pop(k,None)
        if kd[0]=="unsup": fields.append((k,None)); continue
        if kd[0]=="sub":
            if v is None:
                if kd[2]: raise Rej("OFXSpecError")
            elif not (isinstance(v,Inst) and issub(v.cls,kd[1])): raise Rej("TypeError")
            fields.append((k,v)); continue
        if isinstance(v,Inst): raise Rej("TypeError-ish")
        fields.append((k,conv_elem(kd[1],v)))
    members=[]
    if RAW[cn]["elist"]:
        le=[kd for k,kd in sp if kd[0]=="listelem"]
        assert len(le)==1
        for a in args:
            if isinstance(a,Inst): raise Rej("conv")
            members.append(conv_elem(le[0][1],a))
    else:
        la=[k for k,kd in sp if kd[0]=="listagg"]
        for a in args:
            if isinstance(a,Inst):
                if a.cls.lower() not in la: raise Rej("TypeError")
            elif type(a) is not str: raise Rej("TypeError")
            members.append(a)
    if kw: raise Rej("residual")
    return Inst(cn,fields,members)
RENAME={"MAIL":("FROM","FRM"),"MFINFO":("YIELD","YLD"),"STOCKINFO":("YIELD","YLD")}
def groom(cn,children):
    children=list(children)
    if cn in RENAME:
        a,b=RENAME[cn]
        for i,(t,x,ch) in enumerate(children):
            if t==a: children[i]=(b,x,ch); break
    return [c for c in children if "." not in c[0]]
def from_etree(node,warns):
    tag,text,children=node
    if not (tag in RAW and RAW[tag]["export"]): raise Rej("OFXSpecError")
    cn=tag
    if len(children)==0: return construct(cn,[],{})
    children=groom(cn,children)
    sp=spec(cn); names=[k for k,_ in sp]; kinds=dict(sp)
    args=[];kw={};prev=-1;prevlist=False
    for (t,x,ch) in children:
        a=t.lower()
        if a not in names: warns.append(t); continue
        idx=names.index(a); isl=kinds[a][0] in ("listagg","listelem")
        if idx<=prev and not (isl and prevlist): raise Rej("order")
        if kinds[a][0]=="unsup": v=None
        elif x: v=x
        else: v=from_etree((t,x,ch),warns)
        if isl: args.append(v)
        else:
            if a in kw: raise Rej("dup")
            kw[a]=v
        prev,prevlist=idx,isl
    return construct(cn,args,kw)
def to_etree(inst):
    cn=inst.cls; sp=spec(cn); out=[]; do=True; f=dict(inst.fields)
    for k,kd in sp:
        if kd[0] in ("listagg","listelem"):
            if do:
                for m in inst.members:
                    if RAW[cn]["elist"]:
                        le=[(kk,kdd) for kk,kdd in sp if kdd[0]=="listelem"][0]
                        out.append((le[0].upper(),unconv_elem(le[1][1],m),[]))
                    else:
                        if not isinstance(m,Inst): raise Rej("AttributeError")
                        out.append(to_etree(m))
                do=False
        else:
            v=f[k]
            if v is None: continue
            if isinstance(v,Inst): out.append(to_etree(v))
            else: out.append((k.upper(),unconv_elem(kd[1],v),[]))
    if cn in RENAME:
        a,b=RENAME[cn]
        for i,(t,x,ch) in enumerate(out):
            if t==b: out[i]=(a,x,ch); break
    return (cn,None,out)
# ---------- bridge ----------
def to_model(a):
    if isinstance(a,Aggregate):
        cn=type(a).__name__
        fields=[(k,None if isinstance(kd,tuple) and kd[0]=="unsup" else to_model(a.__dict__.get(k))) for k,kd in spec(cn) if kd[0] not in ("listagg","listelem")]
        return Inst(cn,fields,[to_model(m) for m in a])
    return a
def meq(a,b):
    if isinstance(a,Inst) or isinstance(b,Inst):
        return isinstance(a,Inst) and isinstance(b,Inst) and a.cls==b.cls and len(a.fields)==len(b.fields) and all(x[0]==y[0] and meq(x[1],y[1]) for x,y in zip(a.fields,b.fields)) and len(a.members)==len(b.members) and all(meq(x,y) for x,y in zip(a.members,b.members))
    if isinstance(a,decimal.Decimal) and isinstance(b,decimal.Decimal): return a==b and a.as_tuple()==b.as_tuple()
    return type(a)==type(b) and a==b
def et2t(e): return (e.tag,e.text,[et2t(c) for c in e])
def t2et(t):
    e=ET.Element(t[0]); e.text=t[1]
    for c in t[2]: e.append(t2et(c))
    return e
