From Coq Require Import List NArith Bool Lia ZArith.
Import ListNotations.
Local Open Scope N_scope.
Ltac Zify.zify_post_hook ::= Z.to_euclidean_division_equations.
Definition text := list N.
Definition digit_char (d : N) : N := 48 + d.
Definition is_digit (c : N) : bool := (48 <=? c) && (c <=? 57).
(* fixed-width, most significant first *)
Fixpoint print_fixed (w : nat) (n : N) : text :=
  match w with O => [] | S k => (print_fixed k (n / 10) ++ [digit_char (n mod 10)])%list end.
(* parse: fold from the left *)
Definition parse_step (acc : option N) (c : N) : option N :=
  match acc with None => None | Some a => if is_digit c then Some (a * 10 + (c - 48)) else None end.
Definition parse_from (a : N) (s : text) : option N := fold_left parse_step s (Some a).
Definition parse_digits (s : text) : option N := match s with [] => None | _ => parse_from 0 s end.

Lemma parse_from_app a s t : parse_from a (s ++ t) = match parse_from a s with Some b => parse_from b t | None => None end.
Proof.
  unfold parse_from. rewrite fold_left_app. destruct (fold_left parse_step s (Some a)) as [b|]; [reflexivity|].
  induction t as [|c t IH]; [reflexivity|]. cbn [fold_left parse_step]. exact IH.
Qed.
Lemma parse_print_fixed w : forall n a, n < 10 ^ N.of_nat w ->
  parse_from a (print_fixed w n) = Some (a * 10 ^ N.of_nat w + n).
Proof.
  induction w as [|k IH]; intros n a Hn.
  - cbn [print_fixed]. unfold parse_from. cbn [fold_left]. change (N.of_nat 0) with 0 in *. rewrite N.pow_0_r in *. f_equal. lia.
  - cbn [print_fixed]. rewrite parse_from_app.
    assert (Hpow : 10 ^ N.of_nat (S k) = 10 * 10 ^ N.of_nat k).
    { rewrite Nat2N.inj_succ, N.pow_succ_r'. reflexivity. }
    rewrite Hpow in Hn.
    rewrite IH by (apply N.div_lt_upper_bound; lia).
    unfold parse_from. cbn [fold_left parse_step]. unfold is_digit, digit_char.
    assert (Hm : n mod 10 < 10) by (apply N.mod_lt; lia).
    replace ((48 <=? 48 + n mod 10) && (48 + n mod 10 <=? 57)) with true
      by (symmetry; apply andb_true_iff; split; apply N.leb_le; lia).
    f_equal. rewrite Hpow. pose proof (N.div_mod n 10 ltac:(lia)) as Hdm. nia.
Qed.
Lemma print_fixed_length w n : length (print_fixed w n) = w.
Proof. revert n; induction w as [|k IH]; intro n; cbn [print_fixed]; [reflexivity|]. rewrite app_length, IH. cbn. lia. Qed.
Print Assumptions parse_print_fixed.
