From Coq Require Import List NArith Bool Lia.
Import ListNotations.
Definition text := list N.
Inductive etree := Node (tag : text) (txt : option text) (ch : list etree).
Inductive ev := EOpen (t : text) | ELeaf (t x : text) | EEmpty (t : text) | EClose (t : text).
Definition text_eqb (a b : text) : bool := if list_eq_dec N.eq_dec a b then true else false.
Lemma text_eqb_true a b : text_eqb a b = true -> a = b.
Proof. unfold text_eqb. destruct (list_eq_dec N.eq_dec a b); congruence. Qed.
(* fixed builder: stack of frames (tag, reversed children), optional root *)
Definition frame := (text * list etree)%type.
Record st := { stack : list frame; root : option etree }.
Inductive res (A : Type) := Ok (a : A) | Err.
Arguments Ok {A}. Arguments Err {A}.
Definition attach (n : etree) (s : st) : res st :=
  match stack s with
  | (t, ch) :: rest => Ok {| stack := (t, n :: ch) :: rest; root := root s |}
  | [] => match root s with None => Ok {| stack := []; root := Some n |} | Some _ => Err end
  end.
Definition step (s : st) (e : ev) : res st :=
  match e with
  | ELeaf t x => attach (Node t (Some x) []) s
  | EEmpty t => attach (Node t None []) s
  | EOpen t => match stack s, root s with
               | [], Some _ => Err
               | _, _ => Ok {| stack := (t, []) :: stack s; root := root s |} end
  | EClose t => match stack s with
                | [] => Err
                | (t', ch) :: rest => if text_eqb t t' then attach (Node t' None (rev ch)) {| stack := rest; root := root s |} else Err
                end
  end.
Fixpoint run (s : st) (es : list ev) : res st :=
  match es with [] => Ok s | e :: es' => match step s e with Ok s' => run s' es' | Err => Err end end.
Definition parse (es : list ev) : res etree :=
  match run {| stack := []; root := None |} es with
  | Ok s => match stack s, root s with [], Some t => Ok t | _, _ => Err end
  | Err => Err end.

(* grammar *)
Inductive forest : list ev -> list etree -> Prop :=
| f_nil : forest [] []
| f_leaf t x es ts : forest es ts -> forest (ELeaf t x :: es) (Node t (Some x) [] :: ts)
| f_empty t es ts : forest es ts -> forest (EEmpty t :: es) (Node t None [] :: ts)
| f_agg t es1 ch es2 ts : forest es1 ch -> forest es2 ts ->
    forest (EOpen t :: es1 ++ EClose t :: es2) (Node t None ch :: ts).


Lemma forest_app a fa b fb : forest a fa -> forest b fb -> forest (a ++ b) (fa ++ fb).
Proof.
  intros Ha Hb. induction Ha as [|t x es ts Ha IH|t es ts Ha IH|t es1 ch es2 ts H1 IH1 H2 IH2]; cbn [app].
  - exact Hb.
  - constructor. exact IH.
  - constructor. exact IH.
  - rewrite <- app_assoc. cbn [app]. constructor; [exact H1|exact IH2].
Qed.

(* invariant: consumed events vs. builder state *)
Inductive inv : list ev -> list frame -> option etree -> Prop :=
| inv_init : inv [] [] None
| inv_root pre t : forest pre [t] -> inv pre [] (Some t)
| inv_open pre fs r t es f : inv pre fs r -> (fs = [] -> r = None) -> forest es f ->
    inv (pre ++ EOpen t :: es) ((t, rev f) :: fs) r.

Lemma inv_attach pre fs r n e : forest [e] [n] -> inv pre fs r ->
  forall s', attach n {| stack := fs; root := r |} = Ok s' -> inv (pre ++ [e]) (stack s') (root s').
Proof.
  intros He Hinv s' Hat. unfold attach in Hat. cbn [stack root] in Hat.
  destruct Hinv as [|pre t Hf|pre fs r t es f Hinv Hr Hf].
  - inversion Hat; subst; cbn. apply inv_root. exact He.
  - discriminate.
  - inversion Hat; subst; cbn [stack root].
    replace (n :: rev f) with (rev (f ++ [n])) by (rewrite rev_app_distr; reflexivity).
    rewrite <- app_assoc. cbn [app].
    change (EOpen t :: es ++ [e]) with (EOpen t :: (es ++ [e])).
    apply inv_open; [exact Hinv|exact Hr|]. apply forest_app; assumption.
Qed.

Lemma inv_step pre s e s' : inv pre (stack s) (root s) -> step s e = Ok s' -> inv (pre ++ [e]) (stack s') (root s').
Proof.
  intros Hinv Hst. destruct s as [fs r]. cbn [stack root] in *. destruct e as [t|t x|t|t]; cbn [step stack root] in Hst.
  - (* open *)
    assert (Hok : (fs = [] -> r = None) /\ s' = {| stack := (t, []) :: fs; root := r |}).
    { destruct fs as [|fr fs']; destruct r as [r0|]; try discriminate; inversion Hst; subst; split; try reflexivity; intro H; try discriminate H; reflexivity. }
    destruct Hok as [Hr ->]. cbn [stack root]. change (@nil etree) with (rev (@nil etree)).
    apply inv_open; [exact Hinv|exact Hr|constructor].
  - eapply inv_attach; [|exact Hinv|exact Hst]. repeat constructor.
  - eapply inv_attach; [|exact Hinv|exact Hst]. repeat constructor.
  - (* close *)
    destruct fs as [|[t' ch] rest]; [discriminate|].
    destruct (text_eqb t t') eqn:Et; [|discriminate]. apply text_eqb_true in Et. subst t'.
    inversion Hinv as [| |pre0 fs0 r0 t0 es f Hinv0 Hr Hf]; subst.
    rewrite rev_involutive in Hst. rewrite <- app_assoc. cbn [app].
    assert (Hn : forest (EOpen t :: es ++ [EClose t]) [Node t None f]).
    { change [EClose t] with (EClose t :: []). constructor; [exact Hf|constructor]. }
    pose proof (inv_attach pre0 rest r (Node t None f) (EOpen t) ) as _.
    (* generalized attach: appending a whole forest segment *)
    unfold attach in Hst. cbn [stack root] in Hst.
    destruct Hinv0 as [|pre1 t1 Hf1|pre1 fs1 r1 t1 es1 f1 Hinv1 Hr1 Hf1].
    + inversion Hst; subst; cbn [stack root]. apply inv_root. cbn [app]. exact Hn.
    + discriminate.
    + inversion Hst; subst; cbn [stack root].
      replace (Node t None f :: rev f1) with (rev (f1 ++ [Node t None f])) by (rewrite rev_app_distr; reflexivity).
      rewrite <- app_assoc. cbn [app].
      change (EOpen t1 :: es1 ++ EOpen t :: es ++ [EClose t]) with (EOpen t1 :: (es1 ++ (EOpen t :: es ++ [EClose t]))).
      apply inv_open; [exact Hinv1|exact Hr1|]. apply forest_app; assumption.
Qed.

Lemma inv_run es : forall pre s s', inv pre (stack s) (root s) -> run s es = Ok s' -> inv (pre ++ es) (stack s') (root s').
Proof.
  induction es as [|e es IH]; intros pre s s' Hinv Hrun; cbn [run] in Hrun.
  - inversion Hrun; subst. rewrite app_nil_r. exact Hinv.
  - destruct (step s e) as [s1|] eqn:Hs; [|discriminate].
    replace (pre ++ e :: es) with ((pre ++ [e]) ++ es) by (rewrite <- app_assoc; reflexivity).
    eapply IH; [|exact Hrun]. eapply inv_step; eassumption.
Qed.

Theorem parse_ok_implies_nested es t : parse es = Ok t -> forest es [t].
Proof.
  unfold parse. destruct (run _ es) as [s|] eqn:Hrun; [|discriminate].
  destruct (stack s) eqn:Hs; [|discriminate]. destruct (root s) as [r|] eqn:Hr; [|discriminate].
  intro H; inversion H; subst r.
  pose proof (inv_run es [] {| stack := []; root := None |} s inv_init Hrun) as Hinv. cbn [app] in Hinv. rewrite Hs, Hr in Hinv.
  inversion Hinv; subst. assumption.
Qed.
Print Assumptions parse_ok_implies_nested.
