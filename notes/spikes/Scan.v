From Coq Require Import List NArith Bool Lia Arith.
Import ListNotations.
Local Open Scope N_scope.
Definition text := list N.
Definition LT : N := 60. Definition GT : N := 62. Definition SL : N := 47.
Definition is_tagch (c : N) : bool :=
  ((65 <=? c) && (c <=? 90)) || ((48 <=? c) && (c <=? 57)) || (c =? 46) || (c =? 47) || (c =? 95) || (c =? 32).
Definition not_lt (c : N) : bool := negb (c =? LT).
Fixpoint take_while (p : N -> bool) (s : text) : text * text :=
  match s with [] => ([], []) | c :: s' => if p c then let (a, b) := take_while p s' in (c :: a, b) else ([], s) end.
Fixpoint strip_prefix (p s : text) : option text :=
  match p, s with [], _ => Some s | a :: p', b :: s' => if a =? b then strip_prefix p' s' else None | _, [] => None end.
Record rawmatch := { m_tag : text; m_text : text; m_closed : bool; m_tail : text }.
Definition match_at (s : text) : option (rawmatch * nat) :=
  match s with
  | c :: s1 => if c =? LT then
      let (tag, r) := take_while is_tagch s1 in
      match tag, r with
      | _ :: _, g :: r1 => if g =? GT then
          let (t, r2) := take_while not_lt r1 in
          let cl := match strip_prefix ([LT; SL] ++ tag ++ [GT])%list r2 with Some r' => (true, r') | None => (false, r2) end in
          let (tail, r4) := take_while not_lt (snd cl) in
          Some ({| m_tag := tag; m_text := t; m_closed := fst cl; m_tail := tail |}, (length s - length r4)%nat)
        else None
      | _, _ => None end else None
  | [] => None end.
Fixpoint scan (skip : nat) (s : text) : list rawmatch :=
  match s with [] => [] | c :: s' =>
    match skip with S k => scan k s' | O =>
      match match_at s with Some (m, n) => m :: scan (n - 1) s' | None => scan 0 s' end end end.

Lemma take_while_app p a b : forallb p a = true -> (b = [] \/ exists c b', b = c :: b' /\ p c = false) ->
  take_while p (a ++ b) = (a, b).
Proof.
  intros Ha Hb. induction a as [|x a IH]; cbn [app take_while].
  - destruct Hb as [->|(c & b' & -> & Hc)]; cbn [take_while]; [reflexivity|]. rewrite Hc. reflexivity.
  - cbn [forallb] in Ha. apply andb_true_iff in Ha as [Hx Ha]. rewrite Hx, (IH Ha). reflexivity.
Qed.
Lemma strip_prefix_app p r : strip_prefix p (p ++ r) = Some r.
Proof. induction p as [|a p IH]; cbn [app strip_prefix]; [reflexivity|]. rewrite N.eqb_refl. exact IH. Qed.
Lemma scan_skip p r : scan (length p) (p ++ r) = scan 0 r.
Proof. induction p as [|a p IH]; cbn [length app]; [reflexivity|]. cbn [scan]. exact IH. Qed.

Definition starts_lt_or_nil (r : text) : Prop := r = [] \/ exists r', r = LT :: r'.
Definition leaf_closed (tag data : text) : text := ([LT] ++ tag ++ [GT] ++ data ++ [LT; SL] ++ tag ++ [GT])%list.

Lemma not_lt_stop r : starts_lt_or_nil r -> r = [] \/ exists c b', r = c :: b' /\ not_lt c = false.
Proof. intros [->|(r' & ->)]; [left; reflexivity|right]. exists LT, r'. split; reflexivity. Qed.

Definition leaf_closed_then (tag data rest : text) : text := LT :: (tag ++ GT :: (data ++ LT :: SL :: (tag ++ GT :: rest)))%list.
Lemma leaf_closed_then_eq tag data rest : (leaf_closed tag data ++ rest)%list = leaf_closed_then tag data rest.
Proof. unfold leaf_closed, leaf_closed_then. cbn [app]. repeat (rewrite <- ?app_assoc; cbn [app]). reflexivity. Qed.
Lemma match_leaf_closed tag data rest :
  tag <> [] -> forallb is_tagch tag = true -> forallb not_lt data = true -> starts_lt_or_nil rest ->
  match_at (leaf_closed tag data ++ rest) =
    Some ({| m_tag := tag; m_text := data; m_closed := true; m_tail := [] |}, length (leaf_closed tag data)).
Proof.
  intros Hne Htag Hdata Hrest. rewrite leaf_closed_then_eq. unfold leaf_closed_then, match_at.
  change (LT =? LT) with true. cbv iota.
  rewrite (take_while_app is_tagch tag (GT :: _)); [ | assumption | right; eexists _, _; split; reflexivity].
  destruct tag as [|t0 tag']; [congruence|].
  change (GT =? GT) with true. cbv iota.
  rewrite (take_while_app not_lt data (LT :: _)); [ | assumption | right; eexists _, _; split; reflexivity].
  set (tg := t0 :: tag').
  replace (LT :: SL :: (tg ++ GT :: rest))%list with (([LT; SL] ++ tg ++ [GT]) ++ rest)%list
    by (cbn [app]; rewrite <- app_assoc; reflexivity).
  rewrite strip_prefix_app. cbn [fst snd].
  assert (Hlen : forall r4 : text, (length r4 <= length rest)%nat ->
     (length (LT :: (tg ++ GT :: (data ++ ([LT; SL] ++ tg ++ [GT]) ++ rest)))%list - length r4)%nat =
     (length (leaf_closed tg data) + (length rest - length r4))%nat).
  { intros r4 Hr. unfold leaf_closed. cbn [app length]. repeat (rewrite ?app_length; cbn [length]). lia. }
  destruct (not_lt_stop rest Hrest) as [->|(c & b' & -> & Hc)].
  - cbn [take_while]. rewrite Hlen by (cbn; lia). cbn [length]. f_equal. f_equal. lia.
  - cbn [take_while]. rewrite Hc. rewrite Hlen by lia. f_equal. f_equal. lia.
Qed.

Lemma scan_leaf_closed tag data rest :
  tag <> [] -> forallb is_tagch tag = true -> forallb not_lt data = true -> starts_lt_or_nil rest ->
  scan 0 (leaf_closed tag data ++ rest) = {| m_tag := tag; m_text := data; m_closed := true; m_tail := [] |} :: scan 0 rest.
Proof.
  intros Hne Htag Hdata Hrest.
  pose proof (match_leaf_closed tag data rest Hne Htag Hdata Hrest) as Hm.
  remember (leaf_closed tag data) as tok eqn:Etok.
  assert (Hlen : exists c tok', tok = c :: tok') by (subst tok; unfold leaf_closed; cbn [app]; eauto).
  destruct Hlen as (c & tok' & ->). cbn [app] in *. cbn [scan]. rewrite Hm. f_equal.
  cbn [length]. replace (S (length tok') - 1)%nat with (length tok') by lia. apply scan_skip.
Qed.
Print Assumptions scan_leaf_closed.
